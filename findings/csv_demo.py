"""C09 finding: compressed files written under a .zip / extension-less name cannot be read back."""
import tempfile, os, pandas as pd, numpy as np
from hydrodiy.io import csv
d = tempfile.mkdtemp(); src = os.path.join(d, "s.py"); open(src, "w").close()
df = pd.DataFrame({"a": [1., 2.], "b": [3., 4.]})
for name in ("x.csv", "y.zip", "z", "w.dat"):
    f = os.path.join(d, name)
    csv.write_csv(df, f, "c", src, compress=True)
    try:
        d2, _ = csv.read_csv(f)
        print(name, "round trip", "OK" if np.allclose(d2.values, df.values) else "DIFFERS")
    except Exception as e:
        print(name, "FAILS:", type(e).__name__, str(e)[:60])
