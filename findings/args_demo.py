"""C18 findings: kde, lstsq, scattercat change their arguments (run with the repository interpreter)."""
import numpy as np, pandas as pd
import matplotlib; matplotlib.use("Agg")
import matplotlib.pyplot as plt
from hydrodiy.plot import putils
from hydrodiy.stat import sutils
np.random.seed(1)
xy = np.random.uniform(size=(50, 2)); xy0 = xy.copy()
putils.kde(xy, eps=1e-3)
print("kde: argument unchanged" if np.array_equal(xy, xy0) else f"kde CHANGED its argument (max diff {np.abs(xy-xy0).max():.1e})")
X = pd.DataFrame(np.random.uniform(size=(20, 2)), columns=["a", "b"]); y = X.a*2+1
cols0 = list(X.columns)
sutils.lstsq(X, y, add_intercept=True)
print("lstsq: argument unchanged" if list(X.columns) == cols0 else f"lstsq CHANGED its argument: columns {cols0} -> {list(X.columns)}")
cuts = [0.2, 0.5, 0.8]; c0 = list(cuts)
fig, ax = plt.subplots()
try:
    putils.scattercat(ax, np.random.uniform(size=30), np.random.uniform(size=30), np.random.uniform(size=30), cuts=cuts)
except AttributeError:
    pass      # matplotlib.cm.get_cmap is gone in the installed matplotlib; the cuts are processed before that point
print("scattercat: argument unchanged" if cuts == c0 else f"scattercat CHANGED its cuts argument: {c0} -> {cuts}")
