"""C13 findings: nodata lost by save/load, inlets lost by Catchment.from_dict, big-endian rasters mis-read."""
import numpy as np, tempfile, os
from hydrodiy.gis.grid import Grid, Catchment
d = tempfile.mkdtemp()
g = Grid("g", 3, 2, nodata=-9999, dtype=np.float64); g.data = np.arange(6).reshape(2, 3)
f = os.path.join(d, "g.bil"); g.save(f)
g2 = Grid.from_header(f)
print("save/load nodata:", g.nodata, "->", g2.nodata, "OK" if g.nodata == g2.nodata else "LOST")
fd = Grid("fd", 3, 3, dtype=np.int64); fd.data = np.array([[4, 4, 4], [4, 4, 4], [0, 0, 0]])
c = Catchment("c", fd); c.delineate_area(7, idxinlets=[1])
c2 = Catchment.from_dict(c.to_dict())
print("catchment dict inlets:", c.idxinlets, "->", c2.idxinlets, "OK" if c2.idxinlets is not None and list(c2.idxinlets) == list(c.idxinlets) else "LOST")
vals = np.arange(6, dtype=">f4")
vals.tofile(os.path.join(d, "be.bil"))
open(os.path.join(d, "be.hdr"), "w").write("NROWS 2\nNCOLS 3\nXLLCORNER 0\nYLLCORNER 0\nCELLSIZE 1\nNBITS 32\nPIXELTYPE FLOAT\nBYTEORDER M\n")
b = Grid.from_header(os.path.join(d, "be.hdr"))
print("big-endian raster:", "OK" if np.array_equal(b.data.ravel(), np.arange(6)) else f"MIS-READ {b.data.ravel()[:3]}")
