"""C13 finding: integer rasters beyond 2^53.  np.clip(int64 data, -inf, inf) converted the data to float64, so setting, saving
and loading a grid altered large values.  PYTHONPATH=<repo>/src /venv/bin/python grid_int64_demo.py -> exits 0 on the repaired tree."""
import os, tempfile
import numpy as np
from hydrodiy.gis.grid import Grid
vals = np.array([[2**53 + 1, -2**62 - 1, np.iinfo(np.int64).max]], dtype=np.int64)
g = Grid("t", ncols=3, nrows=1, dtype=np.int64)
g.data = vals
assert np.array_equal(g.data, vals), (g.data, vals)
d = tempfile.mkdtemp()
f = os.path.join(d, "g.bil")
g.save(f)
h = Grid.from_header(os.path.join(d, "g.hdr"))
assert h.dtype == np.int64 and np.array_equal(h.data, vals), h.data
# finite bounds still clip
g.maxdata = 10
assert g.data.max() == 10 and g.data.dtype == np.int64
u = Grid("u", ncols=1, nrows=1, dtype=np.uint64)
u.data = np.array([[2**64 - 1]], dtype=np.uint64)
assert int(u.data[0, 0]) == 2**64 - 1
print("PASS")
