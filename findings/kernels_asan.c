/* Reproduction harness for the memory findings of C05 (not a check: evidence for triage).
 * Build against a source tree S:
 *   clang -g -fsanitize=address,undefined -fno-sanitize-recover=undefined -I$S/data -I$S/stat -I$S/gis \
 *      kernels_asan.c $S/data/c_dutils.c $S/data/c_qualitycontrol.c $S/data/c_baseflow.c $S/data/c_var2h.c \
 *      $S/data/c_dateutils.c $S/stat/c_crps.c $S/gis/c_grid.c $S/gis/c_catchment.c -lm -o kasan
 * Run: ./kasan <case>   -- each case calls one kernel exactly as the Cython shim would for a legal Python call.
 */
#include <stdio.h>
#include <stdlib.h>
#include <string.h>
#include <math.h>
#include "c_dutils.h"
#include "c_qualitycontrol.h"
#include "c_var2h.h"
#include "c_dateutils.h"
#include "c_crps.h"
#include "c_grid.h"
#include "c_catchment.h"
int c_eckhardt(int nval, int timestep_type, double thresh, double tau, double BFI_max, double* inputs, double* outputs);

/* numpy gives a valid (>= 1 byte) pointer for empty arrays: model with malloc(1)-sized blocks of 0 elements */
#define EMPTY(T) ((T*)malloc(1))

int main(int argc, char **argv)
{
    const char *c = argc > 1 ? argv[1] : "";
    long long r = -999;
    if(!strcmp(c, "aggregate_empty")) {          /* dutils.aggregate(np.array([]), np.array([])) */
        int *ai = EMPTY(int); double *in = EMPTY(double), *out = EMPTY(double); int iend[1] = {0};
        r = c_aggregate(0, 0, 0, ai, in, out, iend);
    } else if(!strcmp(c, "flathomogen_empty")) {
        int *ai = EMPTY(int); double *in = EMPTY(double), *out = EMPTY(double);
        r = c_flathomogen(0, 0, ai, in, out);
    } else if(!strcmp(c, "islin_one")) {         /* qualitycontrol.islinear(np.array([1.])) */
        double *d = malloc(sizeof(double)); int *f = malloc(sizeof(int)); d[0] = 1.;
        r = c_islin(1, 0., 1e-5, 1, d, f);
    } else if(!strcmp(c, "eckhardt_empty")) {    /* signatures.eckhardt([]) */
        double *in = EMPTY(double), *out = EMPTY(double);
        r = c_eckhardt(0, 1, 0.95, 20, 0.8, in, out);
    } else if(!strcmp(c, "var2h_scan")) {        /* all time stamps <= hstartsec: scan runs past the end */
        int n = 3; long long *t = malloc(n*sizeof(long long)); double *v = malloc(n*sizeof(double)), *h = malloc(2*sizeof(double));
        for(int i=0;i<n;i++){ t[i] = 10*i; v[i] = 1.; }
        r = c_var2h(n, 2, 3600, 0, 0, 432000, t, v, 100000, h);
    } else if(!strcmp(c, "crps_nocol")) {        /* crps(obs, ens) with ens of shape (n, 0) */
        double obs[2] = {1., 2.}; double *sim = EMPTY(double); double w[2] = {0, 0}; double tab[7]; double dec[5] = {0};
        r = c_crps(2, 0, 0, 0, obs, sim, w, tab, dec);
    } else if(!strcmp(c, "coord2cell_onecol")) { /* grid.coord2cell(np.zeros((3, 1))) */
        double *xy = malloc(3*sizeof(double)); long long *idx = malloc(3*sizeof(long long)); xy[0]=xy[1]=xy[2]=0.5;
        r = c_coord2cell(4, 4, 0., 0., 1., 3, xy, idx);
    } else if(!strcmp(c, "coord2cell_nan")) {    /* NaN coordinate: double -> long long conversion of NaN */
        double xy[2] = {NAN, 0.5}; long long idx[1];
        r = c_coord2cell(4, 4, 0., 0., 1., 1, xy, idx);
        printf("idxcell=%lld\n", idx[0]);
    } else if(!strcmp(c, "getdate_huge")) {
        int date[3]; r = c_dateutils_getdate(1e300, date);
    } else if(!strcmp(c, "boundary_onecell")) {  /* delineate_boundary of a one-cell area */
        long long area[1] = {5}, buf[1] = {-1}, bnd[1] = {-1}; long long *mask = calloc(16, sizeof(long long)); mask[5] = 1;
        r = c_delineate_boundary(4, 4, 1, area, buf, mask, bnd);
    } else if(!strcmp(c, "boundary_badcell")) {  /* area cell number outside the grid (user mask given) */
        long long area[2] = {5, 1000000}, buf[2] = {-1,-1}, bnd[2] = {-1,-1}; long long *mask = calloc(16, sizeof(long long)); mask[5] = 1;
        r = c_delineate_boundary(4, 4, 2, area, buf, mask, bnd);
    } else if(!strcmp(c, "voronoi_more_cells")) {/* 4 catchment cells, 1 point */
        long long area[4] = {0, 1, 2, 3}; double *xy = malloc(2*sizeof(double)); double w[1]; xy[0]=xy[1]=0.;
        r = c_voronoi(4, 4, 0., 0., 1., 4, area, 1, xy, w);
    } else if(!strcmp(c, "voronoi_nopoint")) {   /* voronoi(catchment, np.zeros((0, 2))) */
        long long area[1] = {0}; double *xy = EMPTY(double); double *w = EMPTY(double);
        r = c_voronoi(4, 4, 0., 0., 1., 1, area, 0, xy, w);
    } else if(!strcmp(c, "accumulate_nprint0")) {
        long long code[9] = {32,64,128,16,0,1,8,4,2}; long long fd[4] = {1, 0, 1, 0}; double a[4] = {1,1,1,1}, b[4] = {1,1,1,1};
        r = c_accumulate(2, 2, 0, 4, 0., code, fd, a, b);
    } else if(!strcmp(c, "intersect_capacity")) { /* not reachable through grid.py (capacity = nrows*ncols); direct shim call */
        double xy[6] = {0.5,0.5, 1.5,0.5, 2.5,0.5}; long long np_[1]; long long *idx = malloc(sizeof(long long)); double *w = malloc(sizeof(double));
        r = c_intersect(4, 4, 0., 0., 1., 1., 3, xy, 1, np_, idx, w);
    } else { fprintf(stderr, "unknown case\n"); return 2; }
    printf("%s returned %lld\n", c, r);
    return 0;
}
