"""C12 findings: Vector.clone / from_dict / Transform.params_sample (run with the repository interpreter)."""
import numpy as np
from hydrodiy.data.containers import Vector
from hydrodiy.stat import transform
out = []
v = Vector(["a"], [np.nan], [0], [1], accept_nan=True)
try:
    v.clone(); out.append("clone of a NaN-holding vector: ok")
except Exception as e:
    out.append(f"clone of a NaN-holding vector FAILS: {type(e).__name__}: {e}")
v = Vector(["a", "b"], [0.5, 0.5], [0, 0], [1, 1], check_hitbounds=True)
v.values = [2., 0.5]
c = v.clone()
out.append(f"clone flags: hitbounds {v.hitbounds}->{c.hitbounds}, check_bounds {v.check_bounds}->{c.check_bounds}, check_hitbounds {v.check_hitbounds}->{c.check_hitbounds}")
d = Vector.from_dict(v.to_dict())
out.append(f"dict round trip: hitbounds {v.hitbounds}->{d.hitbounds}")
t = transform.YeoJohnson()
m0 = t.params.mins.copy(); t.params_sample(10)
out.append(f"params_sample: mins {m0} -> {t.params.mins}")
print("\n".join(out))
