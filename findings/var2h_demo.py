"""C14 finding: var2h depends on the storage resolution of the index."""
import numpy as np, pandas as pd
from hydrodiy.data import dutils
t = pd.date_range("2001-01-01 00:10", periods=50, freq="20min")
se = pd.Series(np.arange(50, dtype=float), index=t)
out = []
for unit in ("ns", "us", "s"):
    s2 = se.copy(); s2.index = s2.index.as_unit(unit)
    try:
        h = dutils.var2h(s2)
        out.append((unit, np.round(h.values[:3], 3)))
    except Exception as e:
        out.append((unit, f"{type(e).__name__}: {e}"))
for o in out: print(*o)
