"""C04 finding (fixed by 0e81877): Matthews correlation of a large contingency table.
PYTHONPATH=<repo>/src /venv/bin/python mcc_demo.py  -> exits 0 on the repaired tree, fails before the fix."""
from hydrodiy.stat import metrics
import math
for n in (30000, 60000, 10**6):
    s, _ = metrics.binary([[n, 1], [1, n]])
    tp = tn = float(n); fp = fn = 1.0
    ref = (tp*tn - fp*fn)/math.sqrt((tp+fp)*(tp+fn)*(tn+fp)*(tn+fn))
    assert abs(s["MCC"] - ref) < 1e-12, (n, s["MCC"], ref)
print("PASS")
