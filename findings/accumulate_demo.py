"""C11 finding: flow accumulation of a non-uniform field adds the visited cell's own value once per upstream cell."""
import numpy as np
from hydrodiy.gis.grid import Grid, accumulate
fd = Grid("fd", 4, 1, dtype=np.int64); fd.data = np.array([[1, 1, 1, 0]])     # 0 -> 1 -> 2 -> 3 (sink)
f = Grid("f", 4, 1, dtype=np.float64); f.data = np.array([[1., 10., 100., 1000.]])
acc = accumulate(fd, f, nprint=10)
print("accumulated:", acc.data.ravel()[:3], "expected [1. 11. 111.] (own value + everything upstream)")
