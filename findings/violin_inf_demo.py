"""C20: Violin summary statistics with an infinite value in a column (before fix 0071490:
median 4.0 instead of 3.0, upper quantiles NaN).  Run with /venv/bin/python."""
import numpy as np, pandas as pd, matplotlib
matplotlib.use("Agg")
from hydrodiy.plot.violinplot import Violin
df = pd.DataFrame({"a": [1., 2., 3., 4., 5., np.inf, np.inf], "b": [1., 2., 3., 4., 5., np.nan, np.nan]})
v = Violin(df)
print(v.stat_median.to_dict(), v.stat_center_high.to_dict(), v.stat_extremes_high.to_dict())
assert v.stat_median["a"] == v.stat_median["b"] == 3.0
assert v.stat_extremes_high["a"] == 5.0 and v.stat_center_high["a"] == 4.0
