"""C01/C02 finding: Manly at the limiting exponent 0 (run with the repository interpreter)."""
import numpy as np
from hydrodiy.stat import transform
t = transform.Manly(); t.xmax = 10.
x = np.linspace(0.1, 5, 5)
for lam in (0., 1e-10):
    t.lam = lam
    try:
        y = t.forward(x); xb = t.backward(y); j = t.jacobian(x)
        ok = np.allclose(xb, x) and np.all(j > 0)
        print("lam", lam, "round trip ok" if ok else f"FAILS: forward={y} backward={xb} jac={j}")
    except Exception as e:
        print("lam", lam, "FAILS:", type(e).__name__, e)
