"""C06 finding: flow-path length on a two-column grid.  The step from cell 1 (row 0, column 1) to cell 2 (row 1, column 0) is
diagonal but has an index difference of 1, which the kernel took for a horizontal step.
PYTHONPATH=<repo>/src /venv/bin/python flowpath_demo.py -> exits 0 on the repaired tree."""
import math
import numpy as np
from hydrodiy.gis.grid import Grid, Catchment

# 2 x 2 grid: cell 1 drains down-left (code 8) into cell 2, cell 2 drains right (1) into cell 3 (outlet, sink)
fd = Grid("fd", ncols=2, nrows=2, dtype=np.int64)
fd.data = np.array([[4, 8], [1, 0]], dtype=np.int64)
ca = Catchment("c", fd)
ca.delineate_area(3)
ca.compute_flowpathlengths()
paths = ca.flowpathlengths
# columns: start cell, end cell, length (in cells)
d = {int(r[0]): r[2] for r in np.asarray(paths)}
assert abs(d[1] - (math.sqrt(2) + 1)) < 1e-12, d
assert abs(d[0] - 2.0) < 1e-12, d
print("PASS")
