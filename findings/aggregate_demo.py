"""C08 finding: aggregate max / tail are wrong for negative data and for missing values (maxnan > 0)."""
import numpy as np
from hydrodiy.data import dutils
idx = np.array([1, 1, 2, 2])
print("max of negatives :", dutils.aggregate(idx, np.array([-3., -1., -5., -2.]), operator=2), "expected [-1. -2.]")
print("max with a NaN   :", dutils.aggregate(idx, np.array([-3., np.nan, -5., -2.]), operator=2, maxnan=1), "expected [-3. -2.]")
print("tail, trailing NaN:", dutils.aggregate(idx, np.array([4., np.nan, 5., 6.]), operator=3, maxnan=1), "expected [4. 6.]")
