"""Alias / in-place effect analysis of Python functions (engine E5, used by C12 and C18).

For one function: which *roots* (parameters, `self.<attr>` state, or caller-chosen labels) may have
their buffer or object mutated.  Order-aware walk over the statements, local names mapped to the set
of roots whose buffer they may share (`buf`) and whose object identity they may be (`obj`):
  - `x = p`                      obj+buf alias
  - `x = p.values / p.T / p[a:b] / np.asarray(p) / pd.Series(p) ...`   buf alias (new object)
  - `x = p.copy() / p.astype(t) / np.array(p) / p + 1 / p[mask] ...`    fresh
Mutations recorded: element / slice stores, augmented assignment, in-place methods, np.copyto & co,
`out=` keywords, attribute stores (object identity only), `del x[..]`, and calls of repository
functions that (transitively) mutate a parameter.
"""
import ast

from .pyfront import dotted, walk_no_nested

BUF_ATTRS = {"values", "T", "flat", "data", "_data", "real", "imag", "loc", "iloc", "at", "iat", "array", "_values",
             "index", "columns"}
BUF_FUNCS = {"asarray", "atleast_1d", "atleast_2d", "atleast_3d", "ascontiguousarray", "asanyarray", "reshape",
             "ravel", "squeeze", "transpose", "swapaxes", "asfortranarray", "broadcast_to", "expand_dims", "moveaxis"}
BUF_METHODS = {"reshape", "ravel", "squeeze", "view", "transpose", "swapaxes", "to_numpy", "__array__", "get_values",
               "diagonal", "set_index", "rename"}      # may share the buffer
# attributes computed on access: the result is a new object (DatetimeIndex components, shapes, accessors)
COMPUTED_ATTRS = {"dayofyear", "year", "month", "day", "hour", "minute", "second", "days_in_month", "weekday", "dayofweek",
                  "quarter", "shape", "size", "ndim", "dtype", "dtypes", "nbytes", "itemsize", "str", "dt", "cat",
                  "is_monotonic_increasing", "freq", "tz", "empty", "name"}
WRAPPERS = {"pd.Series", "pd.DataFrame", "pandas.Series", "pandas.DataFrame"}
FRESH_METHODS = {"copy", "astype", "flatten", "clone", "tolist", "deepcopy", "sum", "mean", "min", "max", "std", "any",
                 "all", "cumsum", "sort_values", "sort_index", "dropna", "round", "clip", "fillna", "apply", "groupby",
                 "resample", "to_dict", "isnull", "notnull", "argsort", "quantile", "describe", "tolist", "unique",
                 "interpolate", "shift", "diff", "rolling", "reindex", "join", "merge", "pivot", "pivot_table", "stack",
                 "unstack", "nonzero", "repeat", "take", "compress", "cumprod", "dot", "var", "median", "rank", "abs",
                 "to_series", "to_frame", "reset_index", "drop", "head", "tail", "sample", "where", "mask", "map",
                 "format", "split", "strip", "lower", "upper", "items", "keys", "get"}
MUTATORS = {"sort", "fill", "resize", "put", "itemset", "partition", "setflags", "byteswap", "setfield",
            "append", "extend", "pop", "insert", "remove", "clear", "update", "setdefault", "reverse", "popitem",
            "add", "discard", "shuffle"}
NP_MUTATING_FUNCS = {"copyto": 0, "place": 0, "putmask": 0, "put": 0, "fill_diagonal": 0, "put_along_axis": 0}
RANDOM_MUTATING = {"shuffle"}
INPLACE_KW = {"inplace"}


class Mutation:
    def __init__(self, kind, root, node, text, via=None):
        self.kind, self.root, self.node, self.text, self.via = kind, root, node, text, via

    @property
    def line(self):
        return getattr(self.node, "lineno", None)

    def __repr__(self):
        return f"{self.kind}:{self.root}:{self.text}@{self.line}"


class AliasVal:
    __slots__ = ("obj", "buf")

    def __init__(self, obj=(), buf=()):
        self.obj, self.buf = frozenset(obj), frozenset(buf)

    def union(self, o):
        return AliasVal(self.obj | o.obj, self.buf | o.buf)

    def __bool__(self):
        return bool(self.obj or self.buf)


NONE = AliasVal()


class FnAnalysis:
    def __init__(self, fdef, roots, attr_roots=None, summaries=None, resolve=None, self_props=None, attr_root_fn=None):
        """roots: local name -> root label (object+buffer);  attr_roots: dotted attribute path -> root label
        (e.g. 'self.params.mins' -> 'self.params.mins');  summaries: callee key -> set of mutated param indexes /
        names;  resolve(call) -> (callee key, [param names]) or None"""
        self.fdef = fdef
        self.env = {n: AliasVal([r], [r]) for n, r in roots.items()}
        self.attr_roots = attr_roots or {}
        self.summaries = summaries or {}
        self.resolve = resolve
        self.self_props = self_props or {}
        self.attr_root_fn = attr_root_fn
        self.mutations = []
        self.returns = AliasVal()

    # ---- alias value of an expression -----------------------------------------
    def val(self, e):
        if isinstance(e, ast.Name):
            return self.env.get(e.id, NONE)
        if isinstance(e, ast.Attribute):
            d = dotted(e)
            if d is not None and self.attr_root_fn is not None:
                r = self.attr_root_fn(d)
                if r is not None:
                    return AliasVal([r], [r])
            if d is not None:
                for path, root in self.attr_roots.items():
                    if d == path:
                        return AliasVal([root], [root])
                    if d.startswith(path + ".") and d[len(path) + 1:] in BUF_ATTRS:
                        return AliasVal([], [root])
            if e.attr in COMPUTED_ATTRS:
                return NONE
            base = self.val(e.value)
            if not base:
                return NONE
            if e.attr in BUF_ATTRS:
                return AliasVal([], base.buf | base.obj)
            # attribute of an aliased object: another object reachable from it (treated as part of it)
            return AliasVal(base.obj, base.buf)
        if isinstance(e, ast.Subscript):
            base = self.val(e.value)
            if not base:
                return NONE
            sl = e.slice
            if self._is_basic_index(sl):
                return AliasVal([], base.buf | base.obj)
            return NONE        # fancy / boolean indexing copies; scalar element reads are values
        if isinstance(e, ast.Call):
            return self.call_val(e)
        if isinstance(e, ast.IfExp):
            return self.val(e.body).union(self.val(e.orelse))
        if isinstance(e, (ast.Tuple, ast.List)):
            r = NONE
            for x in e.elts:
                r = r.union(self.val(x))
            return AliasVal([], r.buf | r.obj) if r else NONE
        if isinstance(e, ast.Starred):
            return self.val(e.value)
        if isinstance(e, ast.NamedExpr):
            v = self.val(e.value)
            self.env[e.target.id] = v
            return v
        return NONE

    def _is_basic_index(self, sl):
        if isinstance(sl, ast.Slice):
            return True
        if isinstance(sl, ast.Tuple):
            return any(isinstance(x, ast.Slice) for x in sl.elts) and all(
                isinstance(x, (ast.Slice, ast.Constant, ast.Name, ast.UnaryOp, ast.BinOp)) or
                (isinstance(x, ast.Constant) and x.value is Ellipsis) for x in sl.elts)
        if isinstance(sl, ast.Constant) and sl.value is Ellipsis:
            return True
        if isinstance(sl, ast.Constant) and isinstance(sl.value, str):
            return True          # df["col"] : a column shares the frame's buffer
        if isinstance(sl, ast.Name):
            return None          # unknown: element or fancy; treated as no alias for values (reads)
        return False

    def call_val(self, e):
        f = e.func
        d = dotted(f)
        kw = {k.arg: k.value for k in e.keywords if k.arg}
        if d and "." in d:
            modname, fn = d.rsplit(".", 1)
            if modname in ("np", "numpy") and e.args:
                if fn in BUF_FUNCS:
                    b = self.val(e.args[0])
                    return AliasVal([], b.buf | b.obj) if b else NONE
                if fn == "array":
                    cp = kw.get("copy")
                    if cp is not None and isinstance(cp, ast.Constant) and cp.value is False:
                        b = self.val(e.args[0])
                        return AliasVal([], b.buf | b.obj) if b else NONE
                    return NONE
            if d in WRAPPERS and e.args:
                cp = kw.get("copy")
                if cp is not None and isinstance(cp, ast.Constant) and cp.value is True:
                    return NONE
                b = self.val(e.args[0])
                return AliasVal([], b.buf | b.obj) if b else NONE
        if isinstance(f, ast.Attribute):
            base = self.val(f.value)
            if f.attr == "astype":
                cp = kw.get("copy")
                if cp is not None and isinstance(cp, ast.Constant) and cp.value is False and base:
                    return AliasVal([], base.buf | base.obj)
                return NONE
            if f.attr in BUF_METHODS and base:
                return AliasVal([], base.buf | base.obj)
            if f.attr in FRESH_METHODS:
                return NONE
        # repository callee returning an alias of one of its parameters
        if self.resolve is not None:
            r = self.resolve(e)
            if r is not None:
                key, pnames, bound = r
                sm = self.summaries.get(key)
                if sm is not None and sm.get("returns"):
                    out = NONE
                    for pn in sm["returns"]:
                        if pn in bound:
                            b = self.val(bound[pn])
                            if b:
                                out = out.union(AliasVal([], b.buf | b.obj))
                    return out
        return NONE

    # ---- mutations ---------------------------------------------------------------
    def mutate_buf(self, target_expr, kind, node):
        v = self.val(target_expr)
        for r in sorted(v.buf | v.obj):
            self.mutations.append(Mutation(kind, r, node, ast.unparse(node)[:120]))

    def mutate_obj(self, target_expr, kind, node):
        v = self.val(target_expr)
        for r in sorted(v.obj):
            self.mutations.append(Mutation(kind, r, node, ast.unparse(node)[:120]))

    def store_target(self, t, node, value=None):
        if isinstance(t, ast.Name):
            self.env[t.id] = self.val(value) if value is not None else NONE
        elif isinstance(t, (ast.Tuple, ast.List)):
            if value is not None and isinstance(value, (ast.Tuple, ast.List)) and len(value.elts) == len(t.elts):
                for a, b in zip(t.elts, value.elts):
                    self.store_target(a, node, b)
            else:
                v = self.val(value) if value is not None else NONE
                for a in t.elts:
                    if isinstance(a, ast.Name):
                        self.env[a.id] = AliasVal([], v.buf | v.obj) if v else NONE
                    else:
                        self.store_target(a, node, None)
        elif isinstance(t, ast.Subscript):
            self.mutate_buf(t.value, "element-store", node)
        elif isinstance(t, ast.Attribute):
            # x.attr = v   mutates the object x (not a shared buffer) -- except buffer-valued attributes
            d = dotted(t)
            if d is not None and d in self.attr_roots:
                self.mutations.append(Mutation("attr-rebind", self.attr_roots[d], node, ast.unparse(node)[:120]))
            elif d is not None and self.attr_root_fn is not None and self.attr_root_fn(d) is not None:
                self.mutations.append(Mutation("attr-rebind", self.attr_root_fn(d), node, ast.unparse(node)[:120]))
            self.mutate_obj(t.value, "attr-store", node)
        elif isinstance(t, ast.Starred):
            self.store_target(t.value, node, None)

    def visit_call_effects(self, c):
        f = c.func
        d = dotted(f)
        kw = {k.arg: k.value for k in c.keywords if k.arg}
        if "out" in kw:
            self.mutate_buf(kw["out"], "out=", c)
        if isinstance(f, ast.Attribute):
            if f.attr in MUTATORS:
                self.mutate_buf(f.value, f"method .{f.attr}()", c)
            ip = kw.get("inplace")
            if ip is not None and isinstance(ip, ast.Constant) and ip.value is True:
                self.mutate_buf(f.value, f"method .{f.attr}(inplace=True)", c)
            if f.attr == "__setitem__":
                self.mutate_buf(f.value, "method .__setitem__()", c)
        if d and "." in d:
            modname, fn = d.rsplit(".", 1)
            if modname in ("np", "numpy") and fn in NP_MUTATING_FUNCS and c.args:
                self.mutate_buf(c.args[NP_MUTATING_FUNCS[fn]], f"np.{fn}", c)
            if modname in ("np.random", "numpy.random", "random") and fn in RANDOM_MUTATING and c.args:
                self.mutate_buf(c.args[0], f"{modname}.{fn}", c)
        if d in ("setattr",) and c.args:
            self.mutate_obj(c.args[0], "setattr", c)
        if self.resolve is not None:
            r = self.resolve(c)
            if r is not None:
                key, pnames, bound = r
                sm = self.summaries.get(key)
                if sm:
                    for pn in sm.get("mutates", ()):
                        if pn in bound:
                            v = self.val(bound[pn])
                            for root in sorted(v.buf | v.obj):
                                self.mutations.append(Mutation("call", root, c, ast.unparse(c)[:120], via=f"{key}:{pn}"))

    def run(self):
        self.block(self.fdef.body)
        return self

    def block(self, stmts):
        for s in stmts:
            self.stmt(s)

    def exprs_calls(self, node):
        for n in walk_no_nested(node):
            if isinstance(n, ast.Call):
                self.visit_call_effects(n)
            if isinstance(n, ast.NamedExpr):
                self.env[n.target.id] = self.val(n.value)

    def stmt(self, s):
        if isinstance(s, (ast.FunctionDef, ast.AsyncFunctionDef, ast.ClassDef)):
            return
        if isinstance(s, ast.Assign):
            self.exprs_calls(s.value)
            for t in s.targets:
                if not isinstance(t, ast.Name):
                    self.exprs_calls(t)
                self.store_target(t, s, s.value)
            return
        if isinstance(s, ast.AnnAssign):
            if s.value is not None:
                self.exprs_calls(s.value)
                self.store_target(s.target, s, s.value)
            return
        if isinstance(s, ast.AugAssign):
            self.exprs_calls(s.value)
            t = s.target
            if isinstance(t, ast.Name):
                # x += v  mutates x's buffer in place when x is an array (ndarray.__iadd__)
                self.mutate_buf(t, "augmented assignment", s)
            elif isinstance(t, ast.Subscript):
                self.mutate_buf(t.value, "augmented element store", s)
            elif isinstance(t, ast.Attribute):
                self.mutate_buf(t, "augmented attribute", s)
            return
        if isinstance(s, ast.Delete):
            for t in s.targets:
                if isinstance(t, ast.Subscript):
                    self.mutate_buf(t.value, "del element", s)
                elif isinstance(t, ast.Name):
                    self.env.pop(t.id, None)
            return
        if isinstance(s, ast.Return):
            if s.value is not None:
                self.exprs_calls(s.value)
                self.returns = self.returns.union(self.val(s.value))
            return
        if isinstance(s, ast.Expr):
            self.exprs_calls(s.value)
            return
        if isinstance(s, ast.If):
            self.exprs_calls(s.test)
            before = dict(self.env)
            self.block(s.body)
            after_body = self.env
            self.env = dict(before)
            self.block(s.orelse)
            self.env = self.merge(after_body, self.env)
            return
        if isinstance(s, (ast.For, ast.AsyncFor)):
            self.exprs_calls(s.iter)
            it = self.val(s.iter)
            # iterating over an array yields views of its rows
            self.bind_loop_target(s.target, it)
            before = dict(self.env)
            for _ in range(2):
                self.block(s.body)
                self.env = self.merge(before, self.env)
            self.block(s.orelse)
            return
        if isinstance(s, ast.While):
            self.exprs_calls(s.test)
            before = dict(self.env)
            for _ in range(2):
                self.block(s.body)
                self.env = self.merge(before, self.env)
            self.block(s.orelse)
            return
        if isinstance(s, (ast.With, ast.AsyncWith)):
            for it in s.items:
                self.exprs_calls(it.context_expr)
                if it.optional_vars is not None:
                    self.store_target(it.optional_vars, s, it.context_expr)
            self.block(s.body)
            return
        if isinstance(s, ast.Try):
            before = dict(self.env)
            self.block(s.body)
            envs = [self.env]
            for h in s.handlers:
                self.env = dict(before)
                self.block(h.body)
                envs.append(self.env)
            e = envs[0]
            for x in envs[1:]:
                e = self.merge(e, x)
            self.env = e
            self.block(s.orelse)
            self.block(s.finalbody)
            return
        if isinstance(s, (ast.Raise, ast.Assert)):
            for c in ast.iter_child_nodes(s):
                if isinstance(c, ast.expr):
                    self.exprs_calls(c)
            return

    def bind_loop_target(self, t, it):
        if isinstance(t, ast.Name):
            self.env[t.id] = AliasVal([], it.buf | it.obj) if it else NONE
        elif isinstance(t, (ast.Tuple, ast.List)):
            for a in t.elts:
                self.bind_loop_target(a, it)

    @staticmethod
    def merge(a, b):
        out = {}
        for k in set(a) | set(b):
            out[k] = a.get(k, NONE).union(b.get(k, NONE))
        return out
