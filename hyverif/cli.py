"""./hv check <Cxx> [--tier quick|thorough] [--repo DIR] ; ./hv all ; ./hv selftest ; ./hv replay <path>"""
import argparse
import importlib
import json
import os
import sys
import traceback

from .core import Report, AnalysisError, DEFAULT_REPO, VERIF

PROPS = ["C%02d" % i for i in range(1, 21)]


def run_check(pid, tier, repo, seed, write=True):
    rep = Report(pid, tier, repo, seed)
    explanation = ""
    try:
        mod = importlib.import_module(f"hyverif.rules.{pid.lower()}")
        explanation = mod.run(rep) or getattr(mod, "EXPLANATION", "")
        from . import ckern, dims
        dims.property_rule(rep, pid)
        req = ckern.requested()
        if req:
            rid = f"R{pid[1:]}.p"
            rep.rule(rid, "the kernels computing this property hold every floating-point value in double (no float declaration, cast or literal)")
            for q, fn in req:
                sites = ckern.single_precision(fn)
                for line, what in sites:
                    rep.violation(rid, fn["file"], fn["name"], f"{q}: {what}", "single-precision value in a kernel whose data are float64", line=line)
                if not sites:
                    rep.proved(rid, fn["file"], fn["name"], f"{q}: double precision throughout", line=fn.get("line", 0))
    except AnalysisError as e:
        rep.error(str(e))
    except Exception as e:           # a traceback must never look like a violation
        tb = traceback.format_exc().strip().splitlines()
        rep.error(f"internal error: {type(e).__name__}: {e} @ {tb[-3].strip() if len(tb) > 2 else ''}")
        if os.environ.get("HV_DEBUG"):
            traceback.print_exc()
    return rep.finish(explanation or f"static analysis of {pid}", write=write)


def main(argv=None):
    ap = argparse.ArgumentParser(prog="hv")
    sub = ap.add_subparsers(dest="cmd", required=True)
    c = sub.add_parser("check")
    c.add_argument("pid")
    c.add_argument("--tier", default=os.environ.get("VERIF_TIER", "quick"))
    c.add_argument("--repo", default=os.environ.get("HV_REPO", DEFAULT_REPO))
    c.add_argument("--no-write", action="store_true")
    a = sub.add_parser("all")
    a.add_argument("--tier", default="quick")
    a.add_argument("--repo", default=os.environ.get("HV_REPO", DEFAULT_REPO))
    a.add_argument("--no-write", action="store_true")
    s = sub.add_parser("selftest")
    s.add_argument("pids", nargs="*")
    s.add_argument("--jobs", type=int, default=16)
    r = sub.add_parser("replay")
    r.add_argument("path")
    args = ap.parse_args(argv)
    seed = int(os.environ.get("VERIF_SEED", "0") or 0)
    if args.cmd == "check":
        tier = args.tier if args.tier in ("quick", "thorough") else "quick"
        code = run_check(args.pid.upper(), tier, os.path.abspath(args.repo), seed, write=not args.no_write)
        if code == 0 and tier == "thorough" and not args.no_write:
            from . import selftest
            code = selftest.run([args.pid.upper()], jobs=16, repo=os.path.abspath(args.repo), attach=True)
        return code
    if args.cmd == "all":
        worst = 0
        for pid in PROPS:
            if not os.path.exists(os.path.join(VERIF, "hyverif", "rules", pid.lower() + ".py")):
                continue
            worst = max(worst, run_check(pid, args.tier, os.path.abspath(args.repo), seed, write=not args.no_write))
        return worst
    if args.cmd == "selftest":
        from . import selftest
        return selftest.run([p.upper() for p in args.pids] or None, jobs=args.jobs)
    if args.cmd == "replay":
        with open(args.path) as f:
            d = json.load(f)
        print(json.dumps(d, indent=1))
        return run_check(d["property"], "quick", d.get("repo", DEFAULT_REPO), seed, write=False)
    return 2


if __name__ == "__main__":
    sys.exit(main())
