"""Semantics-preserving normalisation of Python modules (ast -> ast), applied by pyfront.Mod before any rule
reads a function, so that extracting or inlining a small helper does not change what the rules see.

  P1  calls of small same-module helpers (functions, methods through self, static helpers through the class) are
      inlined: parameters bound by assignment (or substituted when the argument is a plain name / constant),
      locals renamed, early returns turned into if/else on a result variable; single-expression helpers are
      substituted in place
  P3  tuple assignments without cross-dependence are split (`a, b = x, y`; `n, m = v.shape`)

A helper is inlined only when it is short, not recursive, has no decorators other than staticmethod, no nested
definitions, no yield / global / nonlocal, and no return inside a loop, try or with block.  Everything else is left as written."""
import ast
import copy

MAX_STMTS = 30
# helpers whose contract is verified by a rule of its own and used as a summary at the call sites: never inlined
KEEP = {"__nonulldata", "__check_ensemble_data"}


def _count(node):
    return sum(1 for n in ast.walk(node) if isinstance(n, ast.stmt))


def _simple_arg(e):
    if isinstance(e, (ast.Name, ast.Constant)):
        return True
    if isinstance(e, ast.Attribute):
        return _simple_arg(e.value)
    if isinstance(e, ast.UnaryOp) and isinstance(e.operand, ast.Constant):
        return True
    return False


def _names_stored(node):
    out = set()
    for n in ast.walk(node):
        if isinstance(n, ast.Name) and isinstance(n.ctx, (ast.Store, ast.Del)):
            out.add(n.id)
        elif isinstance(n, ast.arg):
            out.add(n.arg)
    return out


def _names_loaded(node):
    return {n.id for n in ast.walk(node) if isinstance(n, ast.Name) and isinstance(n.ctx, ast.Load)}


class _Rename(ast.NodeTransformer):
    def __init__(self, mapping, subst):
        self.mapping, self.subst = mapping, subst

    def visit_Name(self, n):
        if n.id in self.subst and isinstance(n.ctx, ast.Load):
            return copy.deepcopy(self.subst[n.id])
        if n.id in self.mapping:
            return ast.copy_location(ast.Name(id=self.mapping[n.id], ctx=n.ctx), n)
        return n


def eligible(f):
    if not isinstance(f, ast.FunctionDef):
        return False
    # only private helpers: public functions are API that the rules (and the properties) name
    if not f.name.startswith("_") or (f.name.startswith("__") and f.name.endswith("__")) or f.name in KEEP:
        return False
    for d in f.decorator_list:
        if not (isinstance(d, ast.Name) and d.id == "staticmethod"):
            return False
    if f.args.vararg or f.args.kwarg or f.args.kwonlyargs or f.args.posonlyargs:
        return False
    if _count(f) - 1 > MAX_STMTS:
        return False
    for n in ast.walk(f):
        if n is not f and isinstance(n, (ast.FunctionDef, ast.ClassDef, ast.Lambda, ast.AsyncFunctionDef)):
            return False
        if isinstance(n, (ast.Yield, ast.YieldFrom, ast.Global, ast.Nonlocal, ast.Await)):
            return False
    # no return inside loops / try / with
    def bad(stmts, inside):
        for s in stmts:
            if isinstance(s, ast.Return) and inside:
                return True
            if isinstance(s, (ast.For, ast.While, ast.Try, ast.With)):
                for fld in ("body", "orelse", "finalbody"):
                    if bad(getattr(s, fld, []) or [], True):
                        return True
                for h in getattr(s, "handlers", []) or []:
                    if bad(h.body, True):
                        return True
            elif isinstance(s, ast.If):
                if bad(s.body, inside) or bad(s.orelse, inside):
                    return True
        return False
    return not bad(f.body, False)


def _body_wo_doc(f):
    b = list(f.body)
    if b and isinstance(b[0], ast.Expr) and isinstance(b[0].value, ast.Constant) and isinstance(b[0].value.value, str):
        b = b[1:]
    return b


def _elim_returns(stmts, retname):
    out = []
    for i, s in enumerate(stmts):
        if isinstance(s, ast.Return):
            v = s.value if s.value is not None else ast.Constant(value=None)
            out.append(ast.copy_location(ast.Assign(targets=[ast.Name(id=retname, ctx=ast.Store())], value=v), s))
            return out
        if isinstance(s, ast.If) and any(isinstance(n, ast.Return) for n in ast.walk(s)):
            rest = stmts[i + 1:]
            t = _elim_returns(copy.deepcopy(s.body) + copy.deepcopy(rest), retname)
            e = _elim_returns(copy.deepcopy(s.orelse) + copy.deepcopy(rest), retname)
            out.append(ast.copy_location(ast.If(test=s.test, body=t or [ast.Pass()], orelse=e), s))
            return out
        out.append(s)
    # falls off the end: returns None
    out.append(ast.Assign(targets=[ast.Name(id=retname, ctx=ast.Store())], value=ast.Constant(value=None)))
    return out


class Inliner:
    def __init__(self, tree):
        self.tree = tree
        self.funcs = {}          # name -> FunctionDef (module level)
        self.methods = {}        # (class, name) -> FunctionDef
        for n in self._tops(tree.body):
            if isinstance(n, ast.FunctionDef):
                self.funcs[n.name] = n
            elif isinstance(n, ast.ClassDef):
                for m in n.body:
                    if isinstance(m, ast.FunctionDef):
                        # property getter/setter pairs share a name: never inlined
                        if (n.name, m.name) in self.methods:
                            self.methods[(n.name, m.name)] = None
                        else:
                            self.methods[(n.name, m.name)] = m
        self.counter = 0
        self.log = []
        self.bases = {}
        for n in self._tops(tree.body):
            if isinstance(n, ast.ClassDef):
                self.bases[n.name] = [b.id for b in n.bases if isinstance(b, ast.Name)]

    def _subclasses(self, cls):
        out, todo = set(), [cls]
        while todo:
            c = todo.pop()
            for k, bs in self.bases.items():
                if c in bs and k not in out:
                    out.add(k)
                    todo.append(k)
        return out

    def _method(self, cls, name):
        """method `name` as seen from an instance of cls: own or inherited (within the module), None when a subclass overrides it"""
        for sub in self._subclasses(cls):
            if (sub, name) in self.methods:
                return None
        c, seen = cls, set()
        todo = [cls]
        while todo:
            c = todo.pop(0)
            if c in seen:
                continue
            seen.add(c)
            if (c, name) in self.methods:
                return self.methods[(c, name)]
            todo += self.bases.get(c, [])
        return None

    def _tops(self, body):
        for n in body:
            if isinstance(n, (ast.If, ast.Try)):
                for fld in ("body", "orelse", "finalbody"):
                    yield from self._tops(getattr(n, fld, []) or [])
            else:
                yield n

    # -- resolution -------------------------------------------------------------------------------------
    def resolve(self, call, cls):
        """-> (FunctionDef, has_self) for a call of an eligible helper, else None"""
        f = call.func
        if any(isinstance(a, ast.Starred) for a in call.args) or any(k.arg is None for k in call.keywords):
            return None
        if isinstance(f, ast.Name):
            name = f.id
            fd = self.funcs.get(name)
            if fd is None and cls is not None and name.startswith("__") and not name.endswith("__"):
                fd = self.funcs.get(name)
            if fd is not None and eligible(fd):
                return fd, False
            return None
        if isinstance(f, ast.Attribute) and isinstance(f.value, ast.Name) and cls is not None:
            if f.value.id == "self":
                fd = self._method(cls, f.attr)
                if fd is not None and eligible(fd):
                    static = any(isinstance(d, ast.Name) and d.id == "staticmethod" for d in fd.decorator_list)
                    return fd, not static
            if f.value.id == cls:
                fd = self.methods.get((cls, f.attr))
                if fd is not None and eligible(fd) and any(isinstance(d, ast.Name) and d.id == "staticmethod" for d in fd.decorator_list):
                    return fd, False
        return None

    # -- expansion --------------------------------------------------------------------------------------
    def bind(self, fd, has_self, call, tag):
        params = [a.arg for a in fd.args.args]
        if has_self:
            params = params[1:]
        defaults = fd.args.defaults
        nd = len(defaults)
        given = {}
        if len(call.args) > len(params):
            return None
        for p, a in zip(params, call.args):
            given[p] = a
        for k in call.keywords:
            if k.arg not in params or k.arg in given:
                return None
            given[k.arg] = k.value
        for i, p in enumerate(params):
            if p not in given:
                j = i - (len(params) - nd)
                if j < 0:
                    return None
                given[p] = copy.deepcopy(defaults[j])
        stored = _names_stored(ast.Module(body=_body_wo_doc(fd), type_ignores=[])) - set(a.arg for a in fd.args.args)
        stored_all = set()
        for s in _body_wo_doc(fd):
            stored_all |= _names_stored(s)
        pre, subst, mapping = [], {}, {}
        for p in params:
            a = given[p]
            if _simple_arg(a) and p not in stored_all:
                subst[p] = a
            else:
                new = tag + p
                mapping[p] = new
                pre.append(ast.Assign(targets=[ast.Name(id=new, ctx=ast.Store())], value=copy.deepcopy(a)))
        for n in stored_all:
            if n not in mapping and n not in params:
                mapping[n] = tag + n
        # names substituted by caller expressions must not be shadowed by renamed callee locals: they are distinct by tag
        return pre, subst, mapping

    def expand_expr(self, fd, has_self, call):
        """single `return <expr>` helper -> expression, or None"""
        body = _body_wo_doc(fd)
        if len(body) != 1 or not isinstance(body[0], ast.Return) or body[0].value is None:
            return None
        b = self.bind(fd, has_self, call, "")
        if b is None:
            return None
        pre, subst, mapping = b
        if pre:
            # arguments that are not plain names: substitute anyway when the parameter is read at most once
            expr = body[0].value
            for st in pre:
                p = [k for k, v in mapping.items() if v == st.targets[0].id][0]
                uses = sum(1 for n in ast.walk(expr) if isinstance(n, ast.Name) and n.id == p)
                if uses > 1:
                    return None
                subst[p] = st.value
                mapping.pop(p)
        e = _Rename(mapping, subst).visit(copy.deepcopy(body[0].value))
        return e

    def expand_stmts(self, fd, has_self, call):
        self.counter += 1
        tag = f"{fd.name.lstrip('_')}_{self.counter}__"
        b = self.bind(fd, has_self, call, tag)
        if b is None:
            return None
        pre, subst, mapping = b
        ret = tag + "ret"
        body = copy.deepcopy(_body_wo_doc(fd))
        has_value = any(isinstance(n, ast.Return) and n.value is not None for s in body for n in ast.walk(s))
        if any(isinstance(n, ast.Return) for s in body for n in ast.walk(s)) or True:
            body = _elim_returns(body, ret)
        rn = _Rename(mapping, subst)
        body = [rn.visit(s) for s in body]
        return pre + body, ret, has_value

    # -- driver -----------------------------------------------------------------------------------------
    def run(self):
        for n in self._tops(self.tree.body):
            if isinstance(n, ast.FunctionDef):
                self.do_function(n, None, ())
            elif isinstance(n, ast.ClassDef):
                for m in n.body:
                    if isinstance(m, ast.FunctionDef):
                        self.do_function(m, n.name, ())
        ast.fix_missing_locations(self.tree)
        return self.tree

    def do_function(self, f, cls, stack):
        if getattr(f, "_hv_inlined", False):
            return
        f._hv_inlined = True
        f.body = self.do_block(f.body, cls, stack + (f,))

    def _prepare_callee(self, fd, cls_of_callee, stack):
        if fd in stack:
            return False
        self.do_function(fd, cls_of_callee, stack)
        return eligible(fd)

    def do_block(self, stmts, cls, stack):
        out = []
        for s in stmts:
            for fld in ("body", "orelse", "finalbody"):
                if hasattr(s, fld) and isinstance(getattr(s, fld), list) and not isinstance(s, (ast.FunctionDef, ast.ClassDef)):
                    setattr(s, fld, self.do_block(getattr(s, fld), cls, stack))
            if isinstance(s, ast.Try):
                for h in s.handlers:
                    h.body = self.do_block(h.body, cls, stack)
            if isinstance(s, (ast.FunctionDef, ast.ClassDef)):
                out.append(s)
                continue
            out += self.do_stmt(s, cls, stack)
        return out

    def _calls_in(self, s):
        """helper calls in the expressions evaluated by statement s itself (not its nested blocks), outermost last"""
        exprs = []
        if isinstance(s, (ast.Assign, ast.AugAssign, ast.AnnAssign, ast.Return, ast.Expr)):
            if getattr(s, "value", None) is not None:
                exprs.append(s.value)
        elif isinstance(s, (ast.If, ast.While)):
            exprs.append(s.test)
        elif isinstance(s, ast.For):
            exprs.append(s.iter)
        elif isinstance(s, ast.Raise) and s.exc is not None:
            exprs.append(s.exc)
        elif isinstance(s, ast.Assert):
            exprs.append(s.test)
        calls = []
        for e in exprs:
            for n in ast.walk(e):
                if isinstance(n, ast.Call):
                    calls.append(n)
        return calls

    def do_stmt(self, s, cls, stack):
        pre_all = []
        skip = set()
        guard = 0
        while guard < 20:
            guard += 1
            found = None
            for c in self._calls_in(s):
                if id(c) in skip:
                    continue
                r = self.resolve(c, cls)
                if r is None:
                    continue
                fd, has_self = r
                ccls = cls if isinstance(c.func, ast.Attribute) else None
                if not self._prepare_callee(fd, ccls, stack):
                    skip.add(id(c))
                    continue
                found = (c, fd, has_self)
                break
            if found is None:
                break
            c, fd, has_self = found
            self.log.append((stack[-1].name if stack else "?", fd.name))
            e = self.expand_expr(fd, has_self, c)
            if e is not None:
                s = _Replace(c, e).visit(s)
                continue
            if isinstance(s, ast.While) or self._in_lazy(s, c):
                skip.add(id(c))     # evaluated repeatedly / conditionally: a statement helper cannot be hoisted
                continue
            x = self.expand_stmts(fd, has_self, c)
            if x is None:
                skip.add(id(c))
                continue
            body, ret, has_value = x
            is_stmt = isinstance(s, ast.Expr) and s.value is c
            if is_stmt:
                body = _drop_ret(body, ret)
            for b in body:
                for n in ast.walk(b):
                    n.lineno = getattr(s, "lineno", 0)
                    n.col_offset = getattr(s, "col_offset", 0)
                    n.end_lineno = getattr(s, "end_lineno", n.lineno)
                    n.end_col_offset = getattr(s, "end_col_offset", 0)
            pre_all += body
            if is_stmt:
                s = None
                break
            s = _Replace(c, ast.Name(id=ret, ctx=ast.Load())).visit(s)
        res = pre_all + ([s] if s is not None else [])
        out = []
        for st in res:
            out += split_tuple_assign(st)
        return out

    def _in_lazy(self, s, call):
        for n in ast.walk(s):
            if isinstance(n, (ast.Lambda, ast.ListComp, ast.SetComp, ast.DictComp, ast.GeneratorExp, ast.IfExp, ast.BoolOp)):
                if any(m is call for m in ast.walk(n)):
                    return True
        if isinstance(s, ast.If) and getattr(s, "_hv_elif", False):
            return True
        return False


def _drop_ret(body, ret):
    out = []
    for b in body:
        if isinstance(b, ast.Assign) and len(b.targets) == 1 and isinstance(b.targets[0], ast.Name) and b.targets[0].id == ret \
                and isinstance(b.value, ast.Constant):
            continue
        for fld in ("body", "orelse"):
            if hasattr(b, fld) and isinstance(getattr(b, fld), list):
                setattr(b, fld, _drop_ret(getattr(b, fld), ret) or ([ast.Pass()] if fld == "body" else []))
        out.append(b)
    return out


class _Replace(ast.NodeTransformer):
    def __init__(self, old, new):
        self.old, self.new = old, new

    def visit(self, node):
        if node is self.old:
            return ast.copy_location(self.new, node)
        return super().visit(node)


def split_tuple_assign(s):
    if isinstance(s, ast.Assign) and len(s.targets) == 1 and isinstance(s.targets[0], (ast.Tuple, ast.List)):
        t = s.targets[0]
        if all(isinstance(x, ast.Name) for x in t.elts):
            names = {x.id for x in t.elts}
            v = s.value
            if isinstance(v, (ast.Tuple, ast.List)) and len(v.elts) == len(t.elts) and not any(isinstance(x, ast.Starred) for x in v.elts):
                # sequential assignment is equivalent when no target is read by a LATER value
                if not any(t.elts[i].id in _names_loaded(v.elts[j]) for i in range(len(t.elts)) for j in range(i + 1, len(t.elts))):
                    return [ast.copy_location(ast.Assign(targets=[ast.copy_location(ast.Name(id=x.id, ctx=ast.Store()), s)], value=e), s)
                            for x, e in zip(t.elts, v.elts)]
            if isinstance(v, ast.Attribute) and v.attr == "shape" and _simple_arg(v.value) and not (names & _names_loaded(v)):
                out = []
                for i, x in enumerate(t.elts):
                    sub = ast.Subscript(value=copy.deepcopy(v), slice=ast.Constant(value=i), ctx=ast.Load())
                    out.append(ast.copy_location(ast.Assign(targets=[ast.copy_location(ast.Name(id=x.id, ctx=ast.Store()), s)], value=sub), s))
                for o in out:
                    ast.fix_missing_locations(o)
                return out
            if isinstance(v, ast.Name) and v.id not in names and v.id.endswith("__ret"):
                # result tuple of an inlined helper whose last assignment built a tuple: resolved by the caller below
                return [s]
    return [s]


def _fold_ret_tuples(body):
    """`r = (x, y)` directly followed (same block) by `a, b = r` -> `a = x; b = y` (r being an inliner result)"""
    out = []
    i = 0
    while i < len(body):
        s = body[i]
        for fld in ("body", "orelse", "finalbody"):
            if hasattr(s, fld) and isinstance(getattr(s, fld), list) and not isinstance(s, (ast.FunctionDef, ast.ClassDef)):
                setattr(s, fld, _fold_ret_tuples(getattr(s, fld)))
        if i + 1 < len(body) and isinstance(s, ast.Assign) and len(s.targets) == 1 and isinstance(s.targets[0], ast.Name) \
                and s.targets[0].id.endswith("__ret") and isinstance(s.value, ast.Tuple):
            nx = body[i + 1]
            if isinstance(nx, ast.Assign) and len(nx.targets) == 1 and isinstance(nx.targets[0], ast.Tuple) and \
                    isinstance(nx.value, ast.Name) and nx.value.id == s.targets[0].id and len(nx.targets[0].elts) == len(s.value.elts):
                fused = ast.copy_location(ast.Assign(targets=[nx.targets[0]], value=s.value), nx)
                out += split_tuple_assign(fused)
                i += 2
                continue
            if isinstance(nx, ast.Return) and isinstance(nx.value, ast.Name) and nx.value.id == s.targets[0].id:
                out.append(ast.copy_location(ast.Return(value=s.value), nx))
                i += 2
                continue
        if i + 1 < len(body) and isinstance(s, ast.Assign) and len(s.targets) == 1 and isinstance(s.targets[0], ast.Name) \
                and s.targets[0].id.endswith("__ret"):
            nx = body[i + 1]
            # r = e ; x = r  ->  x = e      /   r = e ; return r -> return e
            if isinstance(nx, ast.Assign) and isinstance(nx.value, ast.Name) and nx.value.id == s.targets[0].id:
                out.append(ast.copy_location(ast.Assign(targets=nx.targets, value=s.value), nx))
                i += 2
                continue
            if isinstance(nx, ast.Return) and isinstance(nx.value, ast.Name) and nx.value.id == s.targets[0].id:
                out.append(ast.copy_location(ast.Return(value=s.value), nx))
                i += 2
                continue
        out.append(s)
        i += 1
    return out


def normalise(tree, keep=()):
    inl = Inliner(tree)
    inl.keep = set(keep)
    inl.run()
    tree._hv_inlined = inl.log
    for n in ast.walk(tree):
        if isinstance(n, ast.FunctionDef):
            n.body = _fold_ret_tuples(n.body)
    ast.fix_missing_locations(tree)
    return tree
