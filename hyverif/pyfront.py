"""Python front end (engine E5): module loading, name resolution, function lookup, simple
statement utilities shared by the Python-side rules.  Pure `ast`; nothing is imported
from the analysed repository."""
import ast
import os

from .core import AnalysisError

PKG = ("src", "hydrodiy")


class Mod:
    def __init__(self, repo, rel, normalise=True):
        self.rel = rel
        self.path = os.path.join(repo, *PKG, rel)
        if not os.path.exists(self.path):
            raise AnalysisError(f"anchor file vanished: {self.path}")
        self.src = open(self.path, encoding="utf-8").read()
        try:
            self.tree = ast.parse(self.src)
        except SyntaxError as e:
            raise AnalysisError(f"{rel}: syntax error: {e}")
        self.raw = self.tree
        if normalise:
            from . import pynorm
            self.raw = ast.parse(self.src)
            self.tree = pynorm.normalise(self.tree)
        for n in ast.walk(self.tree):
            for c in ast.iter_child_nodes(n):
                c._parent = n
        self.funcs = {}      # qualified name -> FunctionDef   ("f", "Class.m")
        self.classes = {}
        self.imports = {}    # local alias -> dotted target
        for n in self.tree.body:
            self._top(n)

    def _top(self, n):
        if isinstance(n, ast.FunctionDef):
            self.funcs[n.name] = n
        elif isinstance(n, ast.ClassDef):
            self.classes[n.name] = n
            for m in n.body:
                if isinstance(m, ast.FunctionDef):
                    q = f"{n.name}.{m.name}"
                    # property setter / getter share a name: keep both
                    if q in self.funcs:
                        decos = [ast.unparse(d) for d in m.decorator_list]
                        if any(d.endswith(".setter") for d in decos):
                            q += ".setter"
                    self.funcs[q] = m
        elif isinstance(n, ast.Import):
            for a in n.names:
                self.imports[a.asname or a.name.split(".")[0]] = a.name
        elif isinstance(n, ast.ImportFrom):
            for a in n.names:
                self.imports[a.asname or a.name] = f"{n.module}.{a.name}"
        elif isinstance(n, (ast.If, ast.Try)):
            for b in ast.iter_child_nodes(n):
                if isinstance(b, ast.stmt):
                    self._top(b)

    def func(self, qname):
        f = self.funcs.get(qname)
        if f is None:
            raise AnalysisError(f"{self.rel}: function `{qname}` not found (anchor vanished)")
        return f

    def klass(self, name):
        c = self.classes.get(name)
        if c is None:
            raise AnalysisError(f"{self.rel}: class `{name}` not found (anchor vanished)")
        return c

    def seg(self, node):
        return ast.get_source_segment(self.src, node) or ast.unparse(node)


def dotted(e):
    """a.b.c -> 'a.b.c' ; None for anything else"""
    parts = []
    while isinstance(e, ast.Attribute):
        parts.append(e.attr)
        e = e.value
    if isinstance(e, ast.Name):
        parts.append(e.id)
        return ".".join(reversed(parts))
    return None


def enclosing(node, kinds):
    n = getattr(node, "_parent", None)
    while n is not None and not isinstance(n, kinds):
        n = getattr(n, "_parent", None)
    return n


def enclosing_stmt_in(node, body_owner):
    """the statement of `body_owner`'s direct body that contains node"""
    n = node
    while getattr(n, "_parent", None) is not None and n._parent is not body_owner:
        n = n._parent
    return n


def qualname(func):
    p = getattr(func, "_parent", None)
    if isinstance(p, ast.ClassDef):
        return f"{p.name}.{func.name}"
    return func.name


def terminates(stmts):
    """does this statement list always leave the enclosing block (raise / return / continue / break)?"""
    for s in stmts:
        if isinstance(s, (ast.Raise, ast.Return, ast.Continue, ast.Break)):
            return True
        if isinstance(s, ast.If) and s.orelse and terminates(s.body) and terminates(s.orelse):
            return True
    return False


def raises(stmts):
    for s in stmts:
        if isinstance(s, ast.Raise):
            return True
        if isinstance(s, ast.If) and s.orelse and raises(s.body) and raises(s.orelse):
            return True
    return False


def const_value(e):
    if isinstance(e, ast.Constant):
        return e.value
    if isinstance(e, ast.UnaryOp) and isinstance(e.op, ast.USub) and isinstance(e.operand, ast.Constant) \
            and isinstance(e.operand.value, (int, float)):
        return -e.operand.value
    return None


def walk_no_nested(node):
    """ast.walk that does not enter nested function / class / lambda definitions"""
    todo = [node]
    while todo:
        n = todo.pop()
        yield n
        for c in ast.iter_child_nodes(n):
            if isinstance(c, (ast.FunctionDef, ast.AsyncFunctionDef, ast.ClassDef, ast.Lambda)):
                continue
            todo.append(c)
