"""Python front end (engine E5): module loading, name resolution, function lookup, simple
statement utilities shared by the Python-side rules.  Pure `ast`; nothing is imported
from the analysed repository."""
import ast
import os

from .core import AnalysisError

PKG = ("src", "hydrodiy")


def _const_value(v):
    if isinstance(v, ast.Constant) and isinstance(v.value, str):
        return True
    if isinstance(v, (ast.List, ast.Tuple)) and v.elts and all(isinstance(x, ast.Constant) and isinstance(x.value, str) for x in v.elts):
        return True
    if isinstance(v, ast.Call) and isinstance(v.func, ast.Attribute) and isinstance(v.func.value, ast.Name) and v.func.value.id == "re" \
            and v.func.attr == "compile" and len(v.args) == 1 and not v.keywords and isinstance(v.args[0], ast.Constant):
        return True
    return False


class Mod:
    def __init__(self, repo, rel, normalise=True):
        self.rel = rel
        self.path = os.path.join(repo, *PKG, rel)
        if not os.path.exists(self.path):
            raise AnalysisError(f"anchor file vanished: {self.path}")
        self.src = open(self.path, encoding="utf-8").read()
        try:
            self.tree = ast.parse(self.src)
        except SyntaxError as e:
            raise AnalysisError(f"{rel}: syntax error: {e}")
        self.raw = self.tree
        if normalise:
            from . import pynorm
            self.raw = ast.parse(self.src)
            self.tree = pynorm.normalise(self.tree)
        for n in ast.walk(self.tree):
            for c in ast.iter_child_nodes(n):
                c._parent = n
        self.funcs = {}      # qualified name -> FunctionDef   ("f", "Class.m")
        self.classes = {}
        self.imports = {}    # local alias -> dotted target
        for n in self.tree.body:
            self._top(n)
        # module-level names bound once to a string, a list / tuple of strings or a compiled regular expression: functions see them
        # as their value (pq.PEval.run), so hoisting a literal into a named constant does not change what a rule reads
        self.consts = {}
        seen = {}
        for n in ast.walk(self.tree):
            if isinstance(n, (ast.Assign, ast.AugAssign, ast.AnnAssign)):
                for t in (n.targets if isinstance(n, ast.Assign) else [n.target]):
                    for x in ast.walk(t):
                        if isinstance(x, ast.Name):
                            seen[x.id] = seen.get(x.id, 0) + 1
            elif isinstance(n, ast.Global):
                for nm in n.names:
                    seen[nm] = seen.get(nm, 0) + 2
        for n in self.tree.body:
            if isinstance(n, ast.Assign) and len(n.targets) == 1 and isinstance(n.targets[0], ast.Name) and seen.get(n.targets[0].id) == 1 \
                    and _const_value(n.value):
                self.consts[n.targets[0].id] = n.value
        for f in self.funcs.values():
            f._modconsts = self.consts

    def _top(self, n):
        if isinstance(n, ast.FunctionDef):
            self.funcs[n.name] = n
        elif isinstance(n, ast.ClassDef):
            self.classes[n.name] = n
            for m in n.body:
                if isinstance(m, ast.FunctionDef):
                    q = f"{n.name}.{m.name}"
                    # property setter / getter share a name: keep both
                    if q in self.funcs:
                        decos = [ast.unparse(d) for d in m.decorator_list]
                        if any(d.endswith(".setter") for d in decos):
                            q += ".setter"
                    self.funcs[q] = m
        elif isinstance(n, ast.Import):
            for a in n.names:
                self.imports[a.asname or a.name.split(".")[0]] = a.name
        elif isinstance(n, ast.ImportFrom):
            for a in n.names:
                self.imports[a.asname or a.name] = f"{n.module}.{a.name}"
        elif isinstance(n, (ast.If, ast.Try)):
            for b in ast.iter_child_nodes(n):
                if isinstance(b, ast.stmt):
                    self._top(b)

    def func(self, qname):
        f = self.funcs.get(qname)
        if f is None:
            raise AnalysisError(f"{self.rel}: function `{qname}` not found (anchor vanished)")
        return f

    def klass(self, name):
        c = self.classes.get(name)
        if c is None:
            raise AnalysisError(f"{self.rel}: class `{name}` not found (anchor vanished)")
        return c

    def seg(self, node):
        return ast.get_source_segment(self.src, node) or ast.unparse(node)


def dotted(e):
    """a.b.c -> 'a.b.c' ; None for anything else"""
    parts = []
    while isinstance(e, ast.Attribute):
        parts.append(e.attr)
        e = e.value
    if isinstance(e, ast.Name):
        parts.append(e.id)
        return ".".join(reversed(parts))
    return None


def enclosing(node, kinds):
    n = getattr(node, "_parent", None)
    while n is not None and not isinstance(n, kinds):
        n = getattr(n, "_parent", None)
    return n


def enclosing_stmt_in(node, body_owner):
    """the statement of `body_owner`'s direct body that contains node"""
    n = node
    while getattr(n, "_parent", None) is not None and n._parent is not body_owner:
        n = n._parent
    return n


def qualname(func):
    p = getattr(func, "_parent", None)
    if isinstance(p, ast.ClassDef):
        return f"{p.name}.{func.name}"
    return func.name


def terminates(stmts):
    """does this statement list always leave the enclosing block (raise / return / continue / break)?"""
    for s in stmts:
        if isinstance(s, (ast.Raise, ast.Return, ast.Continue, ast.Break)):
            return True
        if isinstance(s, ast.If) and s.orelse and terminates(s.body) and terminates(s.orelse):
            return True
    return False


def raises(stmts):
    for s in stmts:
        if isinstance(s, ast.Raise):
            return True
        if isinstance(s, ast.If) and s.orelse and raises(s.body) and raises(s.orelse):
            return True
    return False


def const_value(e):
    if isinstance(e, ast.Constant):
        return e.value
    if isinstance(e, ast.UnaryOp) and isinstance(e.op, ast.USub) and isinstance(e.operand, ast.Constant) \
            and isinstance(e.operand.value, (int, float)):
        return -e.operand.value
    return None


def walk_no_nested(node):
    """ast.walk that does not enter nested function / class / lambda definitions"""
    todo = [node]
    while todo:
        n = todo.pop()
        yield n
        for c in ast.iter_child_nodes(n):
            if isinstance(c, (ast.FunctionDef, ast.AsyncFunctionDef, ast.ClassDef, ast.Lambda)):
                continue
            todo.append(c)
