"""Semantics-preserving normalisation of kernel functions (clang JSON AST -> clang JSON AST).

The structural rules read functions after these rewrites, so that refactors which do not change what a
kernel computes do not change what the rules see:

  N1  switch -> if / else-if chain              (every group ends in break / return / continue, no fall-through)
  N2  while -> for                              (last statement of the body steps one scalar, no `continue`)
  N3  calls of helper functions are inlined     (non-recursive helpers that are not shim entry points; early
                                                returns are turned into if/else with a result variable)
  N3b `if (.. h(args) ..)` with a side-effect-free helper h and pure arguments -> `T v = h(args); if (.. v ..)`
  N4  scalar temporaries are forward-substituted (`t = e` with pure e replaces later reads of t while neither t
                                                nor an operand of e is assigned; pointer temporaries `p = &A[e]`
                                                likewise; dead pure definitions are dropped)
  N5  `x = c ? a : b` -> if / else

Every rewrite refuses (raises Unsupported or leaves the code alone) rather than guess.  The range analysis of
C05 runs on the code as written except for N1 (its abstract interpreter has no transfer function for switch)."""
import copy

from .cfront import strip

PURE_CALLS = {"fabs", "sqrt", "log", "exp", "pow", "floor", "ceil", "fmin", "fmax", "abs", "isnan", "isinf", "isfinite",
              "__builtin_isnan", "__isnan", "__isnanf", "__builtin_isinf_sign", "__builtin_fabs", "llabs", "labs",
              "sin", "cos", "tan", "sinh", "cosh", "tanh", "asinh", "log10", "log1p", "expm1", "fmod", "round",
              "__builtin_isfinite", "__builtin_inf", "__builtin_nan", "__builtin_huge_val"}
NO_EFFECT_CALLS = {"free", "printf", "fprintf", "puts"}


class Unsupported(Exception):
    pass


# ------------------------------------------------------------------------------------------------ node helpers
def kids(n):
    return [c for c in n.get("inner", []) if isinstance(c, dict) and c.get("kind")]


def walk(n):
    yield n
    for c in n.get("inner", []):
        if isinstance(c, dict) and c.get("kind"):
            yield from walk(c)


def mk(kind, inner=(), line=None, **kw):
    d = {"kind": kind, "inner": list(inner), "_line": line}
    d.update(kw)
    return d


def ref(name, qt="int", line=None):
    return mk("DeclRefExpr", [], line, referencedDecl={"name": name, "kind": "VarDecl", "type": {"qualType": qt}}, type={"qualType": qt})


def binop(op, a, b, qt="int", line=None):
    return mk("BinaryOperator", [a, b], line, opcode=op, type={"qualType": qt})


def intlit(v, line=None):
    return mk("IntegerLiteral", [], line, value=str(v), type={"qualType": "int"})


def compound(stmts, line=None):
    return mk("CompoundStmt", stmts, line)


def block_stmts(n):
    if n is None or not n.get("kind"):
        return []
    if n.get("kind") == "CompoundStmt":
        return [c for c in n.get("inner", []) if c.get("kind")]
    return [n]


def callee_name(call):
    c = strip(call["inner"][0])
    return c["referencedDecl"]["name"] if c.get("kind") == "DeclRefExpr" else None


def var_refs(n):
    """names of variables read or written in n (function names of calls excluded)"""
    out = set()
    for x in walk(n):
        if x.get("kind") == "DeclRefExpr" and x.get("referencedDecl", {}).get("kind") != "FunctionDecl":
            out.add(x["referencedDecl"]["name"])
    return out


def _target_base(t):
    """(kind, name) of an assignment target: ('var', x) | ('arr', A) | (None, None)"""
    t = strip(t)
    k = t.get("kind")
    if k == "DeclRefExpr":
        return "var", t["referencedDecl"]["name"]
    if k == "ArraySubscriptExpr":
        b = strip(t["inner"][0])
        while b.get("kind") in ("ArraySubscriptExpr", "ParenExpr", "ImplicitCastExpr", "CStyleCastExpr"):
            b = strip(b["inner"][0])
        if b.get("kind") == "DeclRefExpr":
            return "arr", b["referencedDecl"]["name"]
        if b.get("kind") == "BinaryOperator":
            for s in b["inner"]:
                s = strip(s)
                if s.get("kind") == "DeclRefExpr" and s.get("type", {}).get("qualType", "").rstrip().endswith("*"):
                    return "arr", s["referencedDecl"]["name"]
    if k == "UnaryOperator" and t.get("opcode") == "*":
        b = strip(t["inner"][0])
        while b.get("kind") in ("ParenExpr", "ImplicitCastExpr", "CStyleCastExpr"):
            b = strip(b["inner"][0])
        if b.get("kind") == "DeclRefExpr":
            return "arr", b["referencedDecl"]["name"]
        if b.get("kind") == "BinaryOperator":
            for s in b["inner"]:
                s = strip(s)
                if s.get("kind") == "DeclRefExpr":
                    return "arr", s["referencedDecl"]["name"]
    return None, None


def writes(n):
    """(scalars assigned, arrays stored or handed to a call that may store, unknown?) anywhere in n"""
    sc, ar, unk = set(), set(), False
    for x in walk(n):
        k = x.get("kind")
        if (k == "BinaryOperator" and x.get("opcode") == "=") or k == "CompoundAssignOperator" or \
                (k == "UnaryOperator" and x.get("opcode") in ("++", "--")):
            kind, name = _target_base(x["inner"][0])
            if kind == "var":
                sc.add(name)
            elif kind == "arr":
                ar.add(name)
            else:
                unk = True
        elif k == "VarDecl":
            if kids(x):
                sc.add(x.get("name"))
        elif k == "UnaryOperator" and x.get("opcode") == "&":
            kind, name = _target_base(x["inner"][0])
            if kind == "var":
                sc.add(name)          # address taken: may be written through the pointer
            elif kind == "arr":
                ar.add(name)
        elif k == "CallExpr":
            nm = callee_name(x)
            if nm in PURE_CALLS or nm in NO_EFFECT_CALLS:
                continue
            for a in x["inner"][1:]:
                for y in walk(a):
                    if y.get("kind") == "DeclRefExpr" and y.get("type", {}).get("qualType", "").rstrip().endswith(("*", "]")):
                        ar.add(y["referencedDecl"]["name"])
    return sc, ar, unk


def is_pure(e):
    for x in walk(e):
        k = x.get("kind")
        if k == "CallExpr" and callee_name(x) not in PURE_CALLS:
            return False
        if k == "CompoundAssignOperator" or (k == "BinaryOperator" and x.get("opcode") in ("=", ",")):
            return False
        if k == "UnaryOperator" and x.get("opcode") in ("++", "--"):
            return False
        if k in ("StmtExpr",):
            return False
    return True


def arrays_read(e):
    out = set()
    for x in walk(e):
        if x.get("kind") in ("ArraySubscriptExpr",) or (x.get("kind") == "UnaryOperator" and x.get("opcode") == "*"):
            kind, name = _target_base(x)
            if name:
                out.add(name)
    return out


def contains(n, kinds, stop=()):
    """does n contain a node of one of `kinds`, not looking inside nodes of kind in `stop`"""
    if n.get("kind") in kinds:
        return True
    if n.get("kind") in stop:
        return False
    return any(contains(c, kinds, stop) for c in kids(n))


# ------------------------------------------------------------------------------------------------ N1 switch
def _peel_labels(st):
    """CaseStmt/DefaultStmt nest: -> (list of case value nodes or 'default', first real statement or None)"""
    labels = []
    while st.get("kind") in ("CaseStmt", "DefaultStmt"):
        if st["kind"] == "DefaultStmt":
            labels.append("default")
            sub = kids(st)
            st = sub[0] if sub else {}
        else:
            sub = kids(st)
            labels.append(sub[0])
            st = sub[1] if len(sub) > 1 else {}
        if not st.get("kind"):
            return labels, None
    return labels, st


def desugar_switch(sw):
    inner = kids(sw)
    if len(inner) != 2 or inner[1].get("kind") != "CompoundStmt":
        raise Unsupported("switch without a compound body")
    cond, body = inner
    if not is_pure(cond):
        raise Unsupported("switch on an expression with side effects")
    groups = []
    cur = None
    for st in kids(body):
        if st.get("kind") in ("CaseStmt", "DefaultStmt"):
            labels, first = _peel_labels(st)
            if cur is not None and not cur["closed"] and cur["stmts"]:
                raise Unsupported("switch case falls through")
            if cur is not None and not cur["closed"] and not cur["stmts"]:
                cur["labels"] += labels           # case A: case B: (written as siblings)
            else:
                cur = {"labels": labels, "stmts": [], "closed": False}
                groups.append(cur)
            if first is not None:
                st = first
            else:
                continue
        if cur is None:
            raise Unsupported("statement before the first case label")
        if cur["closed"]:
            continue          # unreachable code after break
        if st.get("kind") == "BreakStmt":
            cur["closed"] = True
            continue
        cur["stmts"].append(st)
        if st.get("kind") in ("ReturnStmt", "ContinueStmt"):
            cur["closed"] = True
    for g in groups:
        for s in g["stmts"]:
            if contains(s, ("BreakStmt",), stop=("ForStmt", "WhileStmt", "DoStmt", "SwitchStmt")):
                raise Unsupported("break nested inside a switch case")
    for g in groups[:-1]:
        if not g["closed"]:
            raise Unsupported("switch case falls through")
    chain = None
    default = None
    tests = []
    for g in groups:
        if "default" in g["labels"]:
            default = g
    line = sw.get("_line")
    result = compound(default["stmts"], line) if default else None
    for g in reversed([g for g in groups if g is not default or len(g["labels"]) > 1]):
        vals = [l for l in g["labels"] if l != "default"]
        if not vals:
            continue
        if g is default:
            continue          # `case A: default:` -- the values are covered by the else branch
        test = None
        for v in vals:
            t = binop("==", copy.deepcopy(cond), copy.deepcopy(v), "int", line)
            test = t if test is None else binop("||", test, t, "int", line)
        node = mk("IfStmt", [test, compound(g["stmts"], line)] + ([result] if result is not None else []), line,
                  hasElse=result is not None)
        result = node
    if result is None:
        return compound([], line)
    return result


def n1_switch(n):
    """in place: every SwitchStmt below n replaced by its if-chain"""
    inner = n.get("inner")
    if not inner:
        return n
    for i, c in enumerate(inner):
        if isinstance(c, dict) and c.get("kind"):
            n1_switch(c)
            if c.get("kind") == "SwitchStmt":
                inner[i] = desugar_switch(c)
    return n


# ------------------------------------------------------------------------------------------------ N2 while -> for
def _step_of(st):
    """variable stepped by `v++ / v-- / ++v / v += c / v -= c / v = v + c`"""
    s = strip(st)
    k = s.get("kind")
    if k == "UnaryOperator" and s.get("opcode") in ("++", "--"):
        kind, name = _target_base(s["inner"][0])
        return name if kind == "var" else None
    if k == "CompoundAssignOperator" and s.get("opcode") in ("+=", "-="):
        kind, name = _target_base(s["inner"][0])
        return name if kind == "var" and is_pure(s["inner"][1]) and name not in var_refs(s["inner"][1]) else None
    if k == "BinaryOperator" and s.get("opcode") == "=":
        kind, name = _target_base(s["inner"][0])
        r = strip(s["inner"][1])
        if kind == "var" and r.get("kind") == "BinaryOperator" and r.get("opcode") in ("+", "-") and \
                strip(r["inner"][0]).get("kind") == "DeclRefExpr" and strip(r["inner"][0])["referencedDecl"]["name"] == name \
                and name not in var_refs(r["inner"][1]) and is_pure(r["inner"][1]):
            return name
    return None


def n2_while(n):
    inner = n.get("inner")
    if not inner:
        return n
    for i, c in enumerate(inner):
        if not (isinstance(c, dict) and c.get("kind")):
            continue
        n2_while(c)
        if c.get("kind") == "WhileStmt":
            cond, body = kids(c)[0], kids(c)[1] if len(kids(c)) > 1 else None
            if body is None:
                continue
            st = block_stmts(body)
            if not st:
                continue
            v = _step_of(st[-1])
            if v is None or v not in var_refs(cond):
                continue
            if any(contains(s, ("ContinueStmt",), stop=("ForStmt", "WhileStmt", "DoStmt")) for s in st[:-1]):
                continue
            if any(v in writes(s)[0] for s in st[:-1]):
                continue
            inner[i] = mk("ForStmt", [{}, {}, cond, st[-1], compound(st[:-1], body.get("_line"))], c.get("_line"), _from_while=True)
    return n


# ------------------------------------------------------------------------------------------------ N5 conditional assignment
def n5_ternary(n):
    inner = n.get("inner")
    if not inner:
        return n
    for i, c in enumerate(inner):
        if not (isinstance(c, dict) and c.get("kind")):
            continue
        n5_ternary(c)
        if n.get("kind") in ("CompoundStmt",) or (n.get("kind") in ("IfStmt",) and i > 0) or \
                (n.get("kind") in ("ForStmt",) and i == 4) or (n.get("kind") == "WhileStmt" and i == 1):
            s = c
            if s.get("kind") in ("BinaryOperator", "CompoundAssignOperator") and s.get("opcode") in ("=", "+=", "-=", "*=", "/="):
                r = s["inner"][1]
                rs = r
                while rs.get("kind") in ("ParenExpr", "ImplicitCastExpr"):
                    rs = rs["inner"][0]
                if rs.get("kind") == "ConditionalOperator" and is_pure(s["inner"][0]):
                    cnd, a, b = rs["inner"]
                    s1 = dict(s, inner=[copy.deepcopy(s["inner"][0]), a])
                    s2 = dict(s, inner=[copy.deepcopy(s["inner"][0]), b])
                    inner[i] = mk("IfStmt", [cnd, compound([s1], s.get("_line")), compound([s2], s.get("_line"))], s.get("_line"), hasElse=True)
    return n


# ------------------------------------------------------------------------------------------------ N6 post-increment in a statement
def n6_postinc(n):
    """`A[k++] = v;` -> `A[k] = v; k++;`  (k read nowhere else in the statement); same for k--"""
    inner = n.get("inner")
    if not inner:
        return n
    i = 0
    while i < len(inner):
        c = inner[i]
        if not (isinstance(c, dict) and c.get("kind")):
            i += 1
            continue
        n6_postinc(c)
        if n.get("kind") == "CompoundStmt" and c.get("kind") in ("BinaryOperator", "CompoundAssignOperator") and \
                c.get("opcode") in ("=", "+=", "-=", "*=", "/="):
            incs = [x for x in walk(c) if x.get("kind") == "UnaryOperator" and x.get("opcode") in ("++", "--") and x.get("isPostfix")
                    and strip(x["inner"][0]).get("kind") == "DeclRefExpr"]
            if len(incs) == 1:
                v = strip(incs[0]["inner"][0])["referencedDecl"]["name"]
                nrefs = sum(1 for x in walk(c) if x.get("kind") == "DeclRefExpr" and x["referencedDecl"]["name"] == v)
                if nrefs == 1:
                    inc = copy.deepcopy(incs[0])
                    _replace_node(c, incs[0], copy.deepcopy(incs[0]["inner"][0]))
                    inner.insert(i + 1, inc)
                    i += 1
        i += 1
    return n


def _replace_node(root, old, new):
    inner = root.get("inner")
    if not inner:
        return False
    for i, c in enumerate(inner):
        if c is old:
            inner[i] = new
            return True
        if isinstance(c, dict) and c.get("kind") and _replace_node(c, old, new):
            return True
    return False


def _wrap_bodies(n):
    """single-statement bodies of if / loops wrapped in compound statements (in place)"""
    for x in walk(n):
        _sub_blocks(x)


# ------------------------------------------------------------------------------------------------ N4 forward substitution
def _scalar_def(s):
    """`t = e;` or `T t = e;` -> (name, rhs node, 'assign' | 'decl')"""
    if s.get("kind") == "BinaryOperator" and s.get("opcode") == "=":
        kind, name = _target_base(s["inner"][0])
        if kind == "var" and strip(s["inner"][0]).get("kind") == "DeclRefExpr":
            return name, s["inner"][1], "assign"
    if s.get("kind") == "DeclStmt":
        ds = [d for d in kids(s) if d.get("kind") == "VarDecl"]
        if len(ds) == 1 and kids(ds[0]) and ds[0].get("init"):
            return ds[0]["name"], kids(ds[0])[0], "decl"
    return None


def _scalar_defs(s):
    """all definitions made by statement s: one for an assignment, one per initialised declarator of a declaration
    (a later declarator may not read an earlier one of the same statement for the simple treatment to be valid)"""
    d = _scalar_def(s)
    if d is not None:
        return [d]
    if s.get("kind") == "DeclStmt":
        ds = [x for x in kids(s) if x.get("kind") == "VarDecl"]
        names = {x["name"] for x in ds}
        out = []
        for x in ds:
            if kids(x) and x.get("init") and not (var_refs(kids(x)[0]) & names):
                out.append((x["name"], kids(x)[0], "decl"))
        return out
    return []


def _ptr_def(rhs):
    """rhs of a pointer temporary: &A[e] | A + e | A -> (A ref node, offset node or None)"""
    r = rhs
    while r.get("kind") in ("ParenExpr", "ImplicitCastExpr", "CStyleCastExpr"):
        r = r["inner"][0]
    if r.get("kind") == "UnaryOperator" and r.get("opcode") == "&":
        t = r["inner"][0]
        while t.get("kind") in ("ParenExpr", "ImplicitCastExpr"):
            t = t["inner"][0]
        if t.get("kind") == "ArraySubscriptExpr":
            b = t["inner"][0]
            bs = strip(b)
            if bs.get("kind") == "DeclRefExpr":
                return b, t["inner"][1]
    if r.get("kind") == "BinaryOperator" and r.get("opcode") == "+":
        a, b = r["inner"]
        if strip(a).get("kind") == "DeclRefExpr" and strip(a).get("type", {}).get("qualType", "").rstrip().endswith("*"):
            return a, b
    if r.get("kind") == "DeclRefExpr" and r.get("type", {}).get("qualType", "").rstrip().endswith(("*", "]")):
        return r, None
    return None


def _subst_scalar(n, name, rhs):
    """replace reads of `name` below n by a copy of rhs (in place); returns number of replacements"""
    cnt = 0
    inner = n.get("inner")
    if not inner:
        return 0
    for i, c in enumerate(inner):
        if not (isinstance(c, dict) and c.get("kind")):
            continue
        if c.get("kind") == "DeclRefExpr" and c["referencedDecl"]["name"] == name:
            inner[i] = mk("ParenExpr", [copy.deepcopy(rhs)], c.get("_line"), type=c.get("type"))
            cnt += 1
        else:
            cnt += _subst_scalar(c, name, rhs)
    return cnt


def _ptr_uses_ok(n, name):
    """every occurrence of pointer `name` below n is `name[k]` or `*name`"""
    ok = True

    def rec(x, parent, pidx):
        nonlocal ok
        if x.get("kind") == "DeclRefExpr" and x["referencedDecl"]["name"] == name:
            # climb through casts / parens
            p = parent
            chain = [x]
            while p is not None and p[0].get("kind") in ("ImplicitCastExpr", "ParenExpr"):
                chain.append(p[0])
                p = p[1]
            if p is None:
                ok = False
                return
            pn = p[0]
            if pn.get("kind") == "ArraySubscriptExpr" and pn["inner"][0] is chain[-1]:
                return
            if pn.get("kind") == "UnaryOperator" and pn.get("opcode") == "*":
                return
            ok = False
            return
        for i, c in enumerate(x.get("inner", [])):
            if isinstance(c, dict) and c.get("kind"):
                rec(c, (x, parent), i)
    rec(n, None, 0)
    return ok


def _subst_ptr(n, name, base, off):
    cnt = 0
    inner = n.get("inner")
    if not inner:
        return 0
    for i, c in enumerate(inner):
        if not (isinstance(c, dict) and c.get("kind")):
            continue
        k = c.get("kind")
        if k == "ArraySubscriptExpr" and strip(c["inner"][0]).get("kind") == "DeclRefExpr" and \
                strip(c["inner"][0])["referencedDecl"]["name"] == name:
            cnt += _subst_ptr(c["inner"][1], name, base, off) if c["inner"][1].get("inner") else 0
            idx = c["inner"][1] if off is None else binop("+", mk("ParenExpr", [copy.deepcopy(off)], c.get("_line")), c["inner"][1], "long long", c.get("_line"))
            inner[i] = dict(c, inner=[copy.deepcopy(base), idx])
            cnt += 1
        elif k == "UnaryOperator" and c.get("opcode") == "*" and strip(c["inner"][0]).get("kind") == "DeclRefExpr" and \
                strip(c["inner"][0])["referencedDecl"]["name"] == name:
            idx = intlit(0, c.get("_line")) if off is None else copy.deepcopy(off)
            inner[i] = mk("ArraySubscriptExpr", [copy.deepcopy(base), idx], c.get("_line"), type=c.get("type"))
            cnt += 1
        else:
            cnt += _subst_ptr(c, name, base, off)
    return cnt


_ONLY_BOOL = [False]


def _is_boolean(e):
    n = e
    while n.get("kind") in ("ParenExpr", "ImplicitCastExpr"):
        n = n["inner"][0]
    if n.get("kind") == "BinaryOperator" and n.get("opcode") in ("<", "<=", ">", ">=", "==", "!=", "&&", "||"):
        return True
    if n.get("kind") == "UnaryOperator" and n.get("opcode") == "!":
        return True
    return False


def _n4_block(stmts, locals_, ptr_locals):
    i = 0
    while i < len(stmts):
        s = stmts[i]
        # recurse first into nested blocks so that inner definitions are resolved with their own ranges
        for sub in _sub_blocks(s):
            _n4_block(sub, locals_, ptr_locals)
        for t, rhs, how in _scalar_defs(s):
            _n4_def(stmts, i, t, rhs, locals_, ptr_locals)
        i += 1


def _n4_def(stmts, i, t, rhs, locals_, ptr_locals):
    if True:
        isptr = t in ptr_locals
        if t not in locals_ and not isptr:
            return
        pd = _ptr_def(rhs) if isptr else None
        if isptr and pd is None:
            return
        if not is_pure(rhs) or t in var_refs(rhs):
            return
        if _ONLY_BOOL[0] and not isptr and not _is_boolean(rhs):
            return
        ops_s = var_refs(rhs)
        ops_a = arrays_read(rhs) if not isptr else set()
        j = i + 1
        while j < len(stmts):
            sj = stmts[j]
            wsc, war, unk = writes(sj)
            if t in wsc or unk:
                # `t = f(t)`-style redefinition: substitute into its right-hand side only when it is a plain top-level assignment
                dj = _scalar_def(sj)
                if dj is not None and dj[0] == t and not (wsc - {t}) & ops_s and not war & ops_a and not unk and not isptr:
                    holder = {"inner": [dj[1]]}
                    _subst_scalar(holder, t, rhs)
                    if sj.get("kind") == "BinaryOperator":
                        sj["inner"][1] = holder["inner"][0]
                break
            if (wsc & ops_s) or (war & ops_a):
                break
            if isptr:
                if not _ptr_uses_ok(sj, t):
                    break
                _subst_ptr({"inner": [sj]}, t, pd[0], pd[1]) if False else _subst_ptr_stmt(stmts, j, t, pd)
            else:
                holder = {"inner": [sj]}
                _subst_scalar(holder, t, rhs)
                stmts[j] = holder["inner"][0]
            j += 1


def _subst_ptr_stmt(stmts, j, t, pd):
    holder = {"inner": [stmts[j]]}
    _subst_ptr(holder, t, pd[0], pd[1])
    stmts[j] = holder["inner"][0]


def _sub_blocks(s):
    """statement lists nested directly in s (bodies of if / loops / compound); single statements are wrapped in place"""
    out = []
    k = s.get("kind")
    if k == "CompoundStmt":
        out.append(s["inner"])
    elif k == "IfStmt":
        for idx in range(1, len(s["inner"])):
            c = s["inner"][idx]
            if not c.get("kind"):
                continue
            if c.get("kind") != "CompoundStmt":
                c = compound([c], c.get("_line"))
                s["inner"][idx] = c
            out.append(c["inner"])
    elif k in ("ForStmt", "WhileStmt", "DoStmt"):
        bi = {"ForStmt": 4, "WhileStmt": 1, "DoStmt": 0}[k]
        if bi < len(s["inner"]):
            c = s["inner"][bi]
            if c.get("kind") and c.get("kind") != "CompoundStmt":
                c = compound([c], c.get("_line"))
                s["inner"][bi] = c
            if c.get("kind"):
                out.append(c["inner"])
    return out


def _drop_dead(body, locals_):
    """remove pure assignments to locals that are never read"""
    changed = True
    while changed:
        changed = False
        reads = {}
        for x in walk(body):
            pass
        # count reads: every DeclRefExpr occurrence that is not the direct target of a plain `=`
        targets = set()
        for x in walk(body):
            if x.get("kind") == "BinaryOperator" and x.get("opcode") == "=":
                t = x["inner"][0]
                while t.get("kind") in ("ParenExpr",):
                    t = t["inner"][0]
                if t.get("kind") == "DeclRefExpr":
                    targets.add(id(t))
        for x in walk(body):
            if x.get("kind") == "DeclRefExpr" and id(x) not in targets:
                reads[x["referencedDecl"]["name"]] = reads.get(x["referencedDecl"]["name"], 0) + 1
        dead = {n for n in locals_ if reads.get(n, 0) == 0}

        def prune(n):
            nonlocal changed
            inner = n.get("inner")
            if not inner:
                return
            keep = []
            for c in inner:
                if isinstance(c, dict) and c.get("kind") == "BinaryOperator" and c.get("opcode") == "=" and n.get("kind") == "CompoundStmt":
                    kind, name = _target_base(c["inner"][0])
                    if kind == "var" and name in dead and is_pure(c["inner"][1]) and strip(c["inner"][0]).get("kind") == "DeclRefExpr":
                        changed = True
                        continue
                if isinstance(c, dict) and c.get("kind") == "DeclStmt" and n.get("kind") == "CompoundStmt":
                    ds = [d for d in kids(c) if d.get("kind") == "VarDecl"]
                    if ds and all(d["name"] in dead and (not kids(d) or is_pure(kids(d)[0])) for d in ds) and any(kids(d) for d in ds):
                        for d in ds:
                            d["inner"] = []
                            d.pop("init", None)
                        changed = True
                if isinstance(c, dict):
                    prune(c)
                keep.append(c)
            n["inner"] = keep
        prune(body)


def local_vars(fn):
    params = {p["name"] for p in fn["params"]}
    sc, pt = set(), set()
    for x in walk(fn["body"]):
        if x.get("kind") == "VarDecl" and x.get("name") not in params:
            qt = x.get("type", {}).get("qualType", "")
            if qt.rstrip().endswith("*"):
                pt.add(x["name"])
            elif "[" not in qt:
                sc.add(x["name"])
    return sc, pt


# ------------------------------------------------------------------------------------------------ N3 inlining
def _elim_returns(stmts, retvar, line):
    """statement list whose paths all end by assigning retvar (no return statements left); refuses returns in loops"""
    out = []
    for i, s in enumerate(stmts):
        k = s.get("kind")
        if k == "ReturnStmt":
            if kids(s) and retvar:
                out.append(binop("=", ref(retvar, "double", s.get("_line")), kids(s)[0], "double", s.get("_line")))
            return out, True
        if k in ("ForStmt", "WhileStmt", "DoStmt", "SwitchStmt") and contains(s, ("ReturnStmt",)):
            raise Unsupported("return inside a loop of an inlined helper")
        if k == "CompoundStmt" and contains(s, ("ReturnStmt",)):
            sub, done = _elim_returns(block_stmts(s) + stmts[i + 1:], retvar, line)
            return out + sub, done
        if k == "IfStmt" and contains(s, ("ReturnStmt",)):
            rest = stmts[i + 1:]
            then = block_stmts(s["inner"][1])
            els = block_stmts(s["inner"][2]) if len(s["inner"]) > 2 else []
            t2, _ = _elim_returns(copy.deepcopy(then) + copy.deepcopy(rest), retvar, line)
            e2, _ = _elim_returns(copy.deepcopy(els) + copy.deepcopy(rest), retvar, line)
            out.append(mk("IfStmt", [s["inner"][0], compound(t2, s.get("_line")), compound(e2, s.get("_line"))], s.get("_line"), hasElse=True))
            return out, True
        out.append(s)
    return out, False


def _rename(n, mapping):
    for x in walk(n):
        if x.get("kind") == "DeclRefExpr" and x["referencedDecl"]["name"] in mapping:
            x["referencedDecl"] = dict(x["referencedDecl"], name=mapping[x["referencedDecl"]["name"]])
        if x.get("kind") == "VarDecl" and x.get("name") in mapping:
            x["name"] = mapping[x["name"]]


# ------------------------------------------------------------------------------------------------ N7 result accumulated in a local
def n7_sink(stmts, locals_):
    """`t = d; for(..) if(c) t = v; A[k] = t;`  ->  `A[k] = d; for(..) if(c) A[k] = v;`
    A scalar local that is only assigned (plain `=`, never read) until it is stored once into A[k] carries the value A[k] is going
    to get: every assignment is turned into the store.  Done only when, between the first assignment and the store, nothing reads or
    writes A, nothing writes a variable of k, control cannot leave the region (return / goto / break / continue of an enclosing
    loop) and t is not read after the store."""
    i = 0
    while i < len(stmts):
        s = stmts[i]
        for sub in _sub_blocks(s):
            n7_sink(sub, locals_)
        st = strip(s) if s.get("kind") in ("ParenExpr",) else s
        if st.get("kind") == "BinaryOperator" and st.get("opcode") == "=":
            lhs, rhs = st["inner"][0], strip(st["inner"][1])
            kind, arr = _target_base(lhs)
            if kind == "arr" and strip(lhs).get("kind") == "ArraySubscriptExpr" and rhs.get("kind") == "DeclRefExpr" and rhs["referencedDecl"]["name"] in locals_:
                t = rhs["referencedDecl"]["name"]
                idx_vars = var_refs(strip(lhs)["inner"][1])
                # region: statements of this block back to the first plain assignment of t
                j = i - 1
                first = None
                while j >= 0:
                    sj = stmts[j]
                    sc_, ar_, unk = writes(sj)
                    if unk or arr in ar_ or arr in arrays_read(sj) or (sc_ & idx_vars) or _leaves(sj):
                        break
                    if t in var_refs(sj):
                        if not _only_assigned(sj, t):
                            break
                        first = j
                    j -= 1
                read_after = any(t in var_refs(x) and not _only_assigned(x, t) for x in stmts[i + 1:])
                if first is not None and not read_after and _starts_with_assignment(stmts[first], t):
                    for k_ in range(first, i):
                        _retarget(stmts[k_], t, lhs)
                    del stmts[i]
                    continue
        i += 1


def _leaves(s):
    for x in walk(s):
        if x.get("kind") in ("ReturnStmt", "GotoStmt"):
            return True
    # break / continue that are not enclosed by a loop of s itself
    def rec(n, inloop):
        k = n.get("kind")
        if k in ("BreakStmt", "ContinueStmt") and not inloop:
            return True
        il = inloop or k in ("ForStmt", "WhileStmt", "DoStmt")
        if k == "SwitchStmt":
            il = True
        return any(rec(c, il) for c in kids(n))
    return rec(s, False)


def _only_assigned(s, t):
    """every occurrence of t in s is the target of a plain assignment statement `t = e` with e free of t"""
    ok = True

    def rec(n):
        nonlocal ok
        if n.get("kind") == "BinaryOperator" and n.get("opcode") == "=":
            l = strip(n["inner"][0])
            if l.get("kind") == "DeclRefExpr" and l["referencedDecl"]["name"] == t:
                if t in var_refs(n["inner"][1]):
                    ok = False
                rec(n["inner"][1])
                return
        if n.get("kind") == "DeclRefExpr" and n.get("referencedDecl", {}).get("name") == t:
            ok = False
        if n.get("kind") == "VarDecl" and n.get("name") == t:
            ok = False
        for c in kids(n):
            rec(c)
    rec(s)
    return ok


def _starts_with_assignment(s, t):
    """s is itself `t = e` (unconditional): the value stored at the end is defined on every path"""
    x = s
    return x.get("kind") == "BinaryOperator" and x.get("opcode") == "=" and strip(x["inner"][0]).get("kind") == "DeclRefExpr" and \
        strip(x["inner"][0])["referencedDecl"]["name"] == t


def _retarget(s, t, lhs):
    for n in walk(s):
        if n.get("kind") == "BinaryOperator" and n.get("opcode") == "=":
            l = strip(n["inner"][0])
            if l.get("kind") == "DeclRefExpr" and l["referencedDecl"]["name"] == t:
                n["inner"][0] = copy.deepcopy(lhs)
                n["type"] = lhs.get("type", n.get("type"))


class Inliner:
    def __init__(self, fns, entry_points, max_stmts=60):
        self.fns, self.entry, self.max = fns, entry_points, max_stmts
        self.counter = 0
        self.done = {}

    def helper(self, name, fromfile):
        from . import ckern
        q = ckern.resolve(name, self.fns, fromfile)
        if q is None:
            return None
        fn = self.fns[q]
        if fn["name"] in self.entry or fn["name"] == "compare":
            return None
        if sum(1 for _ in walk(fn["body"])) > 900:
            return None
        return q

    def normalised(self, q, stack=()):
        """function dict with N1..N5 applied (helpers inlined recursively)"""
        if q in self.done:
            return self.done[q]
        if q in stack:
            raise Unsupported(f"recursive helper {q}")
        fn = self.fns[q]
        body = copy.deepcopy(fn["body"])
        holder = {"inner": [body]}
        n1_switch(holder)
        _wrap_bodies(holder)
        n6_postinc(holder)
        n2_while(holder)
        n5_ternary(holder)
        body = holder["inner"][0]
        nfn = dict(fn, body=body)
        self._inline_calls(nfn, stack + (q,))
        sc, pt = local_vars(nfn)
        n7_sink(body["inner"], sc)
        _n4_block(body["inner"], sc, pt)
        _drop_dead(body, sc | pt)
        self.done[q] = nfn
        return nfn

    # -- call inlining ---------------------------------------------------------------------------------
    def _inline_calls(self, fn, stack):
        self._inline_block(fn["body"]["inner"], fn, stack)

    def _inline_block(self, stmts, fn, stack):
        i = 0
        while i < len(stmts):
            s = stmts[i]
            if s.get("kind") == "IfStmt" and self._hoist_cond_call(stmts, i, fn, stack):
                continue                      # a declaration `h = helper(..)` now sits at position i: expanded on this turn
            for sub in _sub_blocks(s):
                self._inline_block(sub, fn, stack)
            call, role = self._stmt_call(s)
            if call is not None:
                q = self.helper(callee_name(call), fn["file"])
                if q is not None and q not in stack:
                    try:
                        new = self._expand(s, call, role, q, stack)
                    except Unsupported:
                        new = None
                    if new is not None:
                        stmts[i:i + 1] = new
                        i += len(new)
                        continue
            i += 1

    def _hoist_cond_call(self, stmts, i, fn, stack):
        """N3b: `if (.. helper(args) ..)` with a side-effect-free helper (writes only its own scalars, calls only pure library functions or
        other such helpers) and pure arguments  ->  `T h = helper(args); if (.. h ..)`.  The value of a pure terminating call does not
        depend on where it is evaluated; short-circuit evaluation only decides whether it is evaluated at all."""
        s = stmts[i]
        cond = s["inner"][0]
        if not (isinstance(cond, dict) and cond.get("kind")):
            return False
        for parent in walk({"inner": [cond], "kind": "Holder"}):
            inner = parent.get("inner") or []
            for j, c in enumerate(inner):
                if not (isinstance(c, dict) and c.get("kind") == "CallExpr"):
                    continue
                nm = callee_name(c)
                if nm is None or nm in PURE_CALLS:
                    continue
                q = self.helper(nm, fn["file"])
                if q is None or q in stack:
                    continue
                cal = self.fns[q]
                if cal.get("rettype") in (None, "void") or not self._side_effect_free(q, stack):
                    continue
                if not all(is_pure(a) for a in c["inner"][1:]):
                    continue
                self.counter += 1
                name = f"{cal['name']}$h{self.counter}"
                line = s.get("_line")
                decl = mk("DeclStmt", [mk("VarDecl", [copy.deepcopy(c)], line, name=name, type={"qualType": cal["rettype"]}, init="c")], line)
                r = ref(name, cal["rettype"], line)
                if parent.get("kind") == "Holder":
                    s["inner"][0] = r
                else:
                    inner[j] = r
                stmts.insert(i, decl)
                return True
        return False

    def _side_effect_free(self, q, stack, depth=0):
        fn = self.fns[q]
        if depth > 4:
            return False
        wsc, war, unk = writes(fn["body"])
        lsc, lpt = local_vars(fn)
        params = {p_["name"] for p_ in fn["params"]}
        if war or unk or not wsc <= (lsc | params) or lpt:
            return False
        if any(p_["type"]["qualType"].rstrip().endswith("*") and p_["name"] in wsc for p_ in fn["params"]):
            return False
        for x in walk(fn["body"]):
            if x.get("kind") == "CallExpr":
                nm = callee_name(x)
                if nm in PURE_CALLS:
                    continue
                q2 = self.helper(nm, fn["file"]) if nm else None
                if q2 is None or q2 == q or q2 in stack or not self._side_effect_free(q2, stack, depth + 1):
                    return False
            if x.get("kind") in ("WhileStmt", "DoStmt", "GotoStmt"):
                return False
        return True

    def _stmt_call(self, s):
        """(call node, role) when statement s is `f(..);`, `x = f(..);`, `x op= f(..);` or `return f(..);`"""
        k = s.get("kind")
        if k == "CallExpr":
            return s, "stmt"
        if k in ("BinaryOperator", "CompoundAssignOperator") and s.get("opcode") in ("=", "+=", "-=", "*=", "/="):
            r = s["inner"][1]
            while r.get("kind") in ("ParenExpr", "ImplicitCastExpr", "CStyleCastExpr"):
                r = r["inner"][0]
            if r.get("kind") == "CallExpr" and is_pure(s["inner"][0]):
                return r, "assign"
        if k == "ReturnStmt" and kids(s):
            r = kids(s)[0]
            while r.get("kind") in ("ParenExpr", "ImplicitCastExpr", "CStyleCastExpr"):
                r = r["inner"][0]
            if r.get("kind") == "CallExpr":
                return r, "return"
        if k == "DeclStmt":
            ds = [d for d in kids(s) if d.get("kind") == "VarDecl"]
            if len(ds) == 1 and kids(ds[0]):
                r = kids(ds[0])[0]
                while r.get("kind") in ("ParenExpr", "ImplicitCastExpr", "CStyleCastExpr"):
                    r = r["inner"][0]
                if r.get("kind") == "CallExpr":
                    return r, "decl"
        return None, None

    def _expand(self, s, call, role, q, stack):
        callee = self.normalised(q, stack)
        self.counter += 1
        tag = f"{callee['name']}${self.counter}$"
        body = copy.deepcopy(callee["body"])
        args = call["inner"][1:]
        params = callee["params"]
        if len(args) != len(params):
            raise Unsupported("argument count")
        line = s.get("_line")
        pre = []
        wsc, war, unk = writes(body)
        # locals of the callee get fresh names
        lsc, lpt = local_vars(callee)
        arrs = {x["name"] for x in walk(body) if x.get("kind") == "VarDecl"}
        mapping = {n: tag + n for n in arrs}
        _rename(body, mapping)
        caller_writes_by_callee = wsc | war
        for p, a in zip(params, args):
            pn = p["name"]
            qt = p["type"]["qualType"]
            if qt.rstrip().endswith("*"):
                pd = _ptr_def(a)
                a2 = a
                while a2.get("kind") in ("ParenExpr", "ImplicitCastExpr", "CStyleCastExpr"):
                    a2 = a2["inner"][0]
                if a2.get("kind") == "UnaryOperator" and a2.get("opcode") == "&" and strip(a2["inner"][0]).get("kind") == "DeclRefExpr":
                    # &x : p[0] / *p  ->  x
                    if pn in wsc:
                        raise Unsupported("pointer parameter reassigned")
                    target = a2["inner"][0]
                    if not _ptr_uses_ok(body, pn):
                        raise Unsupported("pointer parameter escapes")
                    self._subst_addr(body, pn, target)
                    continue
                if pd is None:
                    raise Unsupported("pointer argument form")
                if pn in wsc:
                    raise Unsupported("pointer parameter reassigned")
                if pd[1] is None:
                    _rename_expr(body, pn, pd[0])
                else:
                    if not _ptr_uses_ok(body, pn) or not is_pure(pd[1]):
                        raise Unsupported("offset pointer argument used as a value")
                    if var_refs(pd[1]) & wsc:
                        raise Unsupported("offset operands modified")
                    holder = {"inner": [body]}
                    _subst_ptr(holder, pn, pd[0], pd[1])
                    body = holder["inner"][0]
                continue
            # scalar parameter
            if pn not in wsc and is_pure(a) and not (var_refs(a) & set()) and not (arrays_read(a) & war):
                holder = {"inner": [body]}
                _subst_scalar(holder, pn, a)
                body = holder["inner"][0]
            else:
                new = tag + pn
                _rename(body, {pn: new})
                pre.append(mk("DeclStmt", [mk("VarDecl", [copy.deepcopy(a)], line, name=new, type={"qualType": qt}, init="c")], line))
        stmts = block_stmts(body)
        retvar = None
        if role != "stmt" and callee["rettype"] != "void":
            retvar = tag + "ret"
        has_ret = any(contains(x, ("ReturnStmt",)) for x in stmts)
        if has_ret:
            stmts, _ = _elim_returns(stmts, retvar, line)
        out = list(pre)
        if retvar:
            out.insert(0, mk("DeclStmt", [mk("VarDecl", [], line, name=retvar, type={"qualType": callee["rettype"]})], line))
        out += stmts
        if role == "assign":
            r = ref(retvar, callee["rettype"], line)
            out.append(dict(s, inner=[s["inner"][0], r]))
        elif role == "return":
            out.append(mk("ReturnStmt", [ref(retvar, callee["rettype"], line)], line))
        elif role == "decl":
            d = [x for x in kids(s) if x.get("kind") == "VarDecl"][0]
            out.append(mk("DeclStmt", [dict(d, inner=[ref(retvar, callee["rettype"], line)])], line))
        return out

    def _subst_addr(self, body, pn, target):
        def rec(n):
            inner = n.get("inner")
            if not inner:
                return
            for i, c in enumerate(inner):
                if not (isinstance(c, dict) and c.get("kind")):
                    continue
                k = c.get("kind")
                if k == "ArraySubscriptExpr" and strip(c["inner"][0]).get("kind") == "DeclRefExpr" and \
                        strip(c["inner"][0])["referencedDecl"]["name"] == pn:
                    idx = strip(c["inner"][1])
                    if not (idx.get("kind") == "IntegerLiteral" and int(idx["value"]) == 0):
                        raise Unsupported("non-zero index on the address of a scalar")
                    inner[i] = copy.deepcopy(target)
                elif k == "UnaryOperator" and c.get("opcode") == "*" and strip(c["inner"][0]).get("kind") == "DeclRefExpr" and \
                        strip(c["inner"][0])["referencedDecl"]["name"] == pn:
                    inner[i] = copy.deepcopy(target)
                else:
                    rec(c)
        rec(body)


def _rename_expr(body, pn, base):
    """occurrences of pointer parameter pn replaced by the caller's pointer expression `base` (a DeclRefExpr, maybe cast)"""
    def rec(n):
        inner = n.get("inner")
        if not inner:
            return
        for i, c in enumerate(inner):
            if not (isinstance(c, dict) and c.get("kind")):
                continue
            if c.get("kind") == "DeclRefExpr" and c["referencedDecl"]["name"] == pn:
                inner[i] = copy.deepcopy(base)
            else:
                rec(c)
    rec(body)


def n8_while_preinc(node):
    """`while (++v < e) body`  ->  `for (++v; v < e; ++v) body`  (same for --v and the other comparisons; v an integer variable that the
    comparison's other side does not mention).  `continue` in the body reaches the increment in both forms, `break` leaves both."""
    import copy
    for c in node.get("inner", []) or []:
        if isinstance(c, dict):
            n8_while_preinc(c)
    inner = node.get("inner")
    if not inner:
        return
    for i, w in enumerate(inner):
        if not (isinstance(w, dict) and w.get("kind") == "WhileStmt" and len(w.get("inner", [])) == 2):
            continue
        cond = w["inner"][0]
        c0 = cond
        while c0.get("kind") in ("ParenExpr", "ImplicitCastExpr"):
            c0 = c0["inner"][0]
        if not (c0.get("kind") == "BinaryOperator" and c0.get("opcode") in ("<", "<=", ">", ">=", "!=")):
            continue
        lhs = c0["inner"][0]
        holder_, l0 = None, lhs
        while l0.get("kind") in ("ParenExpr", "ImplicitCastExpr"):
            holder_, l0 = l0, l0["inner"][0]
        if not (l0.get("kind") == "UnaryOperator" and l0.get("opcode") in ("++", "--") and not l0.get("isPostfix")):
            continue
        v = l0["inner"][0]
        if v.get("kind") != "DeclRefExpr":
            continue
        name = v["referencedDecl"]["name"]
        if any(x.get("kind") == "DeclRefExpr" and x.get("referencedDecl", {}).get("name") == name for x in walk(c0["inner"][1])):
            continue
        # the comparison now reads the variable itself
        newcond = copy.deepcopy(cond)
        n0 = newcond
        while n0.get("kind") in ("ParenExpr", "ImplicitCastExpr"):
            n0 = n0["inner"][0]
        ref = {"kind": "ImplicitCastExpr", "type": v.get("type"), "valueCategory": "prvalue", "castKind": "LValueToRValue", "inner": [copy.deepcopy(v)],
               "_line": cond.get("_line")}
        n0["inner"][0] = ref
        inc1, inc2 = copy.deepcopy(l0), copy.deepcopy(l0)
        # `v = c;` right before the loop: the loop starts at c + 1 (written as such, so that the range of the loop is read off its header)
        if i > 0 and l0.get("opcode") == "++":
            prev = inner[i - 1]
            p0 = prev
            while isinstance(p0, dict) and p0.get("kind") in ("ParenExpr", "ImplicitCastExpr"):
                p0 = p0["inner"][0]
            if isinstance(p0, dict) and p0.get("kind") == "BinaryOperator" and p0.get("opcode") == "=" and p0["inner"][0].get("kind") == "DeclRefExpr" and \
                    p0["inner"][0]["referencedDecl"]["name"] == name:
                r0 = p0["inner"][1]
                while r0.get("kind") in ("ParenExpr", "ImplicitCastExpr"):
                    r0 = r0["inner"][0]
                cst = None
                if r0.get("kind") == "IntegerLiteral":
                    cst = int(r0["value"])
                elif r0.get("kind") == "UnaryOperator" and r0.get("opcode") == "-" and r0["inner"][0].get("kind") == "IntegerLiteral":
                    cst = -int(r0["inner"][0]["value"])
                if cst is not None and cst + 1 >= 0:
                    inc1 = copy.deepcopy(p0)
                    inc1["inner"][1] = {"kind": "IntegerLiteral", "type": v.get("type"), "valueCategory": "prvalue", "value": str(cst + 1), "_line": cond.get("_line")}
        inner[i] = {"kind": "ForStmt", "_line": w.get("_line"), "range": w.get("range"), "inner": [inc1, {}, newcond, inc2, w["inner"][1]]}


def light(fn):
    """the rewrites that keep the function's own statements (no inlining, loops as written): N1 switch, N6 post-increment,
    N5 conditional assignment, N4 forward substitution.  Used by the range analysis so that a flag or a hoisted temporary
    does not hide the relation between a test and the store it guards."""
    holder = {"inner": [fn["body"]]}
    n1_switch(holder)
    _wrap_bodies(holder)
    n8_while_preinc(holder)
    n6_postinc(holder)
    n5_ternary(holder)
    fn["body"] = holder["inner"][0]
    sc, pt = local_vars(fn)
    _ONLY_BOOL[0] = True          # only flags (comparison / logical values) and pointer temporaries: the interpreter keeps its facts on variables
    try:
        _n4_block(fn["body"]["inner"], sc, pt)
    finally:
        _ONLY_BOOL[0] = False
    n5_ternary({"inner": [fn["body"]]})
    return fn


def normalise_all(K, entry_points):
    """-> Inliner (lazy: .normalised(qname))"""
    return Inliner(K["fns"], set(entry_points))


# ------------------------------------------------------------------------------------------------ debugging aid
def show(n, ind=0):
    from .cfront import text
    pad = "  " * ind
    k = n.get("kind")
    if k == "CompoundStmt":
        return "\n".join(show(c, ind) for c in kids(n))
    if k == "IfStmt":
        s = f"{pad}if({text(n['inner'][0])}) {{\n{show(n['inner'][1], ind + 1)}\n{pad}}}"
        if len(n["inner"]) > 2 and n["inner"][2].get("kind"):
            s += f" else {{\n{show(n['inner'][2], ind + 1)}\n{pad}}}"
        return s
    if k == "ForStmt":
        i, _, c, inc, b = n["inner"]
        return f"{pad}for({text(i) if i.get('kind') else ''};{text(c) if c.get('kind') else ''};{text(inc) if inc.get('kind') else ''}) {{\n{show(b, ind + 1)}\n{pad}}}"
    if k == "WhileStmt":
        return f"{pad}while({text(n['inner'][0])}) {{\n{show(n['inner'][1], ind + 1)}\n{pad}}}"
    if k == "DeclStmt":
        return pad + "; ".join(f"{d['type']['qualType']} {d['name']}" + (f" = {text(kids(d)[0])}" if kids(d) else "") for d in kids(n)) + ";"
    if k == "ReturnStmt":
        return pad + "return " + (text(kids(n)[0]) if kids(n) else "") + ";"
    if k in ("BreakStmt", "ContinueStmt", "NullStmt"):
        return pad + k
    return pad + text(n) + ";"
