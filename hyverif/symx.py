"""Computer-algebra comparison of formulas extracted from the source (sympy; no repository code is run).

The path-wise evaluation of a method (pq.PEval) yields its result as an expression tree over the data variable and the
parameters.  This module turns such a tree into a sympy expression -- or, for array code, into a numpy object array of
sympy expressions built over a small symbolic matrix, so that numpy's own reduction / broadcasting rules decide what
`axis=`, `[:, None]` etc. mean -- and decides identities between them:

  identical(a, b)      simplify(a - b) == 0, else a randomised identity test at 50 digits on points of the domain
                       (two analytic expressions that agree on 16 generic points to 1e-30 are taken as equal; a point
                       where they differ is a witness and is reported)
"""
import random
from fractions import Fraction

from .formula import Undecided, show

try:
    import sympy as sp
    import numpy as np
    import mpmath
    HAVE = True
except Exception:                                   # pragma: no cover
    HAVE = False


NANS = (('sym', 'nan'), ('nan',))


class Ctx:
    """symbols of one class: data variables, parameters (by access path), constants"""

    def __init__(self):
        self.syms = {}
        self.assume_pos = set()

    def sym(self, name, positive=False):
        if name not in self.syms:
            self.syms[name] = sp.Symbol(name, real=True, positive=positive or None)
        return self.syms[name]


_FUN1 = {}


def _init():
    if _FUN1:
        return
    _FUN1.update({
        "log": sp.log, "exp": sp.exp, "sqrt": sp.sqrt, "sinh": sp.sinh, "cosh": sp.cosh, "tanh": sp.tanh,
        "arcsinh": sp.asinh, "abs": sp.Abs, "sign": sp.sign, "log1p": lambda v: sp.log(1 + v), "expm1": lambda v: sp.exp(v) - 1,
        "arctanh": sp.atanh, "arccosh": sp.acosh,
    })


def _vec(f):
    def g(a):
        if isinstance(a, np.ndarray):
            out = np.empty(a.shape, dtype=object)
            for idx in np.ndindex(a.shape):
                out[idx] = f(a[idx])
            return out
        return f(a)
    return g


def build(e, env, ctx):
    """expression tree -> sympy scalar or numpy object array; env maps leaf trees / names to values"""
    _init()
    if e in env:
        return env[e]
    k = e[0]
    if k == 'num':
        return sp.Rational(e[1].numerator, e[1].denominator) if isinstance(e[1], Fraction) else sp.nsimplify(e[1])
    if k == 'sym':
        if e[1] in env:
            return env[e[1]]
        if e[1] == 'nan':
            return sp.nan
        if e[1] in ('inf',):
            return sp.oo
        if e[1] == 'EPS':
            return ctx.sym('EPS', positive=True)
        raise Undecided(f"free name {e[1]}")
    if k in ('add', 'sub', 'mul', 'div', 'pow'):
        a, b = build(e[1], env, ctx), build(e[2], env, ctx)
        if k == 'add':
            return a + b
        if k == 'sub':
            return a - b
        if k == 'mul':
            return a * b
        if k == 'div':
            return a / b
        return a ** b
    if k == 'nan':
        return sp.nan
    if k == 'neg':
        return -build(e[1], env, ctx)
    if k == 'where':
        # the value on the domain: the branch that is not the missing-value marker
        a, b = e[2], e[3]
        if b in NANS:
            return build(a, env, ctx)
        if a in NANS:
            return build(b, env, ctx)
        raise Undecided("two-valued where")
    if k == 'call':
        name, args = e[1], e[2]
        kws = dict(e[3]) if len(e) > 3 else {}
        if name in _FUN1 and len(args) == 1:
            return _vec(_FUN1[name])(build(args[0], env, ctx))
        if name in ('atleast_2d', 'asarray', 'array', 'ascontiguousarray', 'float64', '.copy', 'copy') and len(args) >= 1:
            v = build(args[0], env, ctx)
            if name == 'atleast_2d' and isinstance(v, np.ndarray) and v.ndim < 2:
                v = np.atleast_2d(v)
            return v
        if name in ('sum', 'prod', 'nansum', 'nanprod') and len(args) >= 1:
            v = build(args[0], env, ctx)
            ax = kws.get('axis', args[1] if len(args) > 1 else None)
            axis = None
            if ax is not None and ax != ('sym', 'None'):
                axv = build(ax, env, ctx)
                axis = int(axv)
            kd = kws.get('keepdims') == ('sym', 'True')
            if not isinstance(v, np.ndarray):
                return v
            f = np.sum if 'sum' in name else np.prod
            return f(v, axis=axis, keepdims=kd)
        if name == 'getitem' and len(args) == 2:
            v = build(args[0], env, ctx)
            ix = _index(args[1], env, ctx)
            if not isinstance(v, np.ndarray):
                raise Undecided("subscript of a scalar")
            return v[ix]
        if name == 'power' and len(args) == 2:
            return build(args[0], env, ctx) ** build(args[1], env, ctx)
        if name == 'reciprocal' and len(args) == 1:
            return 1 / build(args[0], env, ctx)
        raise Undecided(f"function {name}")
    raise Undecided(f"node {k}")


def _index(ix, env, ctx):
    if ix[0] == 'tuple':
        return tuple(_index(x, env, ctx) for x in ix[1])
    if ix == ('sym', 'None'):
        return None
    if ix[0] == 'call' and ix[1] == 'slice':
        vals = [None if x == ('sym', 'None') else int(build(x, env, ctx)) for x in ix[2]]
        return slice(*vals)
    if ix[0] == 'num':
        return int(ix[1])
    if ix == ('sym', 'Ellipsis'):
        return Ellipsis
    raise Undecided(f"index {show(ix)[:40]}")


def _num(expr, subs, dps=50):
    mpmath.mp.dps = dps
    v = expr.evalf(dps, subs=subs)
    return v


def identical(a, b, sample, ntry=16, what=""):
    """-> (True, how) | (False, witness text) | (None, reason).  sample() returns a substitution dict of a random domain point"""
    d = a - b
    if d == 0:
        return True, "identical terms"
    ok = 0
    for _ in range(ntry * 4):
        subs = sample()
        if subs is None:
            continue
        try:
            va, vb = _num(a, subs), _num(b, subs)
        except Exception as ex:          # noqa
            continue
        if not (va.is_real and vb.is_real) or va.has(sp.nan, sp.zoo, sp.oo, -sp.oo) or vb.has(sp.nan, sp.zoo, sp.oo, -sp.oo):
            continue
        scale = max(1, abs(va), abs(vb))
        if abs(va - vb) > sp.Float(10) ** -25 * scale:
            pt = ", ".join(f"{k}={sp.nsimplify(v)}" for k, v in sorted(subs.items(), key=lambda kv: str(kv[0])))
            return False, f"at {pt}: {sp.N(va, 12)} vs {sp.N(vb, 12)}"
        ok += 1
        if ok >= ntry:
            return True, f"agreement to 1e-25 on {ok} random points of the domain (50 digits)"
    return None, f"only {ok} evaluable sample points"


def _leibniz(M, n):
    """determinant as the plain signed sum over permutations (no simplification on the way)"""
    import itertools
    tot = 0
    for perm in itertools.permutations(range(n)):
        inv = sum(1 for i in range(n) for j in range(i + 1, n) if perm[i] > perm[j])
        term = 1
        for i in range(n):
            term = term * M[i, perm[i]]
        tot = tot + (-1) ** inv * term
    return tot


def rnd(lo, hi, rng):
    return sp.Rational(rng.randint(int(lo * 1000), int(hi * 1000)), 1000)


# ------------------------------------------------------------------------------------------------ row-wise array transforms
def returning_value(fdef, pq):
    """(data variable name, value tree) of the single returning path of a method whose other paths only raise"""
    pe = pq.PEval()
    paths = pe.run(fdef)
    rets = [p for p in paths if p.how == "return"]
    if len(rets) != 1 or any(p.how not in ("return", "raise") for p in paths):
        raise Undecided(f"{fdef.name}: {len(rets)} returning paths")
    args = [a.arg for a in fdef.args.args if a.arg != "self"]
    if len(args) != 1:
        raise Undecided(f"{fdef.name}: signature")
    return args[0], rets[0].value


def rowwise_model(fwd, bwd, jac, pq, sizes=(1, 2, 3), rows=2, seed=7):
    """Checks of a transform acting on each row of a 2-D array (Softmax), on symbolic rows x n matrices.
    yields (clause, ok | None, detail)"""
    if not HAVE:
        raise Undecided("sympy / numpy are not importable in this interpreter")
    rng = random.Random(seed)
    ctx = Ctx()
    xn, fe = returning_value(fwd, pq)
    yn, be = returning_value(bwd, pq)
    jn, je = returning_value(jac, pq)
    for n in sizes:
        X = np.empty((rows, n), dtype=object)
        Y = np.empty((rows, n), dtype=object)
        for r in range(rows):
            for i in range(n):
                X[r, i] = sp.Symbol(f"x{r}{i}", positive=True)
                Y[r, i] = sp.Symbol(f"y{r}{i}", real=True)
        xs, ys = list(X.flat), list(Y.flat)

        def sample_x():
            return {s: rnd(0.01, 0.9 / n, rng) for s in xs}

        def sample_y():
            return {s: rnd(-3, 3, rng) for s in ys}
        try:
            F = build(fe, {('sym', xn): X, xn: X}, ctx)
            B = build(be, {('sym', yn): Y, yn: Y}, ctx)
            BF = build(be, {('sym', yn): F, yn: F}, ctx)
            FB = build(fe, {('sym', xn): B, xn: B}, ctx)
            J = build(je, {('sym', jn): X, jn: X}, ctx)
        except (ValueError, IndexError, TypeError) as ex:
            yield (f"n={n}: the expressions are well-formed for a {rows} x {n} array", False, f"{type(ex).__name__}: {ex}")
            continue
        for nm, arr, shp in (("forward", F, (rows, n)), ("backward", B, (rows, n)), ("jacobian", J, (rows,))):
            got = arr.shape if isinstance(arr, np.ndarray) else ()
            yield (f"n={n}: {nm} of a {rows} x {n} array has shape {shp}", got == shp, f"shape {got}")
        if not (isinstance(BF, np.ndarray) and BF.shape == (rows, n) and isinstance(FB, np.ndarray) and FB.shape == (rows, n)
                and isinstance(J, np.ndarray) and J.shape == (rows,) and isinstance(F, np.ndarray) and F.shape == (rows, n)):
            continue
        bad = None
        how = set()
        for idx in np.ndindex((rows, n)):
            ok, det = identical(BF[idx], X[idx], sample_x)
            how.add(det if ok else "")
            if ok is not True:
                bad = (ok, f"element {idx}: {det}")
                break
        yield (f"n={n}: backward(forward(x)) == x element-wise", True if bad is None else bad[0], bad[1] if bad else "; ".join(sorted(h for h in how if h)))
        bad = None
        how = set()
        for idx in np.ndindex((rows, n)):
            ok, det = identical(FB[idx], Y[idx], sample_y)
            how.add(det if ok else "")
            if ok is not True:
                bad = (ok, f"element {idx}: {det}")
                break
        yield (f"n={n}: forward(backward(y)) == y element-wise", True if bad is None else bad[0], bad[1] if bad else "; ".join(sorted(h for h in how if h)))
        bad = None
        how = set()
        for r in range(rows):
            M = sp.Matrix(n, n, lambda i, j: sp.diff(F[r, i], X[r, j]))
            ok, det = identical(_leibniz(M, n), J[r], sample_x)
            how.add(det if ok else "")
            if ok is not True:
                bad = (ok, f"row {r}: determinant of d forward / dx vs _jacobian: {det}")
                break
        yield (f"n={n}: _jacobian == determinant of the row's Jacobian matrix of forward", True if bad is None else bad[0],
               bad[1] if bad else "; ".join(sorted(h for h in how if h)))
        cross = [(r, i, r2, j) for r in range(rows) for r2 in range(rows) if r != r2 for i in range(n) for j in range(n)
                 if X[r2, j] in F[r, i].free_symbols]
        yield (f"n={n}: rows are transformed independently", not cross, f"forward[{cross[0][0]},{cross[0][1]}] depends on x[{cross[0][2]},{cross[0][3]}]" if cross else "")


# ------------------------------------------------------------------------------------------------ scalar transforms
def _mentions(e, leaf):
    if e == leaf:
        return True
    if not isinstance(e, tuple):
        return False
    return any(_mentions(x, leaf) for x in e[1:] if isinstance(x, tuple)) or \
        any(_mentions(y, leaf) for x in e[1:] if isinstance(x, tuple) for y in x if isinstance(y, tuple) and not isinstance(x[0], str))


def _walk(e):
    yield e
    if isinstance(e, tuple):
        for x in e[1:]:
            if isinstance(x, tuple):
                if x and isinstance(x[0], str):
                    yield from _walk(x)
                else:
                    for y in x:
                        if isinstance(y, tuple):
                            if y and isinstance(y[0], str) and len(y) == 2 and not isinstance(y[1], tuple):
                                yield y
                            else:
                                yield from _walk(y if y and isinstance(y[0], str) else y[1] if len(y) == 2 else y)


def opaque_params(e, var, env, ctx):
    """binds every maximal self-dependent subtree that does not involve the data variable to a parameter symbol"""
    SELF = ('sym', 'self')

    def rec(t):
        if not isinstance(t, tuple) or not t or not isinstance(t[0], str):
            return
        has_self = any(x == SELF for x in _walk(t))
        has_var = any(x == ('sym', var) for x in _walk(t))
        if has_self and not has_var and t[0] == 'call' and (t[1].startswith('.') or t[1].startswith('attr:') or t[1] == 'getitem'):
            if t not in env:
                env[t] = ctx.sym("p%d" % len([k for k in env if isinstance(k, tuple) and k[0] == 'call']), positive=True)
            return
        for x in t[1:]:
            if isinstance(x, tuple):
                if x and isinstance(x[0], str):
                    rec(x)
                else:
                    for y in x:
                        if isinstance(y, tuple):
                            rec(y if y and isinstance(y[0], str) else (y[1] if len(y) == 2 and isinstance(y[1], tuple) else ()))
    rec(e)


def domain_conds(e, out):
    if isinstance(e, tuple) and e and e[0] == 'where' and (e[3] in NANS or e[2] in NANS):
        out.append((e[1], e[3] in NANS))
    if isinstance(e, tuple):
        for x in e[1:]:
            if isinstance(x, tuple):
                if x and isinstance(x[0], str):
                    domain_conds(x, out)
                else:
                    for y in x:
                        if isinstance(y, tuple) and y and isinstance(y[0], str):
                            domain_conds(y, out)
    return out


def build_cond(c, env, ctx):
    if c[0] == 'cmp':
        a, b = build(c[2], env, ctx), build(c[3], env, ctx)
        return {'>': a > b, '>=': a >= b, '<': a < b, '<=': a <= b}.get(c[1])
    if c[0] in ('and', 'or', 'band', 'bor'):
        a, b = build_cond(c[1], env, ctx), build_cond(c[2], env, ctx)
        if a is None or b is None:
            return None
        return sp.And(a, b) if c[0] in ('and', 'band') else sp.Or(a, b)
    return None


def scalar_model(fwd, bwd, jac, pq, seed=11):
    """round trip and derivative identities of a branch-free scalar transform; yields (clause, ok | None, detail)"""
    if not HAVE:
        raise Undecided("sympy / numpy are not importable in this interpreter")
    rng = random.Random(seed)
    ctx = Ctx()
    xn, fe = returning_value(fwd, pq)
    yn, be = returning_value(bwd, pq)
    jn, je = returning_value(jac, pq)
    env = {('sym', 'EPS'): sp.Rational(1, 10 ** 10)}
    for e, v in ((fe, xn), (be, yn), (je, jn)):
        opaque_params(e, v, env, ctx)
    x, y = sp.Symbol("x", real=True), sp.Symbol("y", real=True)
    envx = dict(env)
    envx[('sym', xn)] = x
    envy = dict(env)
    envy[('sym', yn)] = y
    envj = dict(env)
    envj[('sym', jn)] = x
    F = build(fe, envx, ctx)
    B = build(be, envy, ctx)
    J = build(je, envj, ctx)
    BF = B.subs(y, F)
    FB = F.subs(x, B)
    conds = [build_cond(c, envx, ctx) if t else sp.Not(build_cond(c, envx, ctx)) for c, t in domain_conds(fe, [])]
    if any(c is None for c in conds):
        raise Undecided("domain condition outside the vocabulary")
    params = [s for s in set().union(F.free_symbols, B.free_symbols, J.free_symbols) if s not in (x, y)]

    def sample_x():
        subs = {p: rnd(0.2, 1.5, rng) for p in params}
        subs[x] = rnd(-3, 3, rng)
        for c in conds:
            if c.subs(subs) is not sp.true:
                return None
        return subs

    def sample_y():
        subs = {p: rnd(0.2, 1.5, rng) for p in params}
        subs[y] = rnd(-3, 3, rng)
        return subs
    ok, det = identical(BF, x, sample_x)
    yield ("backward(forward(x)) == x on the domain", ok, det)
    ok, det = identical(FB, y, sample_y)
    yield ("forward(backward(y)) == y", ok, det)
    ok, det = identical(sp.diff(F, x), J, sample_x)
    yield ("_jacobian == d forward / dx on the domain", ok, det)
    # the nan-mask of the Jacobian leaves every point of forward's domain unmasked
    jconds = [build_cond(c, envj, ctx) if t else sp.Not(build_cond(c, envj, ctx)) for c, t in domain_conds(je, [])
              if build_cond(c, envj, ctx) is not None]
    if jconds:
        bad, n = None, 0
        # float scan for candidates (parameter samples x a grid of data values), exact confirmation of each candidate
        syms = sorted(params, key=str) + [x]
        try:
            ffn = [sp.lambdify(syms, c, "math") for c in conds]
            jfn = [sp.lambdify(syms, c, "math") for c in jconds]
            Ffn = sp.lambdify(syms, F, "math")
        except Exception as ex:     # noqa
            raise Undecided(f"domain conditions cannot be compiled for scanning: {ex}")
        for _ in range(60):
            if bad:
                break
            pv = {p_: rnd(0.2, 1.5, rng) for p_ in params}
            args = [float(pv[p_]) for p_ in sorted(params, key=str)]
            for k in range(-60, 61):
                xv = sp.Rational(k, 20)
                try:
                    if not all(f_(*args, float(xv)) for f_ in ffn):
                        continue
                    off = [c for c, f_ in zip(jconds, jfn) if not f_(*args, float(xv))]
                except (ValueError, ZeroDivisionError, OverflowError):
                    continue
                if not off:
                    n += 1
                    continue
                try:
                    fv = Ffn(*args, float(xv))
                    if isinstance(fv, complex) or fv != fv or abs(fv) == float("inf"):
                        continue
                except (ValueError, ZeroDivisionError, OverflowError, TypeError):
                    continue        # forward undefined in floating point: not a domain point
                subs = dict(pv)
                subs[x] = xv
                if any(c.subs(subs) is not sp.true for c in conds) or all(c.subs(subs) is not sp.false for c in off):
                    continue
                try:
                    vf = F.subs(subs).evalf(30)      # exact substitution: a singular point evaluates to an infinity, not to a huge finite number
                except Exception:       # noqa
                    continue
                if not vf.is_real or vf.has(sp.nan, sp.zoo, sp.oo, -sp.oo):
                    continue            # forward itself is undefined there (implicit domain of a logarithm / root)
                n += 1
                bad = "masked at " + ", ".join(f"{k_}={float(v):.4g}" for k_, v in sorted(subs.items(), key=lambda kv: str(kv[0]))) + f" where forward is defined; mask {off[0]}"
                break
        yield ("_jacobian is not masked (nan) at a point of forward's domain", False if bad else (True if n >= 30 else None), bad or f"{n} points of the domain sampled")


_MEMO = {}


def class_model(key, methods, pq):
    """all clauses of the computer-algebra model of one transform class (row-wise when its forward reduces along an axis)"""
    if key in _MEMO:
        return _MEMO[key]
    xn, fe = returning_value(methods["_forward"], pq)
    rowwise = any(isinstance(t, tuple) and t and t[0] == 'call' and t[1] in ('sum', 'prod', 'atleast_2d') for t in _walk(fe))
    f = rowwise_model if rowwise else scalar_model
    out = list(f(methods["_forward"], methods["_backward"], methods["_jacobian"], pq))
    _MEMO[key] = out
    return out


# ------------------------------------------------------------------------------------------------ avoidable overflow
class _Timeout(Exception):
    pass


def _limit(e, x, d, seconds=6):
    import signal

    def _alarm(*_a):
        raise _Timeout()
    old = signal.signal(signal.SIGALRM, _alarm)
    signal.alarm(seconds)
    try:
        return sp.limit(e, x, d)
    finally:
        signal.alarm(0)
        signal.signal(signal.SIGALRM, old)


_PVALS = [(3, 7), (5, 3), (11, 4), (2, 9), (7, 5), (13, 6)]


def overflow_clauses(fwd, bwd, pq, jac=None):
    """An exponential-type intermediate (exp, sinh, cosh of an argument that grows without bound on the domain) overflows
    the double range at moderate arguments (~710).  That is harmless when the final value overflows too (the function itself
    is exponential) or when the infinity propagates to the correct limit (1/(1+inf) = 0); it is a defect when the final
    value grows sub-exponentially (log|F| / |argument| -> 0): the result is representable but comes out as inf or NaN.
    yields (clause, ok | None, detail); directions in which the limit computation does not finish are skipped (noted)."""
    if not HAVE:
        raise Undecided("sympy / numpy are not importable in this interpreter")
    ctx = Ctx()
    x = sp.Symbol("x", real=True)
    built = {}
    for nm, f in (("_forward", fwd), ("_backward", bwd)) + ((("_jacobian", jac),) if jac is not None else ()):
        vn, e = returning_value(f, pq)
        env = {('sym', 'EPS'): sp.Rational(1, 10 ** 10)}
        opaque_params(e, vn, env, ctx)
        env[('sym', vn)] = x
        F = build(e, env, ctx)
        conds = [build_cond(c, env, ctx) if t else sp.Not(build_cond(c, env, ctx)) for c, t in domain_conds(e, [])]
        params = sorted(F.free_symbols - {x}, key=str)
        sub = {p: sp.Rational(*_PVALS[i % len(_PVALS)]) for i, p in enumerate(params)}
        built[nm] = (F.subs(sub), [c.subs(sub) for c in conds if c is not None])
    dirs = {}
    Ff, cf = built["_forward"]
    fdirs = []
    for d in (sp.oo, -sp.oo):
        okd = True
        for c in cf:
            try:
                big = c.subs(x, d if d == sp.oo else -sp.oo)
                if big is sp.false or big == False:      # noqa: E712
                    okd = False
            except Exception:
                pass
        if okd:
            fdirs.append(d)
    dirs["_forward"] = fdirs
    bdirs = set()
    for d in fdirs:
        try:
            L = _limit(Ff, x, d)
            if L in (sp.oo, -sp.oo):
                bdirs.add(L)
        except Exception:
            bdirs |= {sp.oo, -sp.oo}
    if not cf and len(fdirs) == 2 and not bdirs:
        bdirs = {sp.oo, -sp.oo}
    dirs["_backward"] = sorted(bdirs, key=str)
    dirs["_jacobian"] = fdirs
    for nm in [k_ for k_ in ("_forward", "_backward", "_jacobian") if k_ in built]:
        F, _c = built[nm]
        seen = set()
        for d in dirs[nm]:
            for N in sp.preorder_traversal(F):
                if not isinstance(N, (sp.exp, sp.sinh, sp.cosh)) or (N, d) in seen:
                    continue
                seen.add((N, d))
                a = N.args[0]
                dname = "+inf" if d == sp.oo else "-inf"
                clause = f"{nm}: {type(N).__name__}({a}) as the argument -> {dname}"
                try:
                    la = _limit(a, x, d)
                    if not (la == sp.oo or (isinstance(N, (sp.sinh, sp.cosh)) and la == -sp.oo)):
                        continue
                    L = _limit(F, x, d)
                    if L in (sp.oo, -sp.oo):
                        g = _limit(sp.log(sp.Abs(F)) / sp.Abs(a), x, d)
                        if g == 0:
                            yield (clause, False, f"the intermediate overflows near |argument| = 710 while the result grows sub-exponentially (log|result| / |argument| -> 0): "
                                                  f"finite results are returned as inf / NaN for large arguments")
                        else:
                            yield (clause, True, f"the result itself grows exponentially (log|result| / |argument| -> {g})")
                    elif L.is_finite:
                        got = F.subs(N, sp.oo)
                        ok = sp.simplify(got - L) == 0 if got.is_finite else False
                        yield (clause, bool(ok), f"result -> {L}; with the intermediate at infinity the expression gives {got}")
                except _Timeout:
                    continue
                except Exception:
                    continue
