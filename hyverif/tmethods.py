"""Abstract evaluation of the Transform classes of stat/transform.py into guarded closed forms.

For every class: the declared parameter / constant vectors (names, bounds), and for each of
_forward / _backward / _jacobian a list of cases (parameter predicates, mask side, Expr of the
data variable).  Local definitions are substituted forward, `if` on parameter-only tests fork
the case, masked stores `y[mask] = f(w[mask])` become mask-tagged cases, delegation to the inner
BoxCox2 (`self.BC.forward(..)`) is inlined through the parameters last assigned to
`self.BC.params.values`."""
import ast

from .core import AnalysisError
from .formula import (ExprBuilder, Undecided, Ratio, X, num, to_ratio, contains_x, show, simplify)
from .pyfront import dotted, const_value


class VectorDecl:
    def __init__(self):
        self.names, self.defaults, self.mins, self.maxs = [], [], [], []
        self.accept_nan = False
        self.node = None
        self.known = True                # False: the class hands its base constructor a vector this reader cannot resolve


class Case:
    def __init__(self, conds, expr, masks=(), domains=()):
        self.conds = tuple(conds)        # parameter predicates (normal form tuples)
        self.expr = expr
        self.masks = tuple(masks)        # (polarity, mask Expr)
        self.domains = tuple(domains)    # np.where(cond, value, nan) conditions met on the way
        self.shortcut = None             # (polarity, mask, line) of the `if mask.all(): return` this case comes from

    def key(self):
        return (tuple(sorted(pred_text(c) for c in self.conds)), tuple(p for p, _ in self.masks))


class Issue:
    def __init__(self, rule, construct, detail, line):
        self.rule, self.construct, self.detail, self.line = rule, construct, detail, line


# ------------------------------------------------------------------ predicates
def norm_pred(e, truth=True):
    """parameter-only boolean Expr -> normal form tuple"""
    k = e[0]
    if k == 'not':
        return norm_pred(e[1], not truth)
    if k == 'call' and e[1] == 'isclose':
        a, b = e[2][0], e[2][1]
        p = ('close', to_ratio(a) - to_ratio(b))
        return p if truth else ('not', p)
    if k == 'cmp':
        op, a, b = e[1], e[2], e[3]
        if a[0] == 'call' and a[1] == 'abs' and op in ('>', '>=', '<', '<='):
            inner = to_ratio(a[2][0])
            t = to_ratio(b)
            if op in ('<', '<='):
                truth = not truth
                op = '>=' if op == '<' else '>'
            p = ('absgt' if op == '>' else 'absge', inner, t)
            return p if truth else ('not', p)
        d = to_ratio(a) - to_ratio(b)
        if not truth:
            op = {'>': '<=', '>=': '<', '<': '>=', '<=': '>', '==': '!=', '!=': '=='}[op]
        if op == '>':
            return ('gt', d)
        if op == '>=':
            return ('ge', d)
        if op == '<':
            return ('gt', -d)
        if op == '<=':
            return ('ge', -d)
        if op == '==':
            return ('eq', d)
        return ('not', ('eq', d))
    if k == 'sym':
        p = ('true', e[1])
        return p if truth else ('not', p)
    raise Undecided(f"predicate {show(e)[:60]}")


def pred_equal(a, b):
    if a[0] != b[0] or len(a) != len(b):
        return False
    if a[0] == 'not':
        return pred_equal(a[1], b[1])
    if a[0] == 'true':
        return a[1] == b[1]
    return all(x == y for x, y in zip(a[1:], b[1:]))


def pred_neg(a, b):
    """a is the negation of b"""
    if a[0] == 'not':
        return pred_equal(a[1], b)
    if b[0] == 'not':
        return pred_equal(b[1], a)
    if a[0] == 'gt' and b[0] == 'ge':
        return a[1] == -b[1]
    if a[0] == 'ge' and b[0] == 'gt':
        return a[1] == -b[1]
    return False


def pred_text(p):
    if p[0] == 'not':
        return "not " + pred_text(p[1])
    if p[0] == 'close':
        return f"close({p[1]}, 0)"
    if p[0] in ('absgt', 'absge'):
        return f"|{p[1]}| {'>' if p[0] == 'absgt' else '>='} {p[2]}"
    if p[0] in ('gt', 'ge'):
        return f"{p[1]} {'>' if p[0] == 'gt' else '>='} 0"
    if p[0] == 'eq':
        return f"{p[1]} == 0"
    return str(p)


def consistent(conds):
    for i, a in enumerate(conds):
        for b in conds[i + 1:]:
            if pred_neg(a, b):
                return False
    return True


def dedupe(conds):
    out = []
    for c in conds:
        if not any(pred_equal(c, d) for d in out):
            out.append(c)
    return out


# ------------------------------------------------------------------ class model
class TClass:
    def __init__(self, mod, cdef):
        self.mod, self.cdef, self.name = mod, cdef, cdef.name
        self.methods = {m.name: m for m in cdef.body if isinstance(m, ast.FunctionDef)}
        self.params, self.constants = VectorDecl(), VectorDecl()
        self.attrs = {}         # self.<attr> assigned in __init__ -> list of ast values
        self.inner = {}         # self.BC -> class name
        self._read_init()

    def _read_init(self):
        init = self.methods.get("__init__")
        if init is None:
            return
        vecs = {}
        for st in ast.walk(init):
            if isinstance(st, ast.Assign) and len(st.targets) == 1:
                t, v = st.targets[0], st.value
                if isinstance(t, ast.Name) and isinstance(v, ast.Call) and dotted(v.func) == "Vector":
                    vecs[t.id] = read_vector(v)
                if isinstance(t, ast.Attribute) and isinstance(t.value, ast.Name) and t.value.id == "self":
                    self.attrs.setdefault(t.attr, []).append(v)
                    if isinstance(v, ast.Call) and isinstance(v.func, ast.Name):
                        self.inner[t.attr] = v.func.id
            if isinstance(st, ast.Call) and isinstance(st.func, ast.Attribute) and st.func.attr == "__init__":
                # super(C, self).__init__(name, params, constants)
                args = st.args[1:]
                kws = {k.arg: k.value for k in st.keywords}
                pv = args[0] if len(args) > 0 else kws.get("params")
                cv = args[1] if len(args) > 1 else kws.get("constants")
                for slot, node in (("params", pv), ("constants", cv)):
                    if node is None:
                        continue
                    if isinstance(node, ast.Name) and node.id in vecs:
                        setattr(self, slot, vecs[node.id])
                    elif isinstance(node, ast.Call) and dotted(node.func) == "Vector":
                        setattr(self, slot, read_vector(node))
                    else:
                        unk = VectorDecl()
                        unk.known = False
                        unk.node = node
                        setattr(self, slot, unk)


def read_vector(call):
    v = VectorDecl()
    v.node = call
    args = list(call.args)
    kws = {k.arg: k.value for k in call.keywords}
    slots = ["names", "defaults", "mins", "maxs", "check_bounds", "check_hitbounds", "accept_nan"]
    vals = {}
    for s, a in zip(slots, args):
        vals[s] = a
    vals.update(kws)
    if "names" in vals and isinstance(vals["names"], (ast.List, ast.Tuple)):
        v.names = [const_value(x) for x in vals["names"].elts]
    elif "names" in vals:
        v.known = False
    for s in ("defaults", "mins", "maxs"):
        n = vals.get(s)
        if isinstance(n, (ast.List, ast.Tuple)):
            setattr(v, s, list(n.elts))
    an = vals.get("accept_nan")
    v.accept_nan = bool(an is not None and const_value(an))
    return v


# ------------------------------------------------------------------ method evaluation
class MethodEval:
    def __init__(self, classes, tclass, depth=0):
        self.classes, self.tc, self.depth = classes, tclass, depth
        self.issues = []
        self.builder = ExprBuilder(self.resolve_attr, self.resolve_call)
        self.cur_bc = None

    # names ----------------------------------------------------------------
    def psyms(self, which):
        decl = self.tc.params if which == "params" else self.tc.constants
        if not decl.known:
            raise Undecided(f"declaration of self.{which} of {self.tc.name} is not a literal Vector([...]) call")
        return [('sym', f"{n}") for n in decl.names]

    def resolve_attr(self, d, env):
        if d in ("self.params.values", "self._params.values", "self.params._values"):
            ov = env.get("@params")
            return ('tuple', tuple(ov if ov is not None else self.psyms("params")))
        if d in ("self.constants.values", "self._constants.values"):
            return ('tuple', tuple(self.psyms("constants")))
        if d == "EPS":
            return ('sym', 'EPS')
        if d and "." not in d and d not in env:
            # any other module-level name bound once to a numeric literal is that number
            tree = getattr(self.tc.mod, "tree", None)
            binds = [n for n in (tree.body if tree is not None else []) if isinstance(n, ast.Assign) and any(isinstance(t, ast.Name) and t.id == d for t in n.targets)]
            if len(binds) == 1:
                v = binds[0].value
                neg = False
                if isinstance(v, ast.UnaryOp) and isinstance(v.op, ast.USub):
                    v, neg = v.operand, True
                if isinstance(v, ast.Constant) and isinstance(v.value, (int, float)) and not isinstance(v.value, bool):
                    return num(-v.value if neg else v.value)
        if d and d.startswith("self.") and d.count(".") == 1:
            a = d.split(".")[1]
            if a in self.tc.inner and self.tc.inner[a] in self.classes:
                return ('inner', a)
            if a in self.tc.params.names or a in self.tc.constants.names:
                return ('sym', a)
            if a in self.tc.attrs:
                return ('sym', a)
        return None

    def resolve_call(self, e, env, builder):
        d = dotted(e.func)
        if d and d.startswith("self.get_") and not e.args:
            m = self.tc.methods.get(d.split(".")[1])
            if m is not None:
                # getter: value of its last return
                sub_env = dict(env)
                for st in m.body:
                    if isinstance(st, ast.Assign) and len(st.targets) == 1 and isinstance(st.targets[0], ast.Name):
                        sub_env[st.targets[0].id] = builder.build(st.value, sub_env)
                    if isinstance(st, ast.Return) and st.value is not None:
                        return builder.build(st.value, sub_env)
        recv = None
        if isinstance(e.func, ast.Attribute) and e.func.attr in ("forward", "backward", "jacobian", "_forward", "_backward",
                                                                  "_jacobian") and len(e.args) == 1:
            # the receiver may be self.BC, a local alias of it, or a helper call returning it
            try:
                recv = builder.build(e.func.value, env)
            except Undecided:
                recv = None
        if recv is not None and isinstance(recv, tuple) and recv[0] == 'inner':
            attr, meth = recv[1], e.func.attr
            inner = self.tc.inner.get(attr)
            if inner in self.classes and len(e.args) == 1:
                if env.get("@bc:" + attr) is None:
                    self.issues.append(Issue("R01.d", f"{self.tc.name}: self.{attr}.{meth}(..) before parameter sync",
                                             f"self.{attr}.params.values is not assigned before this call in the same method: "
                                             f"the inner transform runs with stale parameters", e.lineno))
                    bc = None
                else:
                    bc = env["@bc:" + attr]
                arg = builder.build(e.args[0], env)
                ic = self.classes[inner]
                sub = MethodEval(self.classes, ic, self.depth + 1)
                cases = sub.cases("_" + meth.lstrip("_"), arg, bc)
                self.issues += sub.issues
                return ('case', tuple((c.conds, c.expr, c.domains) for c in cases))
        if d == "dutils.cast" and len(e.args) == 2:
            return builder.build(e.args[1], env)
        # helper methods of the same class and module-level helpers: inlined
        fdef, is_method = None, False
        if d and d.startswith("self.") and d.count(".") == 1 and d.split(".")[1] in self.tc.methods:
            fdef, is_method = self.tc.methods[d.split(".")[1]], True
        elif d and d.count(".") == 1 and d.split(".")[0] == self.tc.name and d.split(".")[1] in self.tc.methods:
            fdef = self.tc.methods[d.split(".")[1]]          # static helper called through the class
            is_method = not any(ast.unparse(x) == "staticmethod" for x in fdef.decorator_list)
        elif d and "." not in d and d in getattr(self.tc.mod, "funcs", {}):
            fdef = self.tc.mod.funcs[d]
        if fdef is not None:
            return self._inline(fdef, is_method, e, env, builder)
        return None

    def _inline(self, fdef, is_method, call, env, builder):
        if self.depth > 6:
            raise Undecided("helper nesting too deep")
        if any(ast.unparse(x) == "staticmethod" for x in fdef.decorator_list):
            is_method = False
        names = [a.arg for a in fdef.args.args]
        if is_method:
            names = names[1:]
        defaults = fdef.args.defaults
        sub = {k: v for k, v in env.items() if k.startswith("@")}
        vals = [builder.build(a, env) for a in call.args]
        kw = {k.arg: builder.build(k.value, env) for k in call.keywords if k.arg}
        for i, n in enumerate(names):
            if i < len(vals):
                sub[n] = vals[i]
            elif n in kw:
                sub[n] = kw[n]
            else:
                j = i - (len(names) - len(defaults))
                if j < 0:
                    raise Undecided(f"helper {fdef.name}: missing argument {n}")
                sub[n] = builder.build(defaults[j], {})
        saved, self.out = getattr(self, "out", []), []
        self.depth += 1
        try:
            self.walk(fdef.body, sub, [], {})
            got = self.out
        finally:
            self.out = saved
            self.depth -= 1
        if not got:
            raise Undecided(f"helper {fdef.name} returns nothing")
        changed = {k: v for k, v in sub.items() if k.startswith("@") and env.get(k) != v}
        if len(got) == 1 and not got[0].conds and not got[0].masks and not got[0].domains:
            env.update(changed)
            return got[0].expr
        if changed or any(c.masks for c in got):
            raise Undecided(f"helper {fdef.name}: branches with side effects")
        return ('case', tuple((c.conds, c.expr, c.domains) for c in got))

    # cases ------------------------------------------------------------------
    def cases(self, mname, xexpr=X, params_override=None):
        m = self.tc.methods.get(mname)
        if m is None:
            raise AnalysisError(f"transform.py: method {self.tc.name}.{mname} not found")
        argn = [a.arg for a in m.args.args][1:]
        env = {}
        if argn:
            env[argn[0]] = xexpr
        if params_override is not None:
            env["@params"] = tuple(params_override)
        self.out = []
        self.walk(m.body, env, [], {})
        return self.out

    def b(self, node, env):
        return self.builder.build(node, env)

    def walk(self, stmts, env, conds, masked):
        """masked: array name -> list of (polarity, maskexpr, conds, Expr)"""
        for i, s in enumerate(stmts):
            if isinstance(s, ast.Expr) and isinstance(s.value, ast.Constant):
                continue
            if isinstance(s, ast.Expr) and isinstance(s.value, ast.Call):
                # a call for its side effect (a validating getter that may raise): no effect on the formula
                try:
                    self.b(s.value, env)
                except Undecided:
                    pass
                continue
            if isinstance(s, ast.Assign) and len(s.targets) == 1:
                t = s.targets[0]
                if isinstance(t, ast.Name):
                    why = ""
                    try:
                        v = self.b(s.value, env)
                    except Undecided as ex:
                        # x * np.nan etc: a fresh masked array
                        v, why = None, str(ex)
                    if v is not None and self._is_nan_array(v):
                        masked[t.id] = []
                        env[t.id] = ('masked', t.id)
                    elif v is not None:
                        env[t.id] = v
                    elif why.startswith("free name"):
                        env.pop(t.id, None)
                        raise Undecided(why)             # the right-hand side reads a name that is bound nowhere
                    else:
                        env[t.id] = ('unknown', why[:60])   # bound, to something this reader does not model: a later read is undecided, not "free"
                    continue
                if isinstance(t, (ast.Tuple, ast.List)):
                    v = self.b(s.value, env)
                    if v[0] == 'tuple' and len(v[1]) == len(t.elts):
                        for n, x in zip(t.elts, v[1]):
                            if isinstance(n, ast.Name):
                                env[n.id] = x
                        continue
                    if v[0] == 'tuple':
                        self.issues.append(Issue("R01.d", f"{self.tc.name}: unpacking {ast.unparse(t)}",
                                                 f"{len(t.elts)} names for {len(v[1])} declared values", s.lineno))
                    raise Undecided(f"unpacking {ast.unparse(s)}")
                if isinstance(t, ast.Attribute):
                    d = self._canon_dotted(dotted(t), env)
                    if d and d.startswith("self.") and d.endswith(".params.values"):
                        attr = d.split(".")[1]
                        v = self.b(s.value, env)
                        if v[0] == 'tuple':
                            env["@bc:" + attr] = v[1]
                            continue
                    # partial synchronisation of the inner transform:  self.BC.lam = v / self.BC.params.lam = v
                    if d and d.startswith("self.") and d.count(".") in (2, 3):
                        parts = d.split(".")
                        attr, pname = parts[1], parts[-1]
                        inner = self.tc.inner.get(attr)
                        if inner in self.classes and pname in self.classes[inner].params.names and \
                                (len(parts) == 3 or parts[2] in ("params", "_params")):
                            self._partial_sync(attr, inner, pname, self.b(s.value, env), env, s.lineno)
                            continue
                    raise Undecided(f"attribute store {ast.unparse(t)}")
                if isinstance(t, ast.Subscript):
                    d = self._canon_dotted(dotted(t.value), env)
                    key = const_value(t.slice)
                    if d and d.startswith("self.") and isinstance(key, str):
                        parts = d.split(".")
                        attr = parts[1]
                        inner = self.tc.inner.get(attr)
                        if inner in self.classes and key in self.classes[inner].params.names and \
                                (len(parts) == 2 or parts[2] in ("params", "_params")):
                            self._partial_sync(attr, inner, key, self.b(s.value, env), env, s.lineno)
                            continue
                if isinstance(t, ast.Subscript) and isinstance(t.value, ast.Name) and t.value.id in masked:
                    pol, mexpr = self._mask(t.slice, env)
                    v = self.b(s.value, env)
                    masked[t.value.id].append((pol, mexpr, list(conds), v))
                    continue
                raise Undecided(f"assignment {ast.unparse(s)[:60]}")
            if isinstance(s, ast.If):
                test = self.b(s.test, env)
                if contains_x(test):
                    # data-dependent guard that raises (Softmax input checks): skip when the body only raises
                    if all(isinstance(x, ast.Raise) for x in s.body) and not s.orelse:
                        continue
                    # `if mask.all(): ... return e`: a shortcut taken when every element satisfies the mask.  Its cases hold under the
                    # mask (elementwise); the statements after it are the general program and are walked as if it were absent
                    am = self._all_mask(s.test, env)
                    if am is not None and not s.orelse and s.body and isinstance(s.body[-1], ast.Return):
                        pol, mexpr = am
                        saved = self.out
                        self.out = []
                        self.walk(list(s.body), dict(env), list(conds), {k: list(v) for k, v in masked.items()})
                        short = self.out
                        self.out = saved
                        for c in short:
                            if any(mask_equal(m2, mexpr) and p2 != pol for p2, m2 in c.masks):
                                continue
                            if not any(mask_equal(m2, mexpr) for p2, m2 in c.masks):
                                c.masks = tuple(c.masks) + ((pol, mexpr),)
                            c.shortcut = (pol, mexpr, s.lineno)
                            self.out.append(c)
                        continue
                    raise Undecided("data-dependent branch")
                rest = stmts[i + 1:]
                # raising guards on parameters (get_xmax) are not branches of the formula
                if all(isinstance(x, ast.Raise) for x in s.body) and not s.orelse:
                    continue
                # the same guard written the other way round: `if ok: return v` followed by an unconditional raise
                if _only_raises(list(s.orelse) + rest) and not _only_raises(list(s.body) + rest):
                    self.walk(list(s.body) + rest, env, conds, masked)
                    return
                if _only_raises(list(s.body) + rest) and not _only_raises(list(s.orelse) + rest):
                    self.walk(list(s.orelse) + rest, env, conds, masked)
                    return
                p_t, p_f = norm_pred(test, True), norm_pred(test, False)
                e1, m1 = dict(env), {k: list(v) for k, v in masked.items()}
                e2, m2 = dict(env), {k: list(v) for k, v in masked.items()}
                self.walk(list(s.body) + rest, e1, conds + [p_t], m1)
                self.walk(list(s.orelse) + rest, e2, conds + [p_f], m2)
                return
            if isinstance(s, ast.Return):
                if s.value is None:
                    return
                v = self.b(s.value, env)
                self.emit(v, conds, masked)
                return
            if isinstance(s, ast.Raise):
                return
            raise Undecided(f"statement {type(s).__name__}")

    def _canon_dotted(self, d, env):
        """`bc.params.values` with bc a local alias of self.BC -> `self.BC.params.values`"""
        if d and "." in d:
            root, rest = d.split(".", 1)
            v = env.get(root)
            if isinstance(v, tuple) and v and v[0] == 'inner':
                return f"self.{v[1]}.{rest}"
        return d

    def _partial_sync(self, attr, inner, pname, val, env, line):
        names = self.classes[inner].params.names
        cur = env.get("@bc:" + attr)
        if cur is None:
            cur = tuple(('sym', f"stale:{n}") for n in names)
        cur = list(cur)
        cur[names.index(pname)] = val
        env["@bc:" + attr] = tuple(cur)
        stale = [n for n, v in zip(names, cur) if v == ('sym', f"stale:{n}")]
        if stale:
            self.issues.append(Issue("R01.d", f"{self.tc.name}: partial sync of self.{attr} ({pname} only)",
                                     f"parameter(s) {stale} of the inner {inner} keep the value of an earlier call: "
                                     f"the result depends on the call history", line))

    def _all_mask(self, test, env):
        """(polarity, mask) when the test is `<mask>.all()` / `np.all(<mask>)` / `not (<mask>).any()`"""
        neg = False
        while isinstance(test, ast.UnaryOp) and isinstance(test.op, ast.Not):
            test, neg = test.operand, not neg
        if not isinstance(test, ast.Call) or test.keywords:
            return None
        if isinstance(test.func, ast.Attribute) and test.func.attr in ("all", "any") and not test.args and dotted(test.func.value) not in ("np", "numpy"):
            which, arg = test.func.attr, test.func.value
        elif dotted(test.func) in ("np.all", "np.any", "numpy.all", "numpy.any") and len(test.args) == 1:
            which, arg = dotted(test.func).split(".")[1], test.args[0]
        else:
            return None
        if (which == "all") == neg:
            # `not m.all()` / `m.any()`: some element ...: not a statement about every element, unless it is `not m.any()` = all(not m)
            if not (which == "any" and neg):
                return None
        try:
            pol, mexpr = self._mask(arg, env)
        except Undecided:
            return None
        if which == "any":
            pol = not pol
        return pol, mexpr

    def _is_nan_array(self, v):
        # x * nan  /  nan * x
        return v[0] == 'mul' and (v[1] == ('nan',) or v[2] == ('nan',))

    def _mask(self, sl, env):
        return mask_norm(self.b(sl, env))

    def emit(self, v, conds, masked):
        # expand masked arrays and inner-transform cases
        for conds2, masks2, doms2, e in expand(v, masked):
            allc = dedupe(list(conds) + list(conds2))
            if not consistent(allc):
                continue
            self.out.append(Case(allc, e, masks2, doms2))


def _only_raises(stmts):
    """the statement list ends in a raise on its only path (assignments of the message before it allowed, no return / branch)"""
    for st in stmts:
        if isinstance(st, ast.Raise):
            return True
        if isinstance(st, ast.Assign) or (isinstance(st, ast.Expr) and isinstance(st.value, ast.Constant)):
            continue
        return False
    return False


def mask_norm(e):
    """boolean data mask -> (polarity, canonical Expr): negations peeled, `a < b` read as not `a >= b`, `b > a` as `a < b`"""
    pol = True
    while isinstance(e, tuple) and e and e[0] == 'not':
        e, pol = e[1], not pol
    if isinstance(e, tuple) and e and e[0] == 'cmp':
        op, a, b = e[1], e[2], e[3]
        # data on the left
        if not contains_x(a) and contains_x(b):
            a, b = b, a
            op = {'<': '>', '<=': '>=', '>': '<', '>=': '<=', '==': '==', '!=': '!='}[op]
        if op == '<':
            op, pol = '>=', not pol
        elif op == '<=':
            op, pol = '>', not pol
        elif op == '!=':
            op, pol = '==', not pol
        e = ('cmp', op, a, b)
    return pol, e


def mask_equal(a, b):
    """two normalised data masks denote the same set (comparison of the same canonical difference)"""
    if a == b:
        return True
    if not (isinstance(a, tuple) and isinstance(b, tuple) and a and b and a[0] == b[0] == 'cmp' and a[1] == b[1]):
        return False
    from .formula import Canon
    try:
        c = Canon()
        return c.ratio(('sub', a[2], a[3])) == c.ratio(('sub', b[2], b[3]))
    except Exception:
        return False


def expand(v, masked):
    """-> list of (conds, masks, domains, Expr) with 'case' and 'masked' nodes distributed outwards"""
    if not isinstance(v, tuple):
        return [((), (), (), v)]
    k = v[0]
    if k == 'masked':
        out = []
        for pol, mexpr, conds, e in masked.get(v[1], []):
            for c2, m2, d2, e2 in expand(e, masked):
                out.append((tuple(conds) + c2, ((pol, mexpr),) + m2, d2, e2))
        return out
    if k == 'case':
        out = []
        for conds, e, doms in v[1]:
            for c2, m2, d2, e2 in expand(e, masked):
                out.append((tuple(conds) + c2, m2, tuple(doms) + d2, e2))
        return out
    if k == 'where' and (v[3] == ('nan',)):
        out = []
        for c2, m2, d2, e2 in expand(v[2], masked):
            out.append((c2, m2, (v[1],) + d2, e2))
        return out
    if k == 'where' and not contains_x(v[1]):
        # conditional expression on a parameter predicate: the same two branches an if / else would give
        try:
            p_t, p_f = norm_pred(v[1], True), norm_pred(v[1], False)
        except Undecided:
            p_t = None
        if p_t is not None:
            out = []
            for pr, sub in ((p_t, v[2]), (p_f, v[3])):
                for c2, m2, d2, e2 in expand(sub, masked):
                    cc = dedupe([pr] + list(c2))
                    if consistent(cc):
                        out.append((tuple(cc), m2, d2, e2))
            return out
    if k in ('x', 'sym', 'num', 'nan'):
        return [((), (), (), v)]
    # generic node: cartesian product over children
    kids = []
    for c in v[1:]:
        if isinstance(c, tuple) and c and isinstance(c[0], str):
            kids.append(expand(c, masked))
        elif isinstance(c, tuple):
            # tuple of Exprs (call args)
            alts = [((), (), (), ())]
            for a in c:
                if isinstance(a, tuple) and a and isinstance(a[0], str):
                    nxt = []
                    for c1, m1, d1, acc in alts:
                        for c2, m2, d2, e2 in expand(a, masked):
                            nxt.append((c1 + c2, m1 + m2, d1 + d2, acc + (e2,)))
                    alts = nxt
                else:
                    alts = [(c1, m1, d1, acc + (a,)) for c1, m1, d1, acc in alts]
            kids.append(alts)
        else:
            kids.append([((), (), (), c)])
    out = [((), (), (), ())]
    for alts in kids:
        nxt = []
        for c1, m1, d1, acc in out:
            for c2, m2, d2, e2 in alts:
                cc = dedupe(list(c1) + list(c2))
                if consistent(cc):
                    nxt.append((tuple(cc), m1 + m2, d1 + d2, acc + (e2,)))
        out = nxt
    return [(c, m, d, (k,) + acc) for c, m, d, acc in out]


def load_classes(mod):
    classes = {}
    for name, cdef in mod.classes.items():
        classes[name] = TClass(mod, cdef)
    return classes
