"""Exact multivariate polynomials over Fractions (prototype)."""
from fractions import Fraction


class Poly:
    __slots__ = ("t",)

    def __init__(self, terms=None):
        self.t = {}
        if terms:
            for m, c in terms.items():
                if c != 0:
                    self.t[m] = c

    # constructors
    @staticmethod
    def const(c):
        return Poly({(): c})

    @staticmethod
    def sym(name):
        return Poly({((name, 1),): 1})

    def is_const(self):
        return all(m == () for m in self.t)

    def cval(self):
        return Fraction(self.t.get((), 0))

    def symbols(self):
        s = set()
        for m in self.t:
            for n, _ in m:
                s.add(n)
        return s

    def __add__(self, o):
        o = _p(o)
        r = dict(self.t)
        for m, c in o.t.items():
            r[m] = r.get(m, 0) + c
        return Poly(r)

    __radd__ = __add__

    def __neg__(self):
        return Poly({m: -c for m, c in self.t.items()})

    def __sub__(self, o):
        return self + (-_p(o))

    def __rsub__(self, o):
        return _p(o) - self

    def __mul__(self, o):
        o = _p(o)
        r = {}
        for m1, c1 in self.t.items():
            for m2, c2 in o.t.items():
                d = dict(m1)
                for n, e in m2:
                    d[n] = d.get(n, 0) + e
                m = tuple(sorted(d.items()))
                r[m] = r.get(m, 0) + c1 * c2
        return Poly(r)

    __rmul__ = __mul__

    def degree_in(self, s):
        d = 0
        for m in self.t:
            for n, e in m:
                if n == s:
                    d = max(d, e)
        return d

    def split_linear(self, s):
        """self = A*s + B with A, B free of s; None if degree != 1."""
        if self.degree_in(s) != 1:
            return None
        A, B = {}, {}
        for m, c in self.t.items():
            dm = dict(m)
            if s in dm:
                del dm[s]
                A[tuple(sorted(dm.items()))] = c
            else:
                B[m] = c
        return Poly(A), Poly(B)

    def subst(self, s, p):
        p = _p(p)
        r = Poly()
        for m, c in self.t.items():
            term = Poly.const(c)
            for n, e in m:
                base = p if n == s else Poly.sym(n)
                for _ in range(e):
                    term = term * base
            r = r + term
        return r

    def __eq__(self, o):
        return isinstance(o, Poly) and self.t == o.t

    def __hash__(self):
        return hash(tuple(sorted(self.t.items())))

    def __repr__(self):
        if not self.t:
            return "0"
        out = []
        for m, c in sorted(self.t.items(), key=lambda kv: (len(kv[0]), kv[0])):
            ms = "*".join(n if e == 1 else f"{n}^{e}" for n, e in m)
            if not ms:
                out.append(str(c))
            elif c == 1:
                out.append(ms)
            elif c == -1:
                out.append("-" + ms)
            else:
                out.append(f"{c}*{ms}")
        return " + ".join(out).replace("+ -", "- ")


def _p(x):
    return x if isinstance(x, Poly) else Poly.const(x)
