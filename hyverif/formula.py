"""Expression IR and canonical forms (engine E7).

* Ratio: exact rational functions of parameter symbols (Poly / Poly), compared by cross-multiplication.
* Expr: small tuple-based IR built from Python `ast` (local definitions substituted forward).
* Chain: an expression in which the data variable occurs once, as a composition of affine maps and
  invertible unary operations; normalisation, inverse, derivative monomial.

Nothing is evaluated numerically: every comparison is an identity of canonical forms."""
import ast
from fractions import Fraction

from .poly import Poly, _p


class Undecided(Exception):
    """construct outside the vocabulary of the rule (never a violation by itself)"""


# --------------------------------------------------------------------------- Ratio
class Ratio:
    __slots__ = ("n", "d")

    def __init__(self, n, d=None):
        self.n = _p(n)
        self.d = _p(1) if d is None else _p(d)
        if not self.d.t:
            raise ZeroDivisionError("ratio with zero denominator")
        if self.d.is_const():
            c = self.d.cval()
            self.n = self.n * Fraction(1, 1) * (Fraction(1) / c)
            self.d = _p(1)

    @staticmethod
    def sym(name):
        return Ratio(Poly.sym(name))

    @staticmethod
    def const(c):
        return Ratio(Poly.const(Fraction(c)))

    def __add__(self, o):
        o = _r(o)
        if self.d == o.d:
            return Ratio(self.n + o.n, self.d)
        return Ratio(self.n * o.d + o.n * self.d, self.d * o.d)

    __radd__ = __add__

    def __neg__(self):
        return Ratio(-self.n, self.d)

    def __sub__(self, o):
        return self + (-_r(o))

    def __rsub__(self, o):
        return _r(o) - self

    def __mul__(self, o):
        o = _r(o)
        return Ratio(self.n * o.n, self.d * o.d)

    __rmul__ = __mul__

    def inv(self):
        if not self.n.t:
            raise ZeroDivisionError("inverse of zero ratio")
        return Ratio(self.d, self.n)

    def __truediv__(self, o):
        return self * _r(o).inv()

    def __rtruediv__(self, o):
        return _r(o) * self.inv()

    def __eq__(self, o):
        o = _r(o)
        return self.n * o.d == o.n * self.d

    def __hash__(self):
        return 0

    def is_zero(self):
        return not self.n.t

    def is_const(self):
        return self.n.is_const() and self.d.is_const()

    def cval(self):
        return self.n.cval() / self.d.cval()

    def symbols(self):
        return self.n.symbols() | self.d.symbols()

    def __repr__(self):
        if self.d == _p(1):
            return f"{self.n}"
        return f"({self.n})/({self.d})"


def _r(x):
    return x if isinstance(x, Ratio) else Ratio(_p(Fraction(x)) if not isinstance(x, Poly) else x)


# --------------------------------------------------------------------------- Expr IR
# ('x',)                      the data variable
# ('sym', name)               a parameter / constant symbol
# ('num', Fraction)
# ('add'|'sub'|'mul'|'div'|'pow', a, b) ; ('neg', a)
# ('call', fname, (args...))  fname normalised: log exp sqrt sinh arcsinh tanh abs sign expm1 log1p sum mean ...
# ('where', cond, a, b) ; ('cmp', op, a, b) ; ('and', a, b) ; ('or', a, b) ; ('not', a)
# ('nan',)
X = ('x',)

NPFUNCS = {"log", "exp", "sqrt", "sinh", "arcsinh", "tanh", "abs", "sign", "expm1", "log1p", "power", "where",
           "sum", "mean", "std", "nansum", "nanmean", "prod", "corrcoef", "sort", "ones_like", "zeros_like",
           "atleast_1d", "atleast_2d", "isclose", "isnan", "maximum", "minimum", "cosh", "square", "reciprocal",
           "nanmedian", "median", "argsort", "nanstd", "nanvar", "unique", "concatenate", "isfinite", "nanmax", "nanmin",
           "max", "min", "diff", "percentile", "nanpercentile", "clip", "round", "floor", "ceil", "column_stack", "linspace",
           "absolute", "log10", "log2", "var", "cumsum", "arange", "float64", "asarray", "array", "any", "all"}
MATHFUNCS = {"log", "exp", "sqrt", "sinh", "asinh", "tanh", "fabs", "pow", "cosh", "expm1", "log1p"}
ALIASES = {"asinh": "arcsinh", "fabs": "abs", "absolute": "abs"}


def num(v):
    return ('num', Fraction(v).limit_denominator(10**12) if isinstance(v, float) else Fraction(v))


def kids(e):
    """child expressions of an Expr node"""
    if not isinstance(e, tuple) or not e:
        return ()
    k = e[0]
    if k in ('x', 'sym', 'num', 'nan', 'masked'):
        return ()
    if k == 'call':
        return tuple(e[2])
    if k == 'tuple':
        return tuple(e[1])
    if k == 'cmp':
        return (e[2], e[3])
    if k == 'case':
        return tuple(c[1] for c in e[1])
    return tuple(c for c in e[1:] if isinstance(c, tuple))


def contains_x(e):
    if e == X:
        return True
    return any(contains_x(c) for c in kids(e))


def count_x(e):
    if e == X:
        return 1
    return sum(count_x(c) for c in kids(e))


class ExprBuilder:
    """python ast -> Expr with an environment of local definitions"""

    def __init__(self, resolve_attr=None, resolve_call=None, float_syms=None):
        self.resolve_attr = resolve_attr        # (dotted name) -> Expr or None
        self.resolve_call = resolve_call
        self.float_syms = float_syms or {}      # literal float -> symbol name (e.g. EPS)

    def build(self, e, env):
        if isinstance(e, ast.Constant):
            if isinstance(e.value, bool):
                return num(int(e.value))
            if isinstance(e.value, (int, float)):
                if e.value != e.value:
                    return ('nan',)
                return num(e.value)
            if isinstance(e.value, str):
                return ('sym', repr(e.value))
            if e.value is None:
                return ('sym', 'None')
            raise Undecided(f"constant {e.value!r}")
        if isinstance(e, ast.Name):
            if e.id in env:
                v_ = env[e.id]
                if isinstance(v_, tuple) and v_ and v_[0] == 'unknown':
                    raise Undecided(f"value of {e.id} not understood ({v_[1]})")      # bound, but by an expression outside the vocabulary
                return v_
            if self.resolve_attr is not None:
                r = self.resolve_attr(e.id, env)
                if r is not None:
                    return r
            raise Undecided(f"free name {e.id}")
        if isinstance(e, ast.Attribute):
            from .pyfront import dotted
            d = dotted(e)
            if d in ("np.nan", "numpy.nan", "math.nan", "np.NaN"):
                return ('nan',)
            if d in ("np.inf", "math.inf"):
                return ('sym', 'inf')
            if d in ("np.pi", "math.pi"):
                return ('sym', 'pi')
            if self.resolve_attr is not None and d is not None:
                r = self.resolve_attr(d, env)
                if r is not None:
                    return r
            if isinstance(e.value, (ast.Call, ast.Subscript)) or (isinstance(e.value, ast.Name) and e.value.id in env):
                return ('call', 'attr:' + e.attr, (self.build(e.value, env),))
            raise Undecided(f"attribute {ast.unparse(e)}")
        if isinstance(e, ast.UnaryOp):
            a = self.build(e.operand, env)
            if isinstance(e.op, ast.USub):
                return ('neg', a)
            if isinstance(e.op, ast.UAdd):
                return a
            if isinstance(e.op, ast.Not):
                return ('not', a)
            if isinstance(e.op, ast.Invert):
                return ('not', a)
            raise Undecided("unary op")
        if isinstance(e, ast.BinOp):
            a, b = self.build(e.left, env), self.build(e.right, env)
            op = {ast.Add: 'add', ast.Sub: 'sub', ast.Mult: 'mul', ast.Div: 'div', ast.Pow: 'pow',
                  ast.BitAnd: 'and', ast.BitOr: 'or'}.get(type(e.op))
            if op is None:
                raise Undecided(f"binary op {type(e.op).__name__}")
            return (op, a, b)
        if isinstance(e, ast.BoolOp):
            vals = [self.build(v, env) for v in e.values]
            op = 'and' if isinstance(e.op, ast.And) else 'or'
            r = vals[0]
            for v in vals[1:]:
                r = (op, r, v)
            return r
        if isinstance(e, ast.Compare):
            if len(e.ops) != 1:
                # a < b < c
                parts = []
                left = e.left
                for op, c in zip(e.ops, e.comparators):
                    parts.append(self._cmp(op, self.build(left, env), self.build(c, env)))
                    left = c
                r = parts[0]
                for p_ in parts[1:]:
                    r = ('and', r, p_)
                return r
            return self._cmp(e.ops[0], self.build(e.left, env), self.build(e.comparators[0], env))
        if isinstance(e, ast.IfExp):
            return ('where', self.build(e.test, env), self.build(e.body, env), self.build(e.orelse, env))
        if isinstance(e, ast.Call):
            return self.call(e, env)
        if isinstance(e, ast.Subscript):
            base = self.build(e.value, env)
            # masked read a[mask] where mask is a known mask name: transparent (the store carries the mask)
            sl = e.slice
            if isinstance(sl, ast.Name) and sl.id in env and isinstance(env[sl.id], tuple) and env[sl.id][0] in ('cmp', 'not', 'and', 'or'):
                return base
            if isinstance(sl, ast.UnaryOp) and isinstance(sl.op, ast.Invert):
                return base
            if isinstance(base, tuple) and base[0] == 'tuple' and isinstance(sl, ast.Constant) and isinstance(sl.value, int):
                if not -len(base[1]) <= sl.value < len(base[1]):
                    raise Undecided(f"element {sl.value} of a {len(base[1])}-tuple (declaration of the vector not understood)")
                return base[1][sl.value]
            # constant index / slice of a computed value: an uninterpreted projection
            if isinstance(sl, ast.Constant) or (isinstance(sl, ast.Tuple) and all(isinstance(x, ast.Constant) for x in sl.elts)):
                return ('call', 'getitem[' + ast.unparse(sl).replace(" ", "") + ']', (base,))
            if isinstance(sl, ast.Name) and sl.id in env:
                return ('call', 'getitem', (base, env[sl.id]))
            raise Undecided(f"subscript {ast.unparse(e)}")
        if isinstance(e, (ast.Tuple, ast.List)):
            return ('tuple', tuple(self.build(x, env) for x in e.elts))
        raise Undecided(f"expression {type(e).__name__}")

    def _cmp(self, op, a, b):
        o = {ast.Gt: '>', ast.GtE: '>=', ast.Lt: '<', ast.LtE: '<=', ast.Eq: '==', ast.NotEq: '!='}.get(type(op))
        if o is None:
            raise Undecided("comparison operator")
        return ('cmp', o, a, b)

    def call(self, e, env):
        from .pyfront import dotted
        d = dotted(e.func)
        args = e.args
        if d in ("abs",):
            return ('call', 'abs', (self.build(args[0], env),))
        if d in ("float", "np.float64", "int"):
            return self.build(args[0], env)
        if d in ("min", "max") and len(args) == 2:
            return ('call', d, (self.build(args[0], env), self.build(args[1], env)))
        if d and "." in d:
            modname, fn = d.rsplit(".", 1)
            if (modname in ("np", "numpy") and fn in NPFUNCS) or (modname == "math" and fn in MATHFUNCS):
                fn = ALIASES.get(fn, fn)
                if fn in ("power", "pow"):
                    return ('pow', self.build(args[0], env), self.build(args[1], env))
                if fn == "square":
                    return ('pow', self.build(args[0], env), num(2))
                if fn == "reciprocal":
                    return ('div', num(1), self.build(args[0], env))
                if fn == "where" and len(args) == 3:
                    return ('where', self.build(args[0], env), self.build(args[1], env), self.build(args[2], env))
                if fn in ("atleast_1d", "atleast_2d", "float64", "asarray", "array"):
                    return self.build(args[0], env)
                if fn == "ones_like":
                    return num(1)
                if fn == "zeros_like":
                    return num(0)
                if fn == "log10":
                    return ('div', ('call', 'log', (self.build(args[0], env),)), ('call', 'log', (num(10),)))
                if fn == "log2":
                    return ('div', ('call', 'log', (self.build(args[0], env),)), ('call', 'log', (num(2),)))
                kws = tuple(sorted((k.arg, ast.unparse(k.value)) for k in e.keywords if k.arg))
                a = tuple(self.build(x, env) for x in args)
                return ('call', fn, a) if not kws else ('call', fn, a, kws)
        if self.resolve_call is not None:
            r = self.resolve_call(e, env, self)
            if r is not None:
                return r
        if isinstance(e.func, ast.Attribute) and e.func.attr in ("astype", "copy", "flatten", "ravel", "squeeze") :
            return self.build(e.func.value, env)        # value-preserving conversions
        if isinstance(e.func, ast.Attribute) and e.func.attr in ("sum", "mean", "min", "max", "std", "any", "all") and not e.args:
            kws = tuple(sorted((k.arg, ast.unparse(k.value)) for k in e.keywords if k.arg))
            base = self.build(e.func.value, env)
            return ('call', e.func.attr, (base,)) if not kws else ('call', e.func.attr, (base,), kws)
        raise Undecided(f"call {ast.unparse(e.func)}")


# --------------------------------------------------------------------------- parameter expressions -> Ratio
def to_ratio(e, atoms=None):
    """Expr without X -> Ratio over symbols; transcendental sub-expressions become opaque atoms"""
    if contains_x(e):
        raise Undecided("data variable in a parameter expression")
    k = e[0]
    if k == 'num':
        return Ratio.const(e[1])
    if k == 'sym':
        return Ratio.sym(e[1])
    if k == 'neg':
        return -to_ratio(e[1], atoms)
    if k in ('add', 'sub', 'mul', 'div'):
        a, b = to_ratio(e[1], atoms), to_ratio(e[2], atoms)
        if k == 'add':
            return a + b
        if k == 'sub':
            return a - b
        if k == 'mul':
            return a * b
        if b.is_zero():
            raise Undecided("division by the zero ratio")
        return a / b
    if k == 'pow':
        b = to_ratio(e[2], atoms)
        if b.is_const() and b.cval().denominator == 1 and abs(b.cval()) <= 6:
            a = to_ratio(e[1], atoms)
            n = int(b.cval())
            r = Ratio.const(1)
            for _ in range(abs(n)):
                r = r * a
            return r if n >= 0 else r.inv()
        return Ratio.sym(atom_name(e))
    if k == 'call':
        return Ratio.sym(atom_name(e))
    raise Undecided(f"parameter expression {k}")


def atom_name(e):
    return "⟨" + show(e) + "⟩"


def show(e):
    k = e[0]
    if k == 'x':
        return "x"
    if k == 'sym':
        return e[1]
    if k == 'num':
        return str(e[1])
    if k == 'nan':
        return "nan"
    if k == 'neg':
        return f"-({show(e[1])})"
    if k in ('add', 'sub', 'mul', 'div', 'pow', 'and', 'or'):
        o = {'add': '+', 'sub': '-', 'mul': '*', 'div': '/', 'pow': '**', 'and': '&', 'or': '|'}[k]
        return f"({show(e[1])}{o}{show(e[2])})"
    if k == 'call':
        return f"{e[1]}({','.join(show(a) for a in e[2])})"
    if k == 'cmp':
        return f"({show(e[2])}{e[1]}{show(e[3])})"
    if k == 'where':
        return f"where({show(e[1])},{show(e[2])},{show(e[3])})"
    if k == 'not':
        return f"~{show(e[1])}"
    if k == 'tuple':
        return "(" + ",".join(show(a) for a in e[1]) + ")"
    return str(e)


# --------------------------------------------------------------------------- chains
# ops: ('aff', a: Ratio, b: Ratio)   z -> a z + b
#      ('pow', c: Ratio)             z -> z ** c
#      ('log',) ('exp',) ('sinh',) ('arcsinh',)
#      ('odd', (ops...))             z -> sign(z) * h(|z|)   (odd extension of chain h)
INVERSE = {'log': 'exp', 'exp': 'log', 'sinh': 'arcsinh', 'arcsinh': 'sinh'}


def simplify(e):
    """light structural simplification that keeps X occurring once: u*u -> u**2, where(c, a, nan) -> a"""
    if not isinstance(e, tuple) or e[0] in ('x', 'sym', 'num', 'nan'):
        return e
    k = e[0]
    if k == 'where':
        c, a, b = e[1], simplify(e[2]), simplify(e[3])
        if b == ('nan',):
            return a
        if a == ('nan',):
            return b
        return ('where', c, a, b)
    if k == 'call':
        args = tuple(simplify(a) for a in e[2])
        return (k, e[1], args) + tuple(e[3:])
    if k == 'tuple':
        return ('tuple', tuple(simplify(a) for a in e[1]))
    if k == 'cmp':
        return ('cmp', e[1], simplify(e[2]), simplify(e[3]))
    parts = tuple(simplify(c) if isinstance(c, tuple) else c for c in e[1:])
    e = (k,) + parts
    if k == 'mul' and parts[0] == parts[1] and contains_x(parts[0]):
        return ('pow', parts[0], num(2))
    if k == 'mul' and contains_x(parts[0]) and contains_x(parts[1]):
        # z**a * z**b -> z**(a+b) ; z * z**b
        ba, ea = _base_exp(parts[0])
        bb, eb = _base_exp(parts[1])
        if ba == bb:
            return ('pow', ba, ('add', ea, eb))
    if k == 'div' and contains_x(parts[0]) and contains_x(parts[1]):
        ba, ea = _base_exp(parts[0])
        bb, eb = _base_exp(parts[1])
        if ba == bb:
            return ('pow', ba, ('sub', ea, eb))
    return e


def _base_exp(e):
    if e[0] == 'pow' and not contains_x(e[2]):
        return e[1], e[2]
    return e, num(1)


def _replace(e, old, new):
    if e == old:
        return new
    if not isinstance(e, tuple) or not e:
        return e
    k = e[0]
    if k in ('x', 'sym', 'num', 'nan'):
        return e
    if k == 'call':
        return (k, e[1], tuple(_replace(a, old, new) for a in e[2])) + tuple(e[3:])
    if k == 'tuple':
        return (k, tuple(_replace(a, old, new) for a in e[1]))
    if k == 'cmp':
        return (k, e[1], _replace(e[2], old, new), _replace(e[3], old, new))
    return (k,) + tuple(_replace(c, old, new) if isinstance(c, tuple) else c for c in e[1:])


def odd_extension(e):
    """sign(A) * g(abs(A))  ->  (A, g with a hole)  or None"""
    if e[0] != 'mul':
        return None
    for s_, g in ((e[1], e[2]), (e[2], e[1])):
        if s_[0] == 'call' and s_[1] == 'sign' and len(s_[2]) == 1 and contains_x(s_[2][0]):
            a = s_[2][0]
            hole = ('call', 'abs', (a,))
            g2 = _replace(g, hole, X)
            if count_x(g2) >= 1 and not contains_x(_replace(g2, X, ('num', Fraction(0)))) and count_x(a) == 1:
                return a, g2
    return None


def to_chain(e):
    """Expr with exactly one occurrence of X -> list of ops (innermost first)"""
    e = simplify(e)
    oe = odd_extension(e)
    if oe is not None:
        a, g = oe
        return normalise(_chain(a) + [('odd', tuple(to_chain(g)))])
    n = count_x(e)
    if n != 1:
        raise Undecided(f"data variable occurs {n} times in {show(e)[:80]}")
    return normalise(_chain(e))


def _chain(e):
    if e == X:
        return []
    k = e[0]
    if k == 'neg':
        return _chain(e[1]) + [('aff', Ratio.const(-1), Ratio.const(0))]
    if k in ('add', 'sub', 'mul', 'div'):
        a, b = e[1], e[2]
        xa = contains_x(a)
        inner, other = (a, b) if xa else (b, a)
        c = to_ratio(other)
        ch = _chain(inner)
        if k == 'add':
            return ch + [('aff', Ratio.const(1), c)]
        if k == 'sub':
            return ch + ([('aff', Ratio.const(1), -c)] if xa else [('aff', Ratio.const(-1), c)])
        if k == 'mul':
            return ch + [('aff', c, Ratio.const(0))]
        if xa:
            if c.is_zero():
                raise Undecided("division by zero ratio")
            return ch + [('aff', c.inv(), Ratio.const(0))]
        return ch + [('pow', Ratio.const(-1)), ('aff', c, Ratio.const(0))]
    if k == 'pow':
        a, b = e[1], e[2]
        if contains_x(a) and not contains_x(b):
            return _chain(a) + [('pow', to_ratio(b))]
        if contains_x(b) and not contains_x(a):
            # c ** z = exp(z log c)
            return _chain(b) + [('aff', Ratio.sym(atom_name(('call', 'log', (a,)))), Ratio.const(0)), ('exp',)]
        raise Undecided("power with the data variable on both sides")
    if k == 'call':
        fn, args = e[1], e[2]
        if len(args) == 1 and contains_x(args[0]):
            ch = _chain(args[0])
            if fn in ('log', 'exp', 'sinh', 'arcsinh', 'abs'):
                return ch + [(fn,)]
            if fn == 'sqrt':
                return ch + [('pow', Ratio.const(Fraction(1, 2)))]
            if fn == 'expm1':
                return ch + [('exp',), ('aff', Ratio.const(1), Ratio.const(-1))]
            if fn == 'log1p':
                return ch + [('aff', Ratio.const(1), Ratio.const(1)), ('log',)]
        raise Undecided(f"call {fn} in a chain")
    raise Undecided(f"{k} in a chain")


def _aff_id(op):
    return op[0] == 'aff' and op[1] == Ratio.const(1) and op[2].is_zero()


def normalise(ops):
    ops = list(ops)
    changed = True
    while changed:
        changed = False
        out = []
        for op in ops:
            if _aff_id(op) or (op[0] == 'pow' and op[1] == Ratio.const(1)):
                changed = True
                continue
            if out:
                p = out[-1]
                if p[0] == 'aff' and op[0] == 'aff':
                    # z -> a1 z + b1 -> a2 (a1 z + b1) + b2
                    out[-1] = ('aff', op[1] * p[1], op[1] * p[2] + op[2])
                    changed = True
                    continue
                if p[0] == 'pow' and op[0] == 'pow':
                    out[-1] = ('pow', p[1] * op[1])
                    changed = True
                    continue
                if p[0] in INVERSE and op[0] == INVERSE[p[0]]:
                    out.pop()
                    changed = True
                    continue
                if p[0] == 'pow' and op[0] == 'log':
                    out[-1] = ('log',)
                    out.append(('aff', p[1], Ratio.const(0)))
                    changed = True
                    continue
                if p[0] == 'exp' and op[0] == 'pow':
                    out[-1] = ('aff', op[1], Ratio.const(0))
                    out.append(('exp',))
                    changed = True
                    continue
                # pure scaling through an integer / sign-safe power: (k z)**c with k = -1 and c = -1
                if p[0] == 'aff' and p[2].is_zero() and op[0] == 'pow' and op[1] == Ratio.const(-1):
                    out[-1] = ('pow', Ratio.const(-1))
                    out.append(('aff', p[1].inv(), Ratio.const(0)))
                    changed = True
                    continue
                if p[0] == 'aff' and p[2].is_zero() and p[1] == Ratio.const(-1) and op[0] in ('sinh', 'arcsinh'):
                    out[-1] = op
                    out.append(p)
                    changed = True
                    continue
            out.append(op)
        ops = out
    return ops


def inverse(ops):
    out = []
    for op in reversed(ops):
        if op[0] == 'aff':
            a, b = op[1], op[2]
            if a.is_zero():
                raise Undecided("constant map has no inverse")
            out.append(('aff', a.inv(), -b / a))
        elif op[0] == 'pow':
            if op[1].is_zero():
                raise Undecided("power 0 has no inverse")
            out.append(('pow', op[1].inv()))
        elif op[0] in INVERSE:
            out.append((INVERSE[op[0]],))
        elif op[0] == 'odd':
            out.append(('odd', tuple(inverse(list(op[1])))))
        else:
            raise Undecided(f"no inverse for {op[0]}")
    return normalise(out)


def ops_equal(a, b):
    if len(a) != len(b):
        return False
    for x, y in zip(a, b):
        if x[0] != y[0]:
            return False
        if x[0] == 'aff':
            if not (x[1] == y[1] and x[2] == y[2]):
                return False
        elif x[0] == 'pow':
            if not x[1] == y[1]:
                return False
        elif x[0] == 'odd':
            if not ops_equal(list(x[1]), list(y[1])):
                return False
    return True


def show_chain(ops):
    out = []
    for op in ops:
        if op[0] == 'aff':
            out.append(f"({op[1]})·+({op[2]})")
        elif op[0] == 'pow':
            out.append(f"pow[{op[1]}]")
        elif op[0] == 'odd':
            out.append(f"odd<{show_chain(list(op[1]))}>")
        else:
            out.append(op[0])
    return "[" + ", ".join(out) + "]"


# --------------------------------------------------------------------------- derivative monomials
class Mono:
    """coeff * prod(atom ** exponent); atoms are normalised chains (values of sub-expressions of x) or
    ('fn', name, chain) for cosh/exp values"""

    def __init__(self, coeff=None):
        self.coeff = Ratio.const(1) if coeff is None else coeff
        self.atoms = []       # list of [atom, exponent Ratio]

    def mul_atom(self, atom, expo):
        for it in self.atoms:
            if atom_equal(it[0], atom):
                it[1] = it[1] + expo
                if it[1].is_zero():
                    self.atoms.remove(it)
                return
        if not expo.is_zero():
            self.atoms.append([atom, expo])

    def mul(self, other):
        self.coeff = self.coeff * other.coeff
        for a, e in other.atoms:
            self.mul_atom(a, e)

    def power(self, c):
        # coeff**c only for integer c
        if not (c.is_const() and c.cval().denominator == 1):
            if not self.coeff == Ratio.const(1):
                raise Undecided("non-integer power of a coefficient")
            n = None
        else:
            n = int(c.cval())
        r = Mono()
        if n is not None:
            k = Ratio.const(1)
            for _ in range(abs(n)):
                k = k * self.coeff
            r.coeff = k if n >= 0 else k.inv()
        for a, e in self.atoms:
            r.atoms.append([a, e * c])
        return r

    def equal(self, o):
        if not self.coeff == o.coeff:
            return False
        if len(self.atoms) != len(o.atoms):
            return False
        for a, e in self.atoms:
            hit = [e2 for a2, e2 in o.atoms if atom_equal(a, a2)]
            if len(hit) != 1 or not hit[0] == e:
                return False
        return True

    def __repr__(self):
        s = f"{self.coeff}"
        for a, e in self.atoms:
            s += f" · {show_atom(a)}^({e})"
        return s


def atom_equal(a, b):
    if a[0] != b[0]:
        return False
    if a[0] == 'val':
        return ops_equal(a[1], b[1])
    return a[1] == b[1] and ops_equal(a[2], b[2])


def show_atom(a):
    if a[0] == 'val':
        return "v" + show_chain(a[1])
    return f"{a[1]}∘{show_chain(a[2])}"


def derivative(ops):
    """d/dx of the chain as a Mono"""
    return canon_mono(derivative_at(ops, []))


def derivative_at(ops, prefix):
    """derivative of chain `ops` with respect to its own input, the input being the value of chain `prefix`"""
    m = Mono()
    pre = list(prefix)
    for op in ops:
        val = ('val', normalise(list(pre)))
        if op[0] == 'aff':
            m.coeff = m.coeff * op[1]
        elif op[0] == 'pow':
            m.coeff = m.coeff * op[1]
            m.mul_atom(val, op[1] - 1)
        elif op[0] == 'log':
            m.mul_atom(val, Ratio.const(-1))
        elif op[0] == 'exp':
            m.mul_atom(('fn', 'exp', normalise(list(pre))), Ratio.const(1))
        elif op[0] == 'sinh':
            m.mul_atom(('fn', 'cosh', normalise(list(pre))), Ratio.const(1))
        elif op[0] == 'arcsinh':
            inner = normalise(list(pre) + [('pow', Ratio.const(2)), ('aff', Ratio.const(1), Ratio.const(1))])
            m.mul_atom(('val', inner), Ratio.const(Fraction(-1, 2)))
        elif op[0] == 'odd':
            # d/dz sign(z) h(|z|) = h'(|z|)
            m.mul(derivative_at(list(op[1]), list(pre) + [('abs',)]))
        else:
            raise Undecided(f"derivative of {op[0]}")
        pre.append(op)
    return m


def canon_mono(m):
    """atoms whose chain ends with an affine map are re-expressed so that equal values compare equal:
    v[.., aff(a,b)] with b == 0 is a * v[..]"""
    r = Mono(m.coeff)
    for a, e in m.atoms:
        if a[0] == 'val' and a[1] and a[1][-1][0] == 'aff' and a[1][-1][2].is_zero() and \
                e.is_const() and e.cval().denominator == 1:
            k = a[1][-1][1]
            n = int(e.cval())
            kk = Ratio.const(1)
            for _ in range(abs(n)):
                kk = kk * k
            r.coeff = r.coeff * (kk if n >= 0 else kk.inv())
            rest = a[1][:-1]
            if rest:
                r.mul_atom(('val', rest), e)
            else:
                r.mul_atom(('val', []), e)
        elif a[0] == 'val' and not a[1]:
            r.mul_atom(('val', []), e)
        else:
            r.mul_atom(a, e)
    return r


def to_mono(e):
    """Expr (a product / quotient of powers of single-occurrence sub-expressions and parameter factors) -> Mono"""
    e = simplify(e)
    if not contains_x(e):
        return Mono(to_ratio(e))
    k = e[0]
    if k == 'mul':
        a, b = to_mono(e[1]), to_mono(e[2])
        a.mul(b)
        return canon_mono(a)
    if k == 'div':
        a, b = to_mono(e[1]), to_mono(e[2])
        a.mul(b.power(Ratio.const(-1)))
        return canon_mono(a)
    if k == 'neg':
        a = to_mono(e[1])
        a.coeff = -a.coeff
        return a
    if k == 'pow' and not contains_x(e[2]):
        c = to_ratio(e[2])
        return canon_mono(to_mono(e[1]).power(c))
    if k == 'call' and len(e[2]) == 1:
        fn = e[1]
        if fn == 'sqrt':
            return canon_mono(to_mono(e[2][0]).power(Ratio.const(Fraction(1, 2))))
        if fn in ('exp', 'cosh'):
            m = Mono()
            m.mul_atom(('fn', fn, to_chain(e[2][0])), Ratio.const(1))
            return m
    # a single value
    m = Mono()
    m.mul_atom(('val', to_chain(e)), Ratio.const(1))
    return canon_mono(m)


# --------------------------------------------------------------------------- canonical ratios with interned atoms
class Canon:
    """Expr -> Ratio in which every uninterpreted application (reducers, library calls, transcendental functions)
    is an atom; two applications are the same atom iff they have the same head and Ratio-equal arguments."""

    def __init__(self):
        self.atoms = []      # (head, args tuple of Ratio|str, symbol)

    def atom(self, head, args):
        for h, a, sym in self.atoms:
            if h == head and len(a) == len(args) and all(self._eq(x, y) for x, y in zip(a, args)):
                return sym
        sym = f"⟨{head}#{len(self.atoms)}⟩"
        self.atoms.append((head, tuple(args), sym))
        return sym

    @staticmethod
    def _eq(x, y):
        if isinstance(x, Ratio) and isinstance(y, Ratio):
            return x == y
        return x == y

    def ratio(self, e):
        k = e[0]
        if k == 'num':
            return Ratio.const(e[1])
        if k == 'sym':
            return Ratio.sym(e[1])
        if k == 'x':
            return Ratio.sym('x')
        if k == 'nan':
            return Ratio.sym('nan')
        if k == 'neg':
            return -self.ratio(e[1])
        if k in ('add', 'sub', 'mul', 'div'):
            a, b = self.ratio(e[1]), self.ratio(e[2])
            if k == 'add':
                return a + b
            if k == 'sub':
                return a - b
            if k == 'mul':
                return a * b
            if b.is_zero():
                raise Undecided("division by the zero ratio")
            return a / b
        if k == 'pow':
            b = self.ratio(e[2])
            a = self.ratio(e[1])
            if b.is_const() and b.cval().denominator == 1 and abs(b.cval()) <= 8:
                n = int(b.cval())
                r = Ratio.const(1)
                for _ in range(abs(n)):
                    r = r * a
                return r if n >= 0 else r.inv()
            if b.is_const() and b.cval() == Fraction(1, 2):
                return Ratio.sym(self.atom('sqrt', [a]))
            return Ratio.sym(self.atom('pow', [a, b]))
        if k == 'call':
            args = [self.ratio(a) for a in e[2]]
            if e[1] == 'sqrt' and len(args) == 1 and args[0].is_const():
                c = args[0].cval()
                import math
                if c >= 0 and c.denominator == 1 and math.isqrt(int(c)) ** 2 == int(c):
                    return Ratio.const(math.isqrt(int(c)))
            extra = [str(x) for x in e[3:]]
            return Ratio.sym(self.atom(e[1], args + extra))
        if k == 'tuple':
            return Ratio.sym(self.atom('tuple', [self.ratio(a) for a in e[1]]))
        if k in ('cmp', 'and', 'or', 'not', 'where'):
            parts = []
            for c in e[1:]:
                parts.append(self.ratio(c) if isinstance(c, tuple) else c)
            return Ratio.sym(self.atom(k, parts))
        raise Undecided(f"expression {k}")
