"""MF rule: malloc results are null-checked before use, freed exactly once on every path
to every return, and not used after free.  Syntax-directed walk over the structured C AST
with a small typestate per allocated variable."""
from .cfront import strip, text


class Res:
    def __init__(self, ok, construct, detail, line):
        self.ok, self.construct, self.detail, self.line = ok, construct, detail, line


class St:
    def __init__(self):
        self.alloc = set()      # may be allocated
        self.unchk = set()      # allocated, not yet null-checked
        self.freed = set()      # freed on every path (must)
        self.mfreed = set()     # freed on some path (may)
        self.dead = False

    def copy(self):
        s = St()
        s.alloc, s.unchk, s.freed, s.mfreed, s.dead = set(self.alloc), set(self.unchk), set(self.freed), set(self.mfreed), self.dead
        return s


def join(a, b):
    if a.dead:
        return b
    if b.dead:
        return a
    s = St()
    s.alloc = a.alloc | b.alloc
    s.unchk = a.unchk | b.unchk
    s.freed = a.freed & b.freed
    s.mfreed = a.mfreed | b.mfreed
    return s


def _is_malloc(e):
    while e.get("kind") in ("ImplicitCastExpr", "CStyleCastExpr", "ParenExpr"):
        e = e["inner"][0]
    if e.get("kind") == "CallExpr":
        c = strip(e["inner"][0])
        if c.get("kind") == "DeclRefExpr" and c["referencedDecl"]["name"] in ("malloc", "calloc", "realloc"):
            return True
    return False


def _name(e):
    e = strip(e)
    while e.get("kind") in ("CStyleCastExpr", "ImplicitCastExpr", "ParenExpr"):
        e = strip(e["inner"][0])
    if e.get("kind") == "DeclRefExpr":
        return e["referencedDecl"]["name"]
    return None


def check(fn):
    blocks = {}          # var -> line of allocation
    problems = {}        # var -> list of (detail, line)

    def problem(v, msg, line):
        problems.setdefault(v, []).append((msg, line))

    def null_checked_vars(cond, acc):
        """variables compared with NULL/0 (or negated) anywhere in a condition"""
        c = strip(cond)
        k = c.get("kind")
        if k == "BinaryOperator" and c.get("opcode") in ("==", "!="):
            a, b = c["inner"]
            for x, y in ((a, b), (b, a)):
                n = _name(x)
                yy = strip(y)
                while yy.get("kind") in ("CStyleCastExpr", "ImplicitCastExpr", "ParenExpr"):
                    yy = strip(yy["inner"][0])
                if n and (yy.get("kind") in ("GNUNullExpr", "CXXNullPtrLiteralExpr") or
                          (yy.get("kind") == "IntegerLiteral" and yy.get("value") == "0")):
                    acc.add((n, c["opcode"]))
        if k == "UnaryOperator" and c.get("opcode") == "!":
            n = _name(c["inner"][0])
            if n:
                acc.add((n, "=="))
        for ch in c.get("inner", []):
            if ch.get("kind"):
                null_checked_vars(ch, acc)
        return acc

    def uses(e, st, in_cond=False):
        """record uses of allocated variables in expression e"""
        k = e.get("kind")
        if k == "CallExpr":
            c = strip(e["inner"][0])
            cname = c["referencedDecl"]["name"] if c.get("kind") == "DeclRefExpr" else None
            if cname == "free" and len(e["inner"]) == 2:
                v = _name(e["inner"][1])
                if v in blocks or v in st.alloc:
                    if v in st.mfreed:
                        problem(v, "freed twice on some path", e.get("_line"))
                    st.freed.add(v)
                    st.mfreed.add(v)
                    return
            for a in e["inner"][1:]:
                uses(a, st)
            return
        if k == "DeclRefExpr":
            v = e["referencedDecl"]["name"]
            if v in st.alloc and not in_cond:
                if v in st.mfreed:
                    problem(v, "used after free", e.get("_line"))
                elif v in st.unchk:
                    problem(v, "malloc result used before the null check", e.get("_line"))
            return
        if k == "BinaryOperator" and e.get("opcode") in ("==", "!="):
            # comparisons against NULL are not uses
            acc = null_checked_vars(e, set())
            if acc:
                return
        if k == "BinaryOperator" and e.get("opcode") == "=":
            lhs, rhs = e["inner"]
            v = _name(lhs)
            if v and _is_malloc(rhs):
                alloc(v, e.get("_line"), st)
                return
        for ch in e.get("inner", []):
            if ch.get("kind"):
                uses(ch, st, in_cond)

    def alloc(v, line, st):
        if v in st.alloc and v not in st.freed:
            problem(v, "re-allocated while the previous block may still be live (leak)", line)
        blocks.setdefault(v, line)
        st.alloc.add(v)
        st.unchk.add(v)
        st.freed.discard(v)
        st.mfreed.discard(v)

    loops = []

    def ex(s, st):
        if st.dead:
            return st
        k = s.get("kind")
        if k is None or k == "NullStmt":
            return st
        if k == "CompoundStmt":
            for c in s.get("inner", []):
                st = ex(c, st)
            return st
        if k == "DeclStmt":
            for d in s.get("inner", []):
                if d.get("kind") == "VarDecl":
                    init = [c for c in d.get("inner", []) if c.get("kind")]
                    if init and _is_malloc(init[0]):
                        alloc(d["name"], d.get("_line"), st)
                    elif init:
                        uses(init[0], st)
            return st
        if k == "IfStmt":
            inner = s["inner"]
            cond, then = inner[0], inner[1]
            els = inner[2] if len(inner) > 2 else None
            chk = null_checked_vars(cond, set())
            uses(cond, st, in_cond=bool(chk))
            s1, s2 = st.copy(), st.copy()
            # in the branch where a variable is known non-null it counts as checked
            eqs = {v for v, op in chk if op == "=="}
            nes = {v for v, op in chk if op == "!="}
            s1.unchk -= nes
            s2.unchk -= eqs
            # `if (p == NULL)` / `if (!p)` as the whole condition: in that branch p holds no block (the allocation failed), nothing is to be freed
            c0 = strip(cond)
            while c0.get("kind") in ("ParenExpr", "ImplicitCastExpr"):
                c0 = strip(c0["inner"][0])
            whole = (c0.get("kind") == "BinaryOperator" and c0.get("opcode") in ("==", "!=")) or (c0.get("kind") == "UnaryOperator" and c0.get("opcode") == "!")
            if whole and len(chk) == 1:
                (v_, op_), = chk
                tgt = s1 if op_ == "==" else s2
                tgt.alloc.discard(v_)
                tgt.unchk.discard(v_)
            # inside the failure branch the pointers may be NULL: only free() is a legal use, and free(NULL) is fine
            s1 = ex(then, s1)
            if els is not None:
                s2 = ex(els, s2)
            return join(s1, s2)
        if k == "ReturnStmt":
            for c in s.get("inner", []):
                uses(c, st)
            for v in sorted(st.alloc):
                if v not in st.freed:
                    problem(v, f"not freed on the path to the return at line {s.get('_line')}", s.get("_line"))
            st = st.copy()
            st.dead = True
            return st
        if k in ("BreakStmt", "ContinueStmt"):
            loops[-1].append(st.copy())
            st = st.copy()
            st.dead = True
            return st
        if k in ("ForStmt", "WhileStmt"):
            if k == "ForStmt":
                init, _cv, cond, inc, body = s["inner"]
                if init.get("kind"):
                    st = ex(init, st) if init["kind"] == "DeclStmt" else (uses(init, st), st)[1]
            else:
                cond, body = s["inner"]
                inc = {}
            head = st
            for _ in range(2):
                cur = head.copy()
                if cond.get("kind"):
                    uses(cond, cur)
                loops.append([])
                end = ex(body, cur)
                exits = loops.pop()
                for e2 in exits:
                    end = join(end, e2) if not end.dead else e2
                if inc.get("kind") and not end.dead:
                    uses(inc, end)
                head = join(head, end)
            return head
        uses(s, st)
        return st

    end = ex(fn["body"], St())
    if not end.dead:
        for v in sorted(end.alloc):
            if v not in end.freed:
                problem(v, "not freed at the end of the function", fn.get("line"))
    out = []
    for v, line in sorted(blocks.items()):
        ps = problems.get(v, [])
        if ps:
            msg, ln = ps[0]
            out.append(Res(False, f"malloc block `{v}`", "; ".join(dict.fromkeys(m for m, _ in ps)), ln))
        else:
            out.append(Res(True, f"malloc block `{v}`", "null-checked before use, freed once on every path", line))
    return out
