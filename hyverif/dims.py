"""Row / column dimension inference over evaluated Python expressions of the grid code (an effect-free type analysis).

Kinds:  ('idx', 'row'|'col')   a row / column index (or array of them)
        ('cnt', 'row'|'col')   a number of rows / columns
        ('rc', 2) / ('rc', 1)  an (n, 2) array / one pair of (row, column) values, as returned by Grid.cell2rowcol
A conflict is recorded when a row quantity is compared, clamped (min / max) or offset against a column quantity, or when
a cell number is built as row * nrows + col.  Products of a row and a column count (cell totals) are not conflicts."""
from .formula import show

REDUCE = {"min", "max", "amin", "amax", "nanmin", "nanmax", "mean", "median"}
PAIRWISE = {"minimum", "maximum", "py.min", "py.max", "f:min", "f:max", "min2", "max2", "clip"}


def _is_num(e):
    if e[0] == 'num':
        return True
    if e[0] == 'neg':
        return _is_num(e[1])
    return False


class Dims:
    def __init__(self):
        self.conflicts = []
        self.memo = {}

    def note(self, e, a, b, why):
        msg = f"{why}: {show(e)[:110]}"
        if msg not in self.conflicts:
            self.conflicts.append(msg)

    def of(self, e):
        if not isinstance(e, tuple) or not e or not isinstance(e[0], str):
            return None
        k = id(e)
        if k in self.memo:
            return self.memo[k]
        r = self._of(e)
        self.memo[k] = r
        return r

    def _unify(self, e, a, b, why):
        if a is None:
            return b
        if b is None:
            return a
        if a[0] == 'rc' or b[0] == 'rc':
            return a if a[0] == 'rc' else b
        if a[1] != b[1]:
            self.note(e, a, b, why)
        return a

    def _of(self, e):
        k = e[0]
        if k == 'call':
            name, args = e[1], e[2]
            kws = dict(e[3]) if len(e) > 3 else {}
            sub = [self.of(a) for a in args]
            for v in kws.values():
                self.of(v)
            if name == 'attr:nrows':
                return ('cnt', 'row')
            if name == 'attr:ncols':
                return ('cnt', 'col')
            if name in ('.cell2rowcol', 'cell2rowcol'):
                return ('rc', 2)
            base = name.lstrip('.')
            if base in REDUCE and args:
                d0 = sub[0]
                if d0 and d0[0] == 'rc':
                    ax = kws.get('axis', args[1] if len(args) > 1 and not name.startswith('.') else (args[1] if len(args) > 1 else None))
                    if d0 == ('rc', 2) and ax is not None and ax[0] == 'num' and int(ax[1]) == 0:
                        return ('rc', 1)
                    return None
                if len(args) == 1 or name.startswith('.'):
                    if base in ('min', 'max') and len(args) >= 2 and not kws:
                        r = None
                        for a, d in zip(args, sub):
                            if not _is_num(a):
                                r = self._unify(e, r, d, "row and column quantities clamped against each other")
                        return r
                    return d0
            if base in ('min', 'max', 'minimum', 'maximum') or name in PAIRWISE:
                r = None
                for a, d in zip(args, sub):
                    if not _is_num(a):
                        r = self._unify(e, r, d, "row and column quantities clamped against each other")
                return r
            if name == 'getitem' and len(args) == 2:
                d0, ix = sub[0], args[1]
                if d0 and d0[0] == 'rc':
                    if d0 == ('rc', 1):
                        if ix[0] == 'num' and int(ix[1]) in (0, 1, -1, -2):
                            return ('idx', 'row' if int(ix[1]) in (0, -2) else 'col')
                        return None
                    if ix[0] == 'num':
                        return ('rc', 1)
                    if ix[0] == 'tuple' and len(ix[1]) == 2 and ix[1][1][0] == 'num' and int(ix[1][1][1]) in (0, 1, -1, -2):
                        return ('idx', 'row' if int(ix[1][1][1]) in (0, -2) else 'col')
                    if ix[0] == 'call' and ix[1] == 'slice':
                        return ('rc', 2)
                    return None
                if args[0][0] == 'call' and args[0][1] in ('where', 'nonzero', 'unravel_index') and ix[0] == 'num' and \
                        (int(ix[1]) == 1 or args[0][1] == 'unravel_index'):
                    return ('idx', 'row' if int(ix[1]) == 0 else 'col')
                if args[0][0] == 'call' and args[0][1] in ('where', 'nonzero') and ix[0] == 'num' and int(ix[1]) == 0:
                    return None
                if d0 is not None and d0[0] != 'rc':
                    return d0
                return None
            if name in ('astype', 'copy', '.copy', 'asarray', 'array', 'int', 'py.int', 'f:int', 'atleast_1d', 'int64', 'ravel', '.ravel',
                        'abs', 'floor', 'ceil', 'round') and args:
                return sub[0]
            if name == 'shape' and len(args) == 2 and args[1][0] == 'num':
                return None
            return None
        if k in ('add', 'sub'):
            a, b = self.of(e[1]), self.of(e[2])
            if _is_num(e[2]):
                return a
            if _is_num(e[1]):
                return b
            # cell number: row * ncols + col
            for x, dx, y, dy in ((e[1], a, e[2], b), (e[2], b, e[1], a)):
                if x[0] == 'mul' and k == 'add':
                    f1, f2 = self.of(x[1]), self.of(x[2])
                    pair = [(f1, f2), (f2, f1)]
                    for i_, c_ in pair:
                        if i_ and c_ and i_[0] == 'idx' and c_[0] == 'cnt':
                            if dy and dy[0] == 'idx':
                                if not (i_[1] == 'row' and c_[1] == 'col' and dy[1] == 'col'):
                                    self.note(e, i_, c_, f"cell number built as {i_[1]} index * number of {c_[1]}s + {dy[1]} index")
                            return None
            if (a and a[0] == 'rc') or (b and b[0] == 'rc'):
                return a if (a and a[0] == 'rc') else b
            if a and b:
                if a[1] != b[1]:
                    self.note(e, a, b, "row and column quantities added / subtracted")
                    return None
                if k == 'sub' and a[0] == 'idx' and b[0] == 'idx':
                    return ('cnt', a[1])
                return a if a[0] == 'idx' else b
            return a or b
        if k == 'cmp':
            a, b = self.of(e[2]), self.of(e[3])
            if a and b and a[0] != 'rc' and b[0] != 'rc' and a[1] != b[1]:
                self.note(e, a, b, "row quantity compared with a column quantity")
            return None
        if k in ('mul', 'div', 'pow'):
            self.of(e[1])
            self.of(e[2])
            return None
        if k == 'neg':
            return self.of(e[1])
        if k == 'where':
            self.of(e[1])
            return self._unify(e, self.of(e[2]), self.of(e[3]), "row and column quantities selected into one value")
        if k in ('and', 'or', 'not', 'band', 'bor'):
            for x in e[1:]:
                self.of(x)
            return None
        if k == 'tuple':
            for x in e[1]:
                self.of(x)
            return None
        return None


def check_paths(paths):
    """conflict messages over every value, condition and effect of the evaluated paths"""
    d = Dims()
    for p in paths:
        for v in p.env.values():
            if isinstance(v, tuple):
                d.of(v)
        for c, _t in p.conds:
            d.of(c)
        for e in p.effects:
            for x in (e.key, e.val):
                if isinstance(x, tuple):
                    d.of(x)
        if isinstance(p.value, tuple):
            d.of(p.value)
    return d.conflicts


def rule(rep, rid, mod, rel, select, floor=1):
    """rows and columns are not confused in the functions of `mod` chosen by select(class name | '', function name)"""
    import ast
    from . import pq
    from .formula import Undecided
    rep.rule(rid, "row and column quantities are not mixed: no row index / count compared, clamped or offset against a column one; cell = row * ncols + col")
    n = 0
    for c in mod.tree.body:
        if isinstance(c, ast.FunctionDef):
            fs = [("", c)]
        elif isinstance(c, ast.ClassDef):
            fs = [(c.name, f) for f in c.body if isinstance(f, ast.FunctionDef)]
        else:
            continue
        for cn, f in fs:
            if not select(cn, f.name):
                continue
            q = f"{cn}.{f.name}" if cn else f.name
            try:
                pe = pq.PEval()
                pe.maxpaths = 3000
                paths = pe.run(f)
            except (Undecided, RecursionError) as ex:
                rep.notes.append(f"{rid}: {q} not evaluated ({str(ex)[:60]})")
                continue
            n += 1
            cf = check_paths(paths)
            for msg in cf:
                rep.violation(rid, rel, q, f"{q}: rows and columns kept apart", msg, line=f.lineno)
            if not cf:
                rep.proved(rid, rel, q, f"{q}: rows and columns kept apart", line=f.lineno)
    rep.floor(f"{rid}: functions typed for rows / columns", n, floor)


# which functions of gis/grid.py belong to which property (by the anchors of properties.jsonl)
SCOPE = {
    "C06": lambda cn, fn: cn == "Catchment" or fn.startswith("delineate"),
    "C07": lambda cn, fn: cn == "Grid",
    "C11": lambda cn, fn: fn in ("accumulate",),
    "C13": lambda cn, fn: cn == "Grid",
    "C15": lambda cn, fn: fn in ("cells_inside_polygon",),
    "C16": lambda cn, fn: (cn == "Catchment" and fn in ("intersect", "compute_area", "isin", "extent")) or fn in ("voronoi",),
}
FLOORS = {"C06": 10, "C07": 25, "C11": 1, "C13": 25, "C15": 1, "C16": 2}


def property_rule(rep, pid):
    if pid not in SCOPE:
        return
    from .pyfront import Mod
    mod = Mod(rep.repo, "gis/grid.py")
    rule(rep, f"R{pid[1:]}.rc", mod, "gis/grid.py", SCOPE[pid], FLOORS[pid])
