"""Reader for the three Cython shims (engine E4).

The .pyx files use a tiny subset of Cython: `cdef extern from 'h':` blocks with C
prototypes, and `def name(typed params):` bodies made of `cdef` declarations,
`assert` lines, assignments, one call of an extern function whose pointer arguments
are `<T*> np.PyArray_DATA(arr)` or local `cdef T x[k]` arrays, and `return`.
Cython is not installed, so this is a purpose-built reader: anything outside the
subset raises AnalysisError (exit 2), never a silent pass.
"""
import ast
import glob
import os
import re

from .core import AnalysisError
from .poly import Poly

CTYPES = ("long long", "double", "int")


def norm_ctype(t):
    t = t.replace("const ", "").strip()
    t = re.sub(r"\s+", " ", t)
    t = t.replace(" *", "*").replace("* ", "*")
    return t


class ShimParam:
    def __init__(self, name, kind, ctype, ndim=0, mode=None, notnone=False):
        self.name, self.kind, self.ctype, self.ndim, self.mode, self.notnone = name, kind, ctype, ndim, mode, notnone

    def __repr__(self):
        return f"{self.kind}:{self.ctype}{'['+str(self.ndim)+']' if self.kind == 'arr' else ''} {self.name}"


class Shim:
    def __init__(self):
        self.module = self.name = self.file = None
        self.line = 0
        self.params = {}        # ordered name -> ShimParam
        self.cdef_arrays = {}   # local C arrays name -> (ctype, n)
        self.cdef_scalars = {}  # name -> ctype
        self.body = []          # python ast statements
        self.kernel = None      # extern function called
        self.call = None        # ast.Call
        self.cargs = []         # per kernel argument: ("ptr", arrayname, casttype) | ("expr", ast)
        self.asserts = []       # ast expressions
        self.locals = {}        # name -> ast expr (simple assignments before the call)
        self.reductions = []    # arrays reduced with .min()/.max() before the call (=> non empty)
        self.returns_call = False


def _split_params(s):
    out, depth, cur = [], 0, ""
    for ch in s:
        if ch in "[(":
            depth += 1
        elif ch in "])":
            depth -= 1
        if ch == "," and depth == 0:
            out.append(cur)
            cur = ""
        else:
            cur += ch
    if cur.strip():
        out.append(cur)
    return [" ".join(p.split()) for p in out]


def parse_externs(src, path):
    """-> name -> {"header":..., "ret":..., "params":[(ctype, name)]}"""
    out = {}
    for m in re.finditer(r"^cdef extern from '([^']+)':\n((?:[ \t]+.*\n|\n)+)", src, re.M):
        hdr, block = m.group(1), m.group(2)
        block = re.sub(r"#.*", "", block)
        for pm in re.finditer(r"([\w ]+?)\s+(\w+)\s*\(([^)]*)\)\s*;?", block):
            ret, name, plist = pm.group(1).strip(), pm.group(2), pm.group(3)
            params = []
            for p in _split_params(plist):
                p = p.strip()
                pm2 = re.match(r"^(.*?)(\w+)$", p)
                if not pm2:
                    raise AnalysisError(f"{path}: cannot read extern parameter `{p}` of {name}")
                params.append((norm_ctype(pm2.group(1)), pm2.group(2)))
            out[name] = {"header": hdr, "ret": norm_ctype(ret), "params": params}
    return out


def parse_pyx(path):
    src = open(path).read()
    externs = parse_externs(src, path)
    if not externs:
        raise AnalysisError(f"{path}: no extern block found")
    shims = []
    defs = list(re.finditer(r"^def (\w+)\((.*?)\):[ \t]*\n", src, re.S | re.M))
    for i, d in enumerate(defs):
        name = d.group(1)
        if name == "__cinit__":
            continue
        sh = Shim()
        sh.name, sh.file = name, path
        sh.module = os.path.basename(path).replace(".pyx", "")
        sh.line = src[:d.start()].count("\n") + 1
        for p in _split_params(d.group(2)):
            m = re.match(r"np\.ndarray\[(?P<t>[\w ]+), *ndim=(?P<nd>\d), *mode='(?P<mode>\w)'\] +(?P<n>\w+)(?P<nn> not None)?$", p)
            if m:
                sh.params[m["n"]] = ShimParam(m["n"], "arr", norm_ctype(m["t"]), int(m["nd"]), m["mode"], bool(m["nn"]))
                continue
            m = re.match(r"(?P<t>long long|double|int) +(?P<n>\w+)$", p)
            if m:
                sh.params[m["n"]] = ShimParam(m["n"], "scalar", m["t"])
                continue
            raise AnalysisError(f"{path}:{sh.line}: parameter `{p}` of shim {name} is outside the reader's subset")
        end = defs[i + 1].start() if i + 1 < len(defs) else len(src)
        body = src[d.end():end]
        for m in re.finditer(r"^\s*cdef ([\w ]+?) (\w+)\[(\d+)\]\s*$", body, re.M):
            sh.cdef_arrays[m.group(2)] = (norm_ctype(m.group(1)), int(m.group(3)))
        for m in re.finditer(r"^\s*cdef ([\w ]+?) ((?:\w+(?:, *)?)+)\s*$", body, re.M):
            for v in m.group(2).split(","):
                sh.cdef_scalars[v.strip()] = norm_ctype(m.group(1))
        lines = body.split("\n")
        lines = ["" if re.match(r"^\s*cdef ", ln) else ln for ln in lines]
        body2 = "\n".join(lines)
        casts = {}

        def castrep(m):
            # remember the cast type by position marker
            k = f"__cast{len(casts)}__"
            casts[k] = norm_ctype(m.group(1))
            return k + "+"
        body2 = re.sub(r"<\s*([\w ]+\*)\s*>\s*", castrep, body2)
        try:
            tree = ast.parse("def f():\n" + body2)
        except SyntaxError as e:
            raise AnalysisError(f"{path}: body of shim {name} is outside the reader's subset: {e}")
        sh.body = tree.body[0].body
        kcalls = []
        for st in sh.body:
            for n in ast.walk(st):
                if isinstance(n, ast.Call) and isinstance(n.func, ast.Name) and n.func.id in externs:
                    kcalls.append((st, n))
        if len(kcalls) != 1:
            raise AnalysisError(f"{path}: shim {name} has {len(kcalls)} kernel calls (expected exactly 1)")
        st, call = kcalls[0]
        sh.call, sh.kernel = call, call.func.id
        sh.returns_call = isinstance(st, ast.Return)
        for a in call.args:
            # <T*> np.PyArray_DATA(x)  was rewritten to  __castK__ + np.PyArray_DATA(x)
            if isinstance(a, ast.BinOp) and isinstance(a.left, ast.Name) and a.left.id in casts:
                inner = a.right
                if isinstance(inner, ast.Call) and ast.unparse(inner.func) == "np.PyArray_DATA" and \
                        len(inner.args) == 1 and isinstance(inner.args[0], ast.Name):
                    sh.cargs.append(("ptr", inner.args[0].id, casts[a.left.id]))
                    continue
                raise AnalysisError(f"{path}: shim {name}: pointer argument `{ast.unparse(a)}` outside the subset")
            if isinstance(a, ast.Name) and a.id in sh.cdef_arrays:
                sh.cargs.append(("ptr", a.id, sh.cdef_arrays[a.id][0] + "*"))
                continue
            sh.cargs.append(("expr", a))
        # statements before the call
        for s2 in sh.body:
            if s2 is st:
                break
            if isinstance(s2, ast.Assert):
                sh.asserts.append(s2.test)
            elif isinstance(s2, ast.Assign) and len(s2.targets) == 1 and isinstance(s2.targets[0], ast.Name):
                sh.locals[s2.targets[0].id] = s2.value
            elif isinstance(s2, ast.Assign):
                pass
            for n in ast.walk(s2):
                if isinstance(n, ast.Call) and isinstance(n.func, ast.Attribute) and n.func.attr in ("min", "max"):
                    b = n.func.value
                    while isinstance(b, ast.Subscript):
                        b = b.value
                    if isinstance(b, ast.Name) and b.id in sh.params:
                        sh.reductions.append(b.id)
        shims.append(sh)
    return externs, shims


def shape_sym(arr, k):
    return f"{arr}.s{k}"


def shape_poly(e, sh, depth=0):
    """python ast expression -> Poly over shape symbols `arr.sK` and scalar parameters; None when unknown"""
    if isinstance(e, ast.Constant) and isinstance(e.value, int) and not isinstance(e.value, bool):
        return Poly.const(e.value)
    if isinstance(e, ast.Name):
        if e.id in sh.locals and depth < 5:
            return shape_poly(sh.locals[e.id], sh, depth + 1)
        p = sh.params.get(e.id)
        if p is not None and p.kind == "scalar" and p.ctype in ("int", "long long"):
            return Poly.sym(e.id)
        return None
    if isinstance(e, ast.Subscript) and isinstance(e.value, ast.Attribute) and e.value.attr == "shape" \
            and isinstance(e.value.value, ast.Name) and isinstance(e.slice, ast.Constant):
        a = e.value.value.id
        if a in sh.params and sh.params[a].kind == "arr" and 0 <= e.slice.value < sh.params[a].ndim:
            return Poly.sym(shape_sym(a, e.slice.value))
        return None
    if isinstance(e, ast.BinOp):
        a, b = shape_poly(e.left, sh, depth), shape_poly(e.right, sh, depth)
        if a is None or b is None:
            return None
        if isinstance(e.op, ast.Add):
            return a + b
        if isinstance(e.op, ast.Sub):
            return a - b
        if isinstance(e.op, ast.Mult):
            return a * b
    if isinstance(e, ast.UnaryOp) and isinstance(e.op, ast.USub):
        a = shape_poly(e.operand, sh, depth)
        return None if a is None else -a
    return None


def load_all(repo):
    paths = sorted(glob.glob(os.path.join(repo, "src", "hydrodiy", "*", "c_hydrodiy_*.pyx")))
    if len(paths) < 3:
        raise AnalysisError(f"expected 3 Cython shims, found {len(paths)}")
    out = {}
    for p in paths:
        ext, shims = parse_pyx(p)
        out[os.path.basename(p).replace(".pyx", "")] = {"path": p, "externs": ext, "shims": shims}
    return out
