"""Semantic queries over (normalised) kernel functions: comparisons that do not depend on how an expression or a
condition is spelled.

  parse("nx<0 || nx>=ncols")        C-like text -> Expr (the rule tables are written in this notation)
  same_expr(a, b)                   arithmetic equality of two expressions (rational normal form over uninterpreted atoms)
  cond_atoms(c, ints)               a condition as (op, frozenset of canonical atoms); over integers `a > n-1` and `a >= n`,
                                    `!(a < b)` and `a >= b`, `b > a` and `a < b` coincide; over doubles only mirror images do
  same_cond(a, b, ints)             equality of those forms
  loop_range(loop, before)          (variable, first value, last value inclusive, step) of a counting loop, for / while alike
"""
import ast
import re

from .cfront import strip, text
from . import ceval
from .formula import Canon, ExprBuilder, Ratio, Undecided, num, show


# ------------------------------------------------------------------------------------------------ parsing rule notation
def _c2py(s):
    s = s.replace("&&", " and ").replace("||", " or ")
    s = re.sub(r"!(?!=)", " not ", s)
    s = re.sub(r"(?<![\w\)\]])\*\s*(\w+)", r"\1[0]", s)          # *p -> p[0]
    s = re.sub(r"\(\s*(double|int|long long|long|float)\s*\)", "", s)  # value casts are transparent for the rules
    return s.strip()


class _B(ExprBuilder):
    def build(self, e, env):
        if isinstance(e, ast.Name) and e.id not in env:
            return ('sym', e.id)
        if isinstance(e, ast.Subscript):
            if isinstance(e.value, ast.Name):
                idx = self.build(e.slice, env)
                return ('call', 'A:' + e.value.id, (idx,))
        if isinstance(e, ast.BinOp) and isinstance(e.op, ast.Mod):
            return ('call', 'mod', (self.build(e.left, env), self.build(e.right, env)))
        if isinstance(e, ast.Call) and isinstance(e.func, ast.Name):
            nm = ceval.CALLS.get(e.func.id, "c:" + e.func.id)
            args = tuple(self.build(a, env) for a in e.args)
            if e.func.id == "pow" and len(args) == 2:
                return ('pow', args[0], args[1])
            return ('call', nm, args)
        return super().build(e, env)


def parse(s, env=None):
    if isinstance(s, tuple):
        return s
    return _B().build(ast.parse(_c2py(s), mode="eval").body, env or {})


def expr(node, env=None, arrays=None):
    if isinstance(node, tuple):
        return node
    if isinstance(node, str):
        return parse(node, env)
    return ceval.to_expr(node, env or {}, arrays)


def same_expr(a, b, env=None):
    try:
        c = Canon()
        return c.ratio(expr(a, env)) == c.ratio(expr(b, env))
    except Undecided:
        return False
    except Exception:
        return False


# ------------------------------------------------------------------------------------------------ conditions
def _is_float_node(n):
    m = n
    while m.get("kind") in ("ImplicitCastExpr", "ParenExpr", "ConstantExpr"):
        m = m["inner"][0]
    q = m.get("type", {}).get("qualType", "")
    if any(t in q for t in ("double", "float")):
        return True
    if any(t in q for t in ("int", "long", "short", "char", "size_t")):
        return False
    return None


class Atom:
    """`d op 0` with op in <=, <, ==, != ; equality is semantic (Ratio equality)"""
    __slots__ = ("op", "d", "ints")

    def __init__(self, op, d, ints):
        if op in ('>', '>='):
            d, op = -d, {'>': '<', '>=': '<='}[op]
        if ints and op == '<':
            d, op = d + Ratio.const(1), '<='          # d < 0  <=>  d + 1 <= 0  over the integers
        if op in ('==', '!=') and repr(-d) < repr(d):
            d = -d
        self.op, self.d, self.ints = op, d, ints

    def negated(self):
        if self.op in ('==', '!='):
            return Atom({'==': '!=', '!=': '=='}[self.op], self.d, self.ints)
        if self.ints:
            # not (d <= 0)  <=>  d >= 1  <=>  1 - d <= 0
            return Atom('<=', Ratio.const(1) - self.d, True)
        return None           # over doubles the negation of an ordering is not an ordering (NaN)

    def __eq__(self, o):
        return isinstance(o, Atom) and self.op == o.op and self.d == o.d

    def __hash__(self):
        return hash(self.op)

    def __repr__(self):
        return f"[{self.d} {self.op} 0]"


def cond_atoms(c, ints=None, env=None, _canon=None):
    """-> Atom | ('and'|'or', frozenset(children)) | ('not', child) | ('opaque', text)"""
    cn = _canon or Canon()
    if isinstance(c, str):
        c = parse(c, env)
    if isinstance(c, dict):
        n = c
        while n.get("kind") in ("ParenExpr", "ImplicitCastExpr", "ConstantExpr"):
            n = n["inner"][0]
        k = n.get("kind")
        if k == "BinaryOperator" and n.get("opcode") in ("&&", "||", "&", "|"):
            op = 'and' if n["opcode"] in ("&&", "&") else 'or'
            return _flat(op, [cond_atoms(x, ints, env, cn) for x in n["inner"]])
        if k == "UnaryOperator" and n.get("opcode") == "!":
            return _negate(cond_atoms(n["inner"][0], ints, env, cn))
        if k == "BinaryOperator" and n.get("opcode") in ("<", "<=", ">", ">=", "==", "!="):
            fl = [_is_float_node(x) for x in n["inner"]]
            isint = ints if ints is not None else not any(f is True for f in fl)
            try:
                ra, rb = cn.ratio(ceval.to_expr(n["inner"][0], env or {})), cn.ratio(ceval.to_expr(n["inner"][1], env or {}))
                d = ra - rb
            except Undecided:
                return ('opaque', text(n).replace(" ", ""))
            if not isint and d.is_zero() and n["opcode"] in ("!=", "=="):
                t = ('isnan', repr(ra))          # x != x is the portable spelling of isnan(x)
                return t if n["opcode"] == "!=" else ('not', t)
            return Atom(n["opcode"], d, isint)
        try:
            e = ceval.to_expr(n, env or {})
        except Undecided:
            return ('opaque', text(n).replace(" ", ""))
        return cond_atoms(e, ints if ints is not None else (_is_float_node(n) is not True), env, cn)
    k = c[0]
    isint = True if ints is None else ints
    if k in ('and', 'or'):
        return _flat(k, [cond_atoms(c[1], ints, env, cn), cond_atoms(c[2], ints, env, cn)])
    if k == 'not':
        return _negate(cond_atoms(c[1], ints, env, cn))
    if k == 'cmp':
        try:
            ra, rb = cn.ratio(c[2]), cn.ratio(c[3])
            d = ra - rb
        except Undecided:
            return ('opaque', show(c))
        if d.is_zero() and c[1] in ("!=", "==") and ints is not True:
            t = ('isnan', repr(ra))
            return t if c[1] == "!=" else ('not', t)
        return Atom(c[1], d, isint)
    if k == 'call' and c[1] in ('isnan', 'isinf') and len(c[2]) == 1:
        try:
            return (c[1], repr(cn.ratio(c[2][0])))
        except Undecided:
            return ('opaque', show(c))
    try:
        d = cn.ratio(c)          # a bare value used as a truth value:  x  <=>  x != 0
    except Undecided:
        return ('opaque', show(c))
    return Atom('!=', d, isint)


def _flat(op, kids):
    out = []
    for k in kids:
        for x in (k[1] if isinstance(k, tuple) and k[0] == op else [k]):
            if not any(x == y for y in out):
                out.append(x)
    if len(out) == 1:
        return out[0]
    return (op, frozenset(out))


def _negate(t):
    if isinstance(t, Atom):
        n = t.negated()
        return n if n is not None else ('not', t)
    if t[0] in ('and', 'or'):
        return _flat('or' if t[0] == 'and' else 'and', [_negate(x) for x in t[1]])
    if t[0] == 'not':
        return t[1]
    return ('not', t)


def same_cond(a, b, ints=None, env=None):
    """a, b: clang node | Expr | rule text.  True when both denote the same condition by the rules above."""
    try:
        cn = Canon()
        return cond_atoms(a, ints, env, cn) == cond_atoms(b, ints, env, cn)
    except Undecided:
        return False


def implies_any(cond, wanted, ints=None, env=None):
    """is one of the `wanted` conditions (rule texts) among the disjuncts / equal to cond"""
    cn = Canon()
    t = cond_atoms(cond, ints, env, cn)
    parts = list(t[1]) if isinstance(t, tuple) and t[0] == 'or' else [t]
    for w in wanted:
        tw = cond_atoms(w, ints, env, cn)
        if any(tw == p_ for p_ in parts):
            return True
    return False


def disjuncts(cond, ints=None, env=None, canon=None):
    t = cond_atoms(cond, ints, env, canon or Canon())
    return list(t[1]) if isinstance(t, tuple) and t[0] == 'or' else [t]


def conjuncts(cond, ints=None, env=None, canon=None):
    t = cond_atoms(cond, ints, env, canon or Canon())
    return list(t[1]) if isinstance(t, tuple) and t[0] == 'and' else [t]


# ------------------------------------------------------------------------------------------------ loops
def loop_range(loop, before=()):
    """counting loop -> dict(var, lo, hi (inclusive, Expr), step (+1/-1), cond node) or None.
    `before`: statements preceding the loop in its block (searched backwards for the initial value when the loop
    itself has no init part, i.e. a normalised while loop)."""
    if loop.get("kind") == "WhileStmt":
        # counting while loop: exactly one top-level statement of the body steps a variable of the condition
        cond, body = loop["inner"][0], loop["inner"][1]
        from .cnorm import _step_of, var_refs
        st = ceval.body_stmts(body)
        steps = [x for x in st if x.get("kind") in ("UnaryOperator", "CompoundAssignOperator", "BinaryOperator") and _step_of(x) in var_refs(cond)]
        if len(steps) != 1 or len(steps_of(loop, _step_of(steps[0]))) != 1:
            return None
        pseudo = {"kind": "ForStmt", "inner": [{}, {}, cond, steps[0], body]}
        r = loop_range(pseudo, before)
        if r is not None:
            r["step_in_body"] = True
        return r
    if loop.get("kind") != "ForStmt":
        return None
    init, _cv, cond, inc, body = loop["inner"]
    i = strip(inc) if inc.get("kind") else {}
    var, step = None, None
    if i.get("kind") == "UnaryOperator" and i.get("opcode") in ("++", "--"):
        t = strip(i["inner"][0])
        if t.get("kind") == "DeclRefExpr":
            var, step = t["referencedDecl"]["name"], (1 if i["opcode"] == "++" else -1)
    elif i.get("kind") == "CompoundAssignOperator" and i.get("opcode") in ("+=", "-="):
        t = strip(i["inner"][0])
        v = strip(i["inner"][1])
        if t.get("kind") == "DeclRefExpr" and v.get("kind") == "IntegerLiteral" and int(v["value"]) == 1:
            var, step = t["referencedDecl"]["name"], (1 if i["opcode"] == "+=" else -1)
    elif i.get("kind") == "BinaryOperator" and i.get("opcode") == "=":
        t = strip(i["inner"][0])
        r = strip(i["inner"][1])
        if t.get("kind") == "DeclRefExpr" and r.get("kind") == "BinaryOperator" and r.get("opcode") in ("+", "-"):
            a, b = strip(r["inner"][0]), strip(r["inner"][1])
            if a.get("kind") == "DeclRefExpr" and a["referencedDecl"]["name"] == t["referencedDecl"]["name"] and \
                    b.get("kind") == "IntegerLiteral" and int(b["value"]) == 1:
                var, step = t["referencedDecl"]["name"], (1 if r["opcode"] == "+" else -1)
    if var is None:
        return None
    lo = None
    ini = strip(init) if init.get("kind") else {}
    cands = [ini] if ini.get("kind") else []
    cands += [strip(s) for s in reversed(list(before))]
    for s in cands:
        if s.get("kind") == "BinaryOperator" and s.get("opcode") == "=" and strip(s["inner"][0]).get("kind") == "DeclRefExpr" and \
                strip(s["inner"][0])["referencedDecl"]["name"] == var:
            lo = ceval.to_expr(s["inner"][1], {})
            break
        if s.get("kind") == "BinaryOperator" and s.get("opcode") == ",":
            for part in s["inner"]:
                p = strip(part)
                if p.get("kind") == "BinaryOperator" and p.get("opcode") == "=" and strip(p["inner"][0]).get("kind") == "DeclRefExpr" and \
                        strip(p["inner"][0])["referencedDecl"]["name"] == var:
                    lo = ceval.to_expr(p["inner"][1], {})
            if lo is not None:
                break
        if s.get("kind") == "DeclStmt":
            for d in s.get("inner", []):
                if d.get("kind") == "VarDecl" and d.get("name") == var and d.get("inner"):
                    lo = ceval.to_expr([c for c in d["inner"] if c.get("kind")][0], {})
            if lo is not None:
                break
        from .cnorm import writes
        if s.get("kind") and var in writes(s)[0]:
            break
    # bound from the condition: a conjunction one of whose factors compares var
    hi = None
    rest = []
    for f in _conj(cond):
        c = strip(f)
        while c.get("kind") == "ParenExpr":
            c = strip(c["inner"][0])
        got = None
        if c.get("kind") == "BinaryOperator" and c.get("opcode") in ("<", "<=", ">", ">=") and hi is None:
            a, b = strip(c["inner"][0]), strip(c["inner"][1])
            op = c["opcode"]
            if b.get("kind") == "DeclRefExpr" and b["referencedDecl"]["name"] == var and not (a.get("kind") == "DeclRefExpr" and a["referencedDecl"]["name"] == var):
                a, b = b, a
                op = {"<": ">", "<=": ">=", ">": "<", ">=": "<="}[op]
            if a.get("kind") == "DeclRefExpr" and a["referencedDecl"]["name"] == var:
                try:
                    be = ceval.to_expr(c["inner"][1] if strip(c["inner"][0]) is a else c["inner"][0], {})
                except Undecided:
                    be = None
                if be is not None:
                    if step == 1 and op in ("<", "<="):
                        got = be if op == "<=" else ('sub', be, num(1))
                    if step == -1 and op in (">", ">="):
                        got = be if op == ">=" else ('add', be, num(1))
        if got is not None:
            hi = got
        else:
            rest.append(f)
    return {"var": var, "lo": lo, "hi": hi, "step": step, "cond": cond, "extra": rest, "body": body}


def _conj(c):
    n = c
    while n.get("kind") in ("ParenExpr", "ImplicitCastExpr"):
        n = n["inner"][0]
    if n.get("kind") == "BinaryOperator" and n.get("opcode") == "&&":
        return _conj(n["inner"][0]) + _conj(n["inner"][1])
    return [c] if c.get("kind") else []


def range_is(lr, lo, hi, step=1):
    """loop_range result covers lo..hi inclusive (rule notation) with the given step"""
    if lr is None or lr["lo"] is None or lr["hi"] is None or lr["step"] != step:
        return False
    return same_expr(lr["lo"], lo) and same_expr(lr["hi"], hi)


def preceding(block_stmts, node):
    """statements of the block before `node`"""
    out = []
    for s in block_stmts:
        if s is node:
            return out
        out.append(s)
    return out


# ------------------------------------------------------------------------------------------------ evaluated regions
def evaluate(stmts, oracle=None, arrays=None, env=None, maxpaths=512):
    """CEval over a statement list with nested loops summarised by one symbolic iteration"""
    ce = ceval.CEval(oracle, arrays)
    ce.summarise_loops = True
    ce.maxpaths = maxpaths
    ce.run(stmts, env or {})
    return ce


def path_atoms(conds, ints=None, canon=None):
    """the atoms known to hold on a path: conjunction of the recorded (condition, truth) pairs, flattened"""
    cn = canon or Canon()
    out = []
    for c, t in conds:
        a = cond_atoms(c, ints, None, cn)
        if not t:
            a = _negate(a)
        for x in (a[1] if isinstance(a, tuple) and a[0] == 'and' else [a]):
            if not any(x == y for y in out):
                out.append(x)
    return out


def holds(conds, want, ints=None, env=None):
    """every conjunct of `want` (rule text / Expr; env binds placeholder names to Exprs) is among the atoms of the path conditions"""
    cn = Canon()
    have = path_atoms(conds, ints, cn)
    for w in conjuncts(want, ints, env, cn):
        if not any(w == h for h in have):
            return False
    return True


def excluded(conds, want, ints=None, env=None):
    """the negation of `want` holds on the path"""
    cn = Canon()
    have = path_atoms(conds, ints, cn)
    neg = _negate(cond_atoms(want, ints, env, cn))
    parts = neg[1] if isinstance(neg, tuple) and neg[0] == 'and' else [neg]
    return all(any(p_ == h for h in have) for p_ in parts)


def stores(ce, arr, op=None):
    return [e for e in ce.effects if e.arr == arr and (op is None or e.op == op)]


def calls(ce, name):
    return [e for e in ce.effects if e.arr == "call:" + name]


def steps_of(block, var):
    """statements of `block` (any depth, loops included) that step scalar `var` by +1"""
    from .cnorm import walk, _step_of
    out = []
    for n in walk(block):
        if n.get("kind") in ("UnaryOperator", "CompoundAssignOperator", "BinaryOperator") and _step_of(n) == var:
            s = strip(n)
            if s.get("kind") == "UnaryOperator" and s.get("opcode") == "++":
                out.append(n)
            elif s.get("kind") == "CompoundAssignOperator" and s.get("opcode") == "+=" and same_expr(s["inner"][1], "1"):
                out.append(n)
            elif s.get("kind") == "BinaryOperator" and s.get("opcode") == "=" and strip(s["inner"][1]).get("opcode") == "+" and \
                    same_expr(strip(s["inner"][1])["inner"][1], "1"):
                out.append(n)
    return out


# ------------------------------------------------------------------------------------------------ linear search idioms
def search(loop, before=()):
    """a loop that looks for the first k in lo..hi with match(k):
         style 'break':  for(k=lo;k<=hi;k++){ if(match){ACTIONS; break;} }        not found  <=>  k == hi+1 after the loop
         style 'cond' :  for(k=lo;k<=hi && !match;k++){}                           found <=> k <= hi after the loop
       -> dict(var, lo, hi, style, match=(Expr cond, truth) list that holds at the hit, found_effects) or None"""
    lr = loop_range(loop, before)
    if lr is None or lr["step"] != 1 or lr["lo"] is None or lr["hi"] is None:
        return None
    body = ceval.body_stmts(lr["body"])
    ce = evaluate(body)
    brk = [r for r in ce.returns if r[0] == "BreakStmt"]
    if brk and not lr["extra"]:
        if len(brk) != 1:
            return None
        hitconds = brk[0][1]
        found = [e for e in ce.effects if [(show(c), t) for c, t in e.conds] == [(show(c), t) for c, t in hitconds][:len(e.conds)] and len(e.conds) == len(hitconds)]
        other = [e for e in ce.effects if e not in found]
        if other:
            return None
        return {"var": lr["var"], "lo": lr["lo"], "hi": lr["hi"], "style": "break", "match": hitconds, "found_effects": found, "loop": loop}
    if not brk and lr["extra"] and not ce.effects and len(lr["extra"]) == 1:
        # continue while !match
        try:
            c = ceval.to_expr(lr["extra"][0], {})
        except Undecided:
            return None
        return {"var": lr["var"], "lo": lr["lo"], "hi": lr["hi"], "style": "cond", "match": [(c, False)], "found_effects": [], "loop": loop}
    return None


def found_after(sr, conds):
    """do the path conditions after the search loop say `found` (True), `not found` (False) or nothing (None)"""
    v = sr["var"]
    hi1 = ('add', sr["hi"], num(1))
    env = {"V": ('sym', v), "END": hi1}
    if holds(conds, "V == END", True, env) or holds(conds, "V >= END", True, env):
        return False
    if excluded(conds, "V == END", True, env) or holds(conds, "V < END", True, env):
        return True
    return None


def holds_any(conds, want, ints=None, env=None):
    """the disjunction `want` holds on the path: recorded as a whole, or one of its disjuncts is among the path's atoms"""
    if holds(conds, want, ints, env):
        return True
    cn = Canon()
    have = path_atoms(conds, ints, cn)
    return any(any(d == h for h in have) for d in disjuncts(want, ints, env, cn))


def atom_text(t):
    """deterministic text of a cond_atoms result (sets printed in sorted order)"""
    if isinstance(t, Atom):
        return repr(t)
    if isinstance(t, tuple) and t and t[0] in ('and', 'or'):
        return "(" + f" {t[0]} ".join(sorted(atom_text(x) for x in t[1])) + ")"
    if isinstance(t, tuple) and t and t[0] == 'not':
        return "not " + atom_text(t[1])
    return repr(t)


# ------------------------------------------------------------------------------------------------ finite integer evaluation
def int_eval(e, env):
    """value of an integer / boolean Expr under a finite assignment (env: symbol or `name[idx]` -> int); None when it leaves
    the integer vocabulary.  Used to decide an extracted predicate by exhaustive enumeration of a small finite domain."""
    k = e[0]
    if k == 'num':
        return int(e[1]) if e[1].denominator == 1 else None
    if k == 'sym':
        return env.get(e[1])
    if k == 'neg':
        v = int_eval(e[1], env)
        return None if v is None else -v
    if k in ('add', 'sub', 'mul', 'div'):
        a, b = int_eval(e[1], env), int_eval(e[2], env)
        if a is None or b is None or isinstance(a, bool) or isinstance(b, bool):
            return None
        if k == 'add':
            return a + b
        if k == 'sub':
            return a - b
        if k == 'mul':
            return a * b
        if b == 0:
            return None
        q = abs(a) // abs(b)
        return q if (a >= 0) == (b >= 0) else -q           # C division truncates towards zero
    if k == 'call' and e[1] == 'mod' and len(e[2]) == 2:
        a, b = int_eval(e[2][0], env), int_eval(e[2][1], env)
        if a is None or b is None or b == 0:
            return None
        r = abs(a) % abs(b)
        return r if a >= 0 else -r
    if k == 'call' and e[1] in ('abs', 'llabs', 'labs', 'c:llabs', 'c:labs', 'c:abs') and len(e[2]) == 1:
        a = int_eval(e[2][0], env)
        return None if a is None else abs(a)
    if k == 'call' and e[1].startswith('A:') and len(e[2]) == 1:
        i = int_eval(e[2][0], env)
        return None if i is None else env.get(f"{e[1][2:]}[{i}]")
    if k == 'cmp':
        a, b = int_eval(e[2], env), int_eval(e[3], env)
        if a is None or b is None:
            return None
        return {"<": a < b, "<=": a <= b, ">": a > b, ">=": a >= b, "==": a == b, "!=": a != b}[e[1]]
    if k in ('and', 'or'):
        a, b = int_eval(e[1], env), int_eval(e[2], env)
        if a is None or b is None:
            return None
        return (bool(a) and bool(b)) if k == 'and' else (bool(a) or bool(b))
    if k == 'not':
        a = int_eval(e[1], env)
        return None if a is None else not bool(a)
    if k == 'where':
        c = int_eval(e[1], env)
        if c is None:
            return None
        return int_eval(e[2] if c else e[3], env)
    return None
