"""Semantic queries over (normalised) Python functions: the counterpart of cq.py for the wrapper layer.

  PEval(fdef).run()           paths through a function: (conditions, environment of symbolic values, return value,
                              effects = subscript / attribute stores and statement-level method calls), loops summarised
                              by one symbolic iteration
  parse("np.max(r) - 1", env) rule notation (Python syntax) -> Expr, built with the same canonicalisation
  same(a, b)                  arithmetic equality over uninterpreted atoms, after the library canonicalisation below

Library canonicalisation (the trusted table of numpy / builtin equivalences):
  x.min() = np.min(x) (max, sum, mean, any, all, std likewise);  np.min(np.unique(x)) = np.min(x) (max likewise)
  np.zeros(s).astype(T) = np.zeros(s, dtype=T) = np.full(s, 0, dtype=T);  c*np.ones(s) = np.full(s, c)
  len(x) = x.shape[0];  x.size on a 1-d value is left alone
  np.array(x, copy=True) = x.copy() = np.copy(x);  x.astype(T) keeps the value (dtype recorded as a keyword)
  x[m, :] = x[m] for a leading mask / index
"""
import ast
import os

from .formula import ExprBuilder, Undecided, Canon, num, show
from .pyfront import dotted

REDUCERS = {"min", "max", "sum", "mean", "std", "any", "all", "prod", "var", "argmin", "argmax", "cumsum"}
IDEMPOTENT_UNDER = {"min": {"unique", "sort"}, "max": {"unique", "sort"}, "any": {"unique"}, "all": {"unique"}}


def _is_boolean_expr(e):
    return isinstance(e, tuple) and e and (e[0] in ('cmp', 'and', 'or', 'not', 'band', 'bor') or
                                           (e[0] == 'call' and e[1] in ('isnan', 'isfinite', 'isinf', '.notnull', '.isnull', '.notna', '.isna', 'any', 'all', 'isclose', 'in')))


def _is_row_selector(i):
    return isinstance(i, tuple) and i and ((i[0] == 'call' and i[1] == 'nz') or _is_boolean_expr(i))


def _is_fresh_selection(e):
    """x[mask] / x[nz(..)] / x[mask, k]: advanced indexing returns a new array, a further .copy() changes nothing"""
    if not (isinstance(e, tuple) and e and e[0] == 'call' and e[1] == 'getitem' and len(e[2]) == 2):
        return False
    i = e[2][1]
    return _is_row_selector(i) or (i[0] == 'tuple' and any(_is_row_selector(x) for x in i[1]))


def _canon_index(idx):
    """positions selected by an index: np.flatnonzero(m), np.nonzero(m), np.where(m)[0] and m.astype(bool) all select where m is non-zero;
    for an m that is boolean by construction that is m itself, otherwise the canonical form is nz(m)"""
    if not isinstance(idx, tuple) or not idx:
        return idx
    if idx[0] == 'tuple':
        return ('tuple', tuple(_canon_index(x) for x in idx[1]))
    m = None
    if idx[0] == 'call' and idx[1] in ('flatnonzero', 'nonzero') and len(idx[2]) == 1:
        m = idx[2][0]
    elif idx[0] == 'call' and idx[1] == 'getitem' and len(idx[2]) == 2 and idx[2][1] == ('num', 0) and isinstance(idx[2][0], tuple) and \
            idx[2][0][0] == 'call' and idx[2][0][1] in ('where', 'nonzero') and len(idx[2][0][2]) == 1:
        m = idx[2][0][2][0]
    elif idx[0] == 'call' and idx[1] == 'astype' and len(idx[2]) == 2 and idx[2][1] in (('sym', 'bool'), ('sym', 'np.bool_'), ('sym', "'bool'")):
        m = idx[2][0]
    if m is None:
        return idx
    while isinstance(m, tuple) and m[0] == 'call' and m[1] == 'astype' and len(m[2]) == 2 and m[2][1] in (('sym', 'bool'), ('sym', 'np.bool_'), ('sym', "'bool'")):
        m = m[2][0]
    return m if _is_boolean_expr(m) else ('call', 'nz', (m,))


def _kws(call, builder, env, skip=()):
    out = []
    for k in call.keywords:
        if k.arg in skip:
            continue
        if k.arg is None:
            out.append(("**", builder.build(k.value, env)))
            continue
        out.append((k.arg, builder.build(k.value, env)))
    return tuple(sorted(out, key=lambda x: x[0]))


def pq_is_match(e):
    return isinstance(e, tuple) and len(e) >= 3 and e[0] == 'call' and e[1] in ('.search', '.match', '.fullmatch') and e[2] and e[2][0] == ('sym', 're')


class PB(ExprBuilder):
    """permissive builder: every expression gets an Expr; unknown constructs become uninterpreted atoms"""

    def __init__(self, resolve=None):
        super().__init__(None, None)
        self.resolve = resolve

    def build(self, e, env):
        try:
            return self._build(e, env)
        except Undecided:
            return ('call', 'py:' + ast.unparse(e).replace(" ", ""), ())

    def _build(self, e, env):
        if isinstance(e, ast.Name):
            if e.id in env:
                return env[e.id]
            if e.id in ("True", "False"):
                return num(1 if e.id == "True" else 0)
            return ('sym', e.id)
        if isinstance(e, ast.Constant) and e.value is None:
            return ('sym', 'None')
        if isinstance(e, ast.Constant) and isinstance(e.value, str):
            return ('sym', repr(e.value))
        if isinstance(e, ast.Attribute):
            d = dotted(e)
            if d in ("np.nan", "numpy.nan", "math.nan", "np.NaN"):
                return ('nan',)
            if d in ("np.inf", "math.inf"):
                return ('sym', 'inf')
            if d and d in env:
                return env[d]
            if d and d.split(".")[0] in ("np", "numpy", "pd", "math") and e.attr in ("float64", "int64", "int32", "float32", "bool_", "uint8"):
                return ('sym', "np." + e.attr)
            base = self.build(e.value, env)
            if e.attr == "T":
                return ('call', 'transpose', (base,))
            return ('call', 'attr:' + e.attr, (base,))
        if isinstance(e, ast.Subscript):
            base = self.build(e.value, env)
            return self._getitem(base, e.slice, env)
        if isinstance(e, ast.Call):
            return self._call(e, env)
        if isinstance(e, ast.Compare) and len(e.ops) == 1 and isinstance(e.ops[0], (ast.In, ast.NotIn, ast.Is, ast.IsNot)):
            a, b = self.build(e.left, env), self.build(e.comparators[0], env)
            op = type(e.ops[0]).__name__.lower()
            neg = op in ("notin", "isnot")
            r = ('call', 'in' if "in" in op else 'is', (a, b))
            # `m is None` for a match object m = re.search(..) is `not m`
            if r[1] == 'is' and b == ('sym', 'None') and pq_is_match(a):
                return a if neg else ('not', a)
            # "lit" in s  (lit free of regex metacharacters)  is  re.search("lit", s)
            if r[1] == 'in' and a[0] == 'sym' and a[1].startswith(("'", '"')) and not any(ch in a[1][1:-1] for ch in r".^$*+?{}[]\\|()") and len(a[1]) > 2:
                m = ('call', '.search', (('sym', 're'), a, b))
                return ('not', m) if neg else m
            return ('not', r) if neg else r
        if isinstance(e, ast.BinOp) and isinstance(e.op, ast.Add):
            a, b = self.build(e.left, env), self.build(e.right, env)
            if isinstance(a, tuple) and isinstance(b, tuple) and a and b and a[0] == 'tuple' and b[0] == 'tuple':
                return ('tuple', a[1] + b[1])
            return ('add', a, b)
        if isinstance(e, ast.BinOp) and isinstance(e.op, (ast.FloorDiv, ast.Mod)):
            a, b = self.build(e.left, env), self.build(e.right, env)
            return ('call', 'floordiv' if isinstance(e.op, ast.FloorDiv) else 'mod', (a, b))
        if isinstance(e, ast.JoinedStr):
            parts = []
            for v in e.values:
                if isinstance(v, ast.Constant):
                    parts.append(('sym', repr(v.value)))
                elif isinstance(v, ast.FormattedValue):
                    val = self.build(v.value, env)
                    spec = None
                    if v.format_spec is not None:
                        if isinstance(v.format_spec, ast.JoinedStr) and all(isinstance(x, ast.Constant) for x in v.format_spec.values):
                            spec = "".join(str(x.value) for x in v.format_spec.values)
                        else:
                            spec = "?" + ast.unparse(v.format_spec)
                    if v.conversion not in (-1, None):
                        spec = "!" + chr(v.conversion) + (":" + spec if spec else "")
                    # a format specification is part of what the text says (width, precision, conversion): kept with the value
                    parts.append(('call', 'fmt', (val, ('sym', repr(spec)))) if spec else val)
            return ('call', 'fstr', tuple(parts))
        if isinstance(e, ast.Dict):
            ks = tuple(self.build(k, env) if k is not None else ('sym', '**') for k in e.keys)
            vs = tuple(self.build(v, env) for v in e.values)
            return ('call', 'dict', (('tuple', ks), ('tuple', vs)))
        if isinstance(e, ast.Slice):
            return ('call', 'slice', tuple(self.build(x, env) if x is not None else ('sym', 'None') for x in (e.lower, e.upper, e.step)))
        if isinstance(e, ast.Starred):
            return ('call', 'star', (self.build(e.value, env),))
        if isinstance(e, (ast.ListComp, ast.GeneratorExp)) and len(e.generators) == 1 and not e.generators[0].ifs and \
                isinstance(e.generators[0].target, ast.Name):
            it = self.build(e.generators[0].iter, env)
            if isinstance(it, tuple) and it[0] == 'tuple':
                v = e.generators[0].target.id
                return ('tuple', tuple(self.build(e.elt, dict(env, **{v: x})) for x in it[1]))
            # symbolic iterable: map(elt, iterable) with the loop variable bound to a generic element
            v = e.generators[0].target.id
            return ('call', 'map', (self.build(e.elt, dict(env, **{v: ('call', 'elem', (it,))})), it))
        if isinstance(e, (ast.ListComp, ast.GeneratorExp)) and len(e.generators) == 1 and not e.generators[0].ifs and \
                isinstance(e.generators[0].target, ast.Tuple) and all(isinstance(x, ast.Name) for x in e.generators[0].target.elts):
            it = self.build(e.generators[0].iter, env)
            el = ('call', 'elem', (it,))
            sub = dict(env, **{x.id: ('call', 'getitem', (el, num(i))) for i, x in enumerate(e.generators[0].target.elts)})
            return ('call', 'map', (self.build(e.elt, sub), it))
        if isinstance(e, ast.DictComp) and len(e.generators) == 1 and not e.generators[0].ifs:
            g = e.generators[0]
            it = self.build(g.iter, env)
            el = ('call', 'elem', (it,))
            if isinstance(g.target, ast.Name):
                sub = dict(env, **{g.target.id: el})
            elif isinstance(g.target, ast.Tuple) and all(isinstance(x, ast.Name) for x in g.target.elts):
                sub = dict(env, **{x.id: ('call', 'getitem', (el, num(i))) for i, x in enumerate(g.target.elts)})
            else:
                sub = None
            if sub is not None:
                k_, v_ = self.build(e.key, sub), self.build(e.value, sub)
                # {k: v for k, v in pairs} is dict(pairs)
                if k_ == ('call', 'getitem', (el, num(0))) and v_ == ('call', 'getitem', (el, num(1))):
                    return ('call', 'py.dict', (it,))
                return ('call', 'dictmap', (k_, v_, it))
        if isinstance(e, (ast.ListComp, ast.GeneratorExp, ast.SetComp, ast.DictComp, ast.Lambda)):
            return ('call', 'py:' + ast.unparse(e).replace(" ", ""), ())
        return super().build(e, env)

    def _cmp(self, op, a, b):
        r = super()._cmp(op, a, b)
        # np.sum(mask, ..) > 0  ==  np.any(mask, ..)   (and `0 < np.sum(mask)`); np.sum(mask) == 0  ==  not np.any(mask)
        o, x, y = r[1], r[2], r[3]
        if o == '<':
            o, x, y = '>', y, x
        if isinstance(x, tuple) and x and x[0] == 'call' and x[1] == 'sum' and self._is_bool(x[2][0]) and y == num(0):
            anyx = ('call', 'any', x[2]) + tuple(x[3:])
            if o in ('>', '!='):
                return anyx
            if o in ('==', '<='):
                return ('not', anyx)
        if isinstance(x, tuple) and x and x[0] == 'call' and x[1] == 'sum' and self._is_bool(x[2][0]) and y == num(1) and o == '>=':
            return ('call', 'any', x[2]) + tuple(x[3:])
        return r

    # -- subscripts ------------------------------------------------------------------------------------------
    def _getitem(self, base, sl, env):
        if isinstance(base, tuple) and base[0] == 'tuple' and isinstance(sl, ast.Constant) and isinstance(sl.value, int) and \
                -len(base[1]) <= sl.value < len(base[1]):
            return base[1][sl.value]
        if isinstance(base, tuple) and base[0] == 'call' and base[1] == 'attr:shape' and isinstance(sl, ast.Constant):
            return ('call', 'shape', (base[2][0], num(sl.value)))
        idx = _canon_index(self._index(sl, env))
        # x[m, :] = x[m]
        while idx[0] == 'tuple' and len(idx[1]) > 1 and idx[1][-1] == ('call', 'slice', (('sym', 'None'),) * 3):
            idx = ('tuple', idx[1][:-1]) if len(idx[1]) > 2 else idx[1][0]
        # x[I][:, k] = x[I, k] for a row selector I
        if isinstance(base, tuple) and base[0] == 'call' and base[1] == 'getitem' and len(base[2]) == 2 and _is_row_selector(base[2][1]) and \
                idx[0] == 'tuple' and len(idx[1]) == 2 and idx[1][0] == ('call', 'slice', (('sym', 'None'),) * 3):
            return ('call', 'getitem', (base[2][0], ('tuple', (base[2][1], idx[1][1]))))
        # [f(k) for k in range(n)][j] with j itself running over range(n): the element is f(j)
        if isinstance(base, tuple) and base[0] == 'call' and base[1] == 'map' and len(base[2]) == 2 and idx == ('call', 'elem', (base[2][1],)) and \
                base[2][1][0] == 'call' and base[2][1][1] in ('py.range', 'arange') and len(base[2][1][2]) == 1:
            return base[2][0]
        return ('call', 'getitem', (base, idx))

    def _index(self, sl, env):
        if isinstance(sl, ast.Tuple):
            return ('tuple', tuple(self._index(x, env) for x in sl.elts))
        return self.build(sl, env)

    # -- calls -----------------------------------------------------------------------------------------------------
    def _call(self, e, env):
        d = dotted(e.func)
        args = [self.build(a, env) for a in e.args]
        if self.resolve is not None:
            r = self.resolve(e, env, self)
            if r is not None:
                return r
        if d in ("len",) and len(args) == 1:
            return ('call', 'shape', (args[0], num(0)))
        if d == "bool" and len(args) == 1:
            return args[0]            # truth value of its argument
        if d in ("abs", "float", "int", "bool", "min", "max", "sum", "round", "range", "list", "tuple", "sorted", "str", "isinstance", "zip", "enumerate", "dict", "set"):
            if d in ("float", "int") and len(args) == 1:
                if getattr(self, "keep_casts", False):
                    return ('call', 'py.' + d, (args[0],))
                return args[0]
            return ('call', d if d in ("abs",) else "py." + d, tuple(args), *( (_kws(e, self, env),) if e.keywords else ()))
        if d and d.split(".")[0] in ("np", "numpy") and d.count(".") == 1:
            fn = d.split(".")[1]
            return self._np(fn, e, args, env)
        if d and d.split(".")[0] == "math" and d.count(".") == 1:
            fn = {"fabs": "abs", "asinh": "arcsinh", "pow": "power"}.get(d.split(".")[1], d.split(".")[1])
            if fn == "power":
                return ('pow', args[0], args[1])
            return ('call', fn, tuple(args))
        if isinstance(e.func, ast.Attribute):
            recv = self.build(e.func.value, env)
            m = e.func.attr
            if recv[0] == 'call' and recv[1] == '.compile' and len(recv) == 3 and len(recv[2]) == 2 and recv[2][0] == ('sym', 're') and \
                    m in ("search", "match", "fullmatch", "sub", "subn", "split", "findall") and not e.keywords:
                return ('call', '.' + m, recv[2] + tuple(args))         # compiled pattern method = module function on the pattern
            if m in REDUCERS and not args:
                kw = _kws(e, self, env)
                return self._reduce(m, recv, kw)
            if m == "to_numpy" and not args and not e.keywords:
                return ('call', 'attr:values', (recv,))        # Series / Index .to_numpy() without arguments is .values
            if m == "astype" and args:
                return self._with_dtype(recv, args[0])
            if m == "copy" and not args:
                return recv if _is_fresh_selection(recv) else ('call', 'copy', (recv,))
            if m in ("flatten", "ravel", "squeeze") and not args:
                return ('call', m, (recv,))
            if m == "reshape":
                return ('call', 'reshape', (recv, args[0] if len(args) == 1 else ('tuple', tuple(args))))
            kw = _kws(e, self, env)
            return ('call', '.' + m, (recv,) + tuple(args), *((kw,) if kw else ()))
        kw = _kws(e, self, env)
        if isinstance(e.func, ast.Name) and e.func.id in env:
            return ('call', 'apply', (env[e.func.id],) + tuple(args), *((kw,) if kw else ()))
        return ('call', 'f:' + (d or ast.unparse(e.func)), tuple(args), *((kw,) if kw else ()))

    @staticmethod
    def _is_bool(x):
        while isinstance(x, tuple) and x and x[0] == 'call' and x[1] == 'astype' and len(x[2]) == 2:
            x = x[2][0]
        return isinstance(x, tuple) and x and x[0] in ('cmp', 'and', 'or', 'not')

    def _reduce(self, m, x, kw):
        # the sum of a boolean array counts its true entries whatever integer type it is cast to first
        if m == "sum" and isinstance(x, tuple) and x and x[0] == 'call' and x[1] == 'astype' and len(x[2]) == 2 and self._is_bool(x[2][0]) and \
                x[2][1][0] == 'sym' and x[2][1][1] in ("int", "np.int64", "np.int32", "'int'"):
            x = x[2][0]
        # np.min(np.unique(x)) = np.min(x)
        while isinstance(x, tuple) and x[0] == 'call' and x[1] in IDEMPOTENT_UNDER.get(m, ()) and len(x[2]) == 1 and len(x) == 3:
            x = x[2][0]
        return ('call', m, (x,), *((kw,) if kw else ()))

    def _with_dtype(self, v, t):
        if isinstance(v, tuple) and v[0] == 'call' and v[1] in ('zeros', 'full', 'ones', 'empty', 'arange'):
            kw = dict(v[3]) if len(v) > 3 else {}
            kw["dtype"] = t
            return (v[0], v[1], v[2], tuple(sorted(kw.items(), key=lambda x: x[0])))
        return ('call', 'astype', (v, t))

    def _np(self, fn, e, args, env):
        kw = dict(_kws(e, self, env))
        fn = {"absolute": "abs", "amin": "min", "amax": "max", "power": "pow"}.get(fn, fn)
        if fn == "pow" and len(args) == 2:
            return ('pow', args[0], args[1])
        if fn == "count_nonzero" and args:
            fn = "sum"
        if fn == "take" and len(args) == 2 and (not kw or kw.get("axis") == num(0)):
            return ('call', 'getitem', (args[0], _canon_index(args[1])))
        if fn == "where" and len(args) == 3 and args[1] in (('sym', 'True'), num(1)) and args[2] in (('sym', 'False'), num(0)) and _is_boolean_expr(args[0]):
            return args[0]
        if fn == "compress" and len(args) == 2 and not kw:
            return ('call', 'getitem', (args[1], _canon_index(args[0])))
        if fn in REDUCERS and len(args) == 2 and "axis" not in kw:
            kw["axis"] = args[1]
            args = args[:1]
        if fn in REDUCERS and len(args) == 1:
            return self._reduce(fn, args[0], tuple(sorted(kw.items(), key=lambda x: x[0])))
        if fn in ("zeros", "ones", "empty") and args:
            dt = kw.pop("dtype", args[1] if len(args) > 1 else None)
            k2 = {"dtype": dt} if dt else {}
            if fn == "ones":
                return ('call', 'full', (args[0], num(1)), tuple(sorted(k2.items())))
            return ('call', fn, (args[0],), tuple(sorted(k2.items())))
        if fn == "full" and len(args) >= 2:
            dt = kw.pop("dtype", args[2] if len(args) > 2 else None)
            k2 = {"dtype": dt} if dt else {}
            try:
                c = Canon().ratio(args[1])
                if c.is_zero():
                    return ('call', 'zeros', (args[0],), tuple(sorted(k2.items())))
            except Exception:
                pass
            return ('call', 'full', (args[0], args[1]), tuple(sorted(k2.items())))
        if fn in ("array", "asarray", "ascontiguousarray", "atleast_1d", "atleast_2d") and args:
            dt = kw.get("dtype", args[1] if len(args) > 1 and fn in ("array", "asarray") else None)
            v = args[0]
            if fn in ("atleast_1d", "atleast_2d"):
                v = ('call', fn, (v,))
            if fn == "array" and kw.get("copy", num(1)) != num(0):
                v = ('call', 'copy', (v,))
            if dt:
                v = self._with_dtype(v, dt)
            return v
        if fn == "arange" and 1 <= len(args) <= 3 and not kw.get("dtype"):
            start, stop, step = (num(0), args[0], num(1)) if len(args) == 1 else (args[0], args[1], args[2] if len(args) == 3 else num(1))
            # arange(a, b, s) = a + s * arange(N) when b - a is an exact polynomial multiple N of s
            try:
                cn = Canon()
                n = _exact((cn.ratio(stop) - cn.ratio(start)) / cn.ratio(step))
                if n is not None and n.d.is_const():
                    base = ('call', 'arange', (('call', 'count:' + repr(n), ()),))
                    r = base
                    if not cn.ratio(step) == cn.ratio(num(1)):
                        r = ('mul', step, r)
                    if not cn.ratio(start).is_zero():
                        r = ('add', start, r)
                    return r
            except Exception:
                pass
            return ('call', 'arange', (start, stop, step))
        if fn == "copy" and args:
            return ('call', 'copy', (args[0],))
        if fn == "where" and len(args) == 3:
            return ('where', args[0], args[1], args[2])
        if fn in ("float64", "int64", "int32", "float32") and args:
            return args[0]
        if fn in ("log10", "log2") and args:
            return ('div', ('call', 'log', (args[0],)), ('call', 'log', (num(10 if fn == "log10" else 2),)))
        if fn == "square" and args:
            return ('pow', args[0], num(2))
        if fn == "count_nonzero" and len(args) == 1:
            return self._reduce("sum", args[0], ())
        if fn == "flatnonzero" and len(args) == 1:
            return ('call', 'nonzero', (args[0],))
        k3 = tuple(sorted(kw.items(), key=lambda x: x[0]))
        return ('call', fn, tuple(args), *((k3,) if k3 else ()))


def _exact(r):
    """Ratio -> the same value with a constant denominator when the denominator is a single monomial dividing every term"""
    from .formula import Ratio
    from .poly import Poly
    if r.d.is_const():
        return r
    if len(r.d.t) != 1:
        return None
    (md, cd), = r.d.t.items()
    out = {}
    for m, c in r.n.t.items():
        d = dict(m)
        for nme, e in md:
            if d.get(nme, 0) < e:
                return None
            d[nme] -= e
            if d[nme] == 0:
                del d[nme]
        out[tuple(sorted(d.items()))] = c / cd
    return Ratio(Poly(out))


# ------------------------------------------------------------------------------------------------------ evaluation
class Effect:
    def __init__(self, kind, target, key, val, conds, line, loops=()):
        self.kind, self.target, self.key, self.val, self.conds, self.line, self.loops = kind, target, key, val, list(conds), line, tuple(loops)

    def __repr__(self):
        return f"{self.kind} {self.target}[{show(self.key) if self.key is not None else ''}] <- {show(self.val) if self.val is not None else ''} if {[(show(c)[:60], t) for c, t in self.conds]}"


def _alias_alts(v):
    """[(extra conditions, object name)] when v is a plain name or a conditional choice between plain names"""
    if not isinstance(v, tuple):
        return None
    if v[0] == 'sym' and v[1].isidentifier():
        return [([], v[1])]
    if v[0] == 'where':
        a, b = _alias_alts(v[2]), _alias_alts(v[3])
        if a and b:
            return [([(v[1], True)] + c, n) for c, n in a] + [([(v[1], False)] + c, n) for c, n in b]
    return None


def _none_test(t):
    """truth of `<known value> is None` / `is not None`, or None when the value is not known"""
    neg = False
    while isinstance(t, tuple) and t and t[0] == 'not':
        t, neg = t[1], not neg
    if not (isinstance(t, tuple) and t and t[0] == 'call' and t[1] in ('is', 'isnot') and len(t[2]) == 2):
        return None
    a, b = t[2]
    if b != ('sym', 'None'):
        a, b = b, a
    if b != ('sym', 'None'):
        return None
    if a == ('sym', 'None'):
        r = True
    elif isinstance(a, tuple) and a and a[0] == 'tuple':
        r = False
    else:
        return None
    if t[1] == 'isnot':
        r = not r
    return (not r) if neg else r


class Path:
    def __init__(self, conds, env, value, how, line, effects):
        self.conds, self.env, self.value, self.how, self.line, self.effects = conds, env, value, how, line, effects


class _Marker:
    def __init__(self, kind):
        self.kind = kind
        self.lineno = 0


class PEval:
    """symbolic evaluation of a function body.  effects: ('store', name, key, value) for `name[key] = value`,
    ('attr', dotted, None, value) for attribute stores, ('call', '.meth', None, ('tuple', (recv, args..))) for statement calls"""

    def __init__(self, resolve=None, ignore_calls=("warnings.warn", "print", "LOGGER.info")):
        self.b = PB(resolve)
        self.ignore = set(ignore_calls)
        self.paths = []
        self.maxpaths = 600
        self.loopctx = ()
        self.unroll_const = False        # True: `for v in <literal list of <= 8 constants>` is unrolled (break / continue honoured)
        self.merge_ifs = False           # True: an `if` whose branches run straight through (no return / raise / break) does not fork the
                                         # path: its effects carry the test, its assignments become conditional values
        self.record = set()              # call names ('.to_csv', 'f:open') also recorded as effects when their value is assigned
        self.inline = {}                 # name -> FunctionDef: `x = name(args)` / `return name(args)` fork over the callee's paths

    def run(self, fdef, env=None, stmts=None):
        self.paths = []
        e = dict(env or {})
        consts = getattr(fdef, "_modconsts", None)
        if consts:
            own = {a.arg for a in ast.walk(fdef.args) if isinstance(a, ast.arg)}
            used = {n.id for n in ast.walk(fdef) if isinstance(n, ast.Name)}
            for nm, v in consts.items():
                if nm in used and nm not in own and nm not in e:
                    e[nm] = self.ex(v, {})
        self._walk(list(stmts if stmts is not None else fdef.body), e, [], [])
        return self.paths

    def ex(self, node, env):
        return self.b.build(node, env)

    @staticmethod
    def _straight(s):
        for n in ast.walk(s):
            if isinstance(n, (ast.Return, ast.Raise, ast.Break, ast.Continue, ast.Try, ast.With, ast.While)) and n is not s:
                return False
            if isinstance(n, ast.For) and not isinstance(n.iter, (ast.List, ast.Tuple)):
                return False
        return True

    def _callee_paths(self, call, env):
        """paths of an inlinable callee at a call with plain positional / keyword arguments, or None"""
        if not (isinstance(call, ast.Call) and isinstance(call.func, ast.Name) and call.func.id in self.inline):
            return None
        fdef = self.inline[call.func.id]
        a = fdef.args
        if a.vararg or a.kwarg or a.posonlyargs or any(isinstance(x, ast.Starred) for x in call.args) or any(k.arg is None for k in call.keywords):
            return None
        names = [x.arg for x in a.args]
        if len(call.args) > len(names):
            return None
        cenv = {}
        for nm, d in zip(names[len(names) - len(a.defaults):], a.defaults):
            cenv[nm] = self.ex(d, {})
        for nm, d in zip([x.arg for x in a.kwonlyargs], a.kw_defaults):
            if d is not None:
                cenv[nm] = self.ex(d, {})
        for nm, x in zip(names, call.args):
            cenv[nm] = self.ex(x, env)
        for k in call.keywords:
            cenv[k.arg] = self.ex(k.value, env)
        if any(nm not in cenv for nm in names):
            return None
        sub = PEval(self.b.resolve)
        sub.b = self.b
        sub.unroll_const, sub.maxpaths, sub.ignore, sub.record = self.unroll_const, self.maxpaths, self.ignore, self.record
        sub.inline = {k: v for k, v in self.inline.items() if k != call.func.id}
        return sub.run(fdef, cenv)

    def bind(self, t, v, env, effects, conds, line):
        if isinstance(t, ast.Name):
            env[t.id] = v
        elif isinstance(t, (ast.Tuple, ast.List)):
            if isinstance(v, tuple) and v[0] == 'tuple' and len(v[1]) == len(t.elts):
                for a, x in zip(t.elts, v[1]):
                    self.bind(a, x, env, effects, conds, line)
            else:
                for i, a in enumerate(t.elts):
                    if isinstance(v, tuple) and v[0] == 'call' and v[1] == 'attr:shape':
                        self.bind(a, ('call', 'shape', (v[2][0], num(i))), env, effects, conds, line)
                    else:
                        self.bind(a, ('call', 'getitem', (v, num(i))), env, effects, conds, line)
        elif isinstance(t, ast.Subscript):
            base = dotted(t.value) or ast.unparse(t.value)
            key = self.b._index(t.slice, env)
            cur = env.get(base)
            # a local that merely names one of several objects (`target = a if c else b`): the store goes to the object named
            alts = _alias_alts(cur) if isinstance(t.value, ast.Name) else None
            if alts:
                for extra, nm in alts:
                    effects.append(Effect('store', nm, key, v, list(conds) + extra, line, self.loopctx))
                    if not extra:
                        old = env.get(nm, ('sym', nm))
                        env[nm] = ('call', 'setitem', (old, key, v))
                return
            effects.append(Effect('store', base, key, v, conds, line, self.loopctx))
            old = env.get(base, ('sym', base))
            env[base] = ('call', 'setitem', (old, key, v))
        elif isinstance(t, ast.Attribute):
            d = dotted(t) or ast.unparse(t)
            effects.append(Effect('attr', d, None, v, conds, line, self.loopctx))
            env[d] = v

    def _walk(self, stmts, env, conds, effects):
        if len(self.paths) > self.maxpaths:
            raise Undecided("too many paths")
        for i, s in enumerate(stmts):
            line = getattr(s, "lineno", 0)
            self.cur_conds = conds
            if isinstance(s, ast.Expr):
                if isinstance(s.value, ast.Constant):
                    continue
                if isinstance(s.value, ast.Call):
                    d = dotted(s.value.func)
                    if d in self.ignore:
                        continue
                    v = self.ex(s.value, env)
                    effects.append(Effect('call', d or ast.unparse(s.value.func), None, v, conds, line, self.loopctx))
                    # in-place methods change the receiver
                    if isinstance(s.value.func, ast.Attribute) and isinstance(s.value.func.value, ast.Name):
                        r = s.value.func.value.id
                        m = s.value.func.attr
                        if m == "fill" and len(s.value.args) == 1:
                            c = self.ex(s.value.args[0], env)
                            env[r] = ('call', 'filled', (env.get(r, ('sym', r)), c))
                        elif m == "append" and len(s.value.args) == 1 and isinstance(env.get(r), tuple) and env[r][0] == 'tuple':
                            env[r] = ('tuple', env[r][1] + (self.ex(s.value.args[0], env),))
                        elif m == "extend" and len(s.value.args) == 1 and isinstance(env.get(r), tuple) and env[r][0] == 'tuple':
                            a_ = self.ex(s.value.args[0], env)
                            if isinstance(a_, tuple) and a_[0] == 'tuple':
                                env[r] = ('tuple', env[r][1] + a_[1])
                            else:
                                env[r] = ('tuple', env[r][1] + (('call', 'seg', (a_,)),))
                        elif m in ("sort", "append", "extend", "update", "pop", "remove", "insert", "clear"):
                            env[r] = ('call', 'mutated:' + m, (env.get(r, ('sym', r)), v))
                continue
            if isinstance(s, (ast.Import, ast.ImportFrom, ast.Pass, ast.Global, ast.Nonlocal, ast.Assert, ast.Delete)):
                continue
            if isinstance(s, (ast.Assign, ast.Return)) and self.inline and s.value is not None:
                cps = self._callee_paths(s.value, env)
                if cps is not None:
                    for cp in cps:
                        c2, e2 = conds + list(cp.conds), list(effects) + list(cp.effects)
                        if cp.how not in ("return", "end"):
                            self.paths.append(Path(c2, env, ('raise',), 'raise', line, e2))
                            continue
                        env2 = dict(env)
                        if isinstance(s, ast.Return):
                            self.paths.append(Path(c2, env2, cp.value, 'return', line, e2))
                            continue
                        for t in s.targets:
                            self.bind(t, cp.value, env2, e2, c2, line)
                        self._walk(stmts[i + 1:], env2, c2, e2)
                    return
            if isinstance(s, ast.Assign):
                v = self.ex(s.value, env)
                if self.record and isinstance(v, tuple) and v[0] == 'call' and v[1] in self.record:
                    effects.append(Effect('call', v[1], None, v, conds, line, self.loopctx))
                for t in s.targets:
                    self.bind(t, v, env, effects, conds, line)
                continue
            if isinstance(s, ast.AnnAssign) and s.value is not None:
                self.bind(s.target, self.ex(s.value, env), env, effects, conds, line)
                continue
            if isinstance(s, ast.AugAssign):
                op = {ast.Add: 'add', ast.Sub: 'sub', ast.Mult: 'mul', ast.Div: 'div'}.get(type(s.op))
                cur = self.ex(s.target, env) if not isinstance(s.target, ast.Name) else env.get(s.target.id, ('sym', s.target.id))
                rhs = self.ex(s.value, env)
                v = (op, cur, rhs) if op else ('call', 'aug:' + type(s.op).__name__, (cur, rhs))
                self.bind(s.target, v, env, effects, conds, line)
                continue
            if isinstance(s, ast.If) and self.merge_ifs and self._straight(s):
                test = self.ex(s.test, env)
                outs = []
                for body, t in ((s.body, True), (s.orelse, False)):
                    sub = PEval(self.b.resolve)
                    sub.b = self.b
                    sub.unroll_const, sub.maxpaths, sub.ignore, sub.record, sub.inline, sub.merge_ifs = \
                        self.unroll_const, self.maxpaths, self.ignore, self.record, self.inline, True
                    sub.loopctx = self.loopctx
                    sub._walk(list(body), dict(env), conds + [(test, t)], [])
                    outs.append(sub.paths)
                if all(len(o) == 1 and o[0].how == 'end' for o in outs):
                    (pt,), (pf,) = outs
                    effects.extend(pt.effects)
                    effects.extend(pf.effects)
                    for k in set(pt.env) | set(pf.env):
                        a_, b_ = pt.env.get(k, env.get(k)), pf.env.get(k, env.get(k))
                        if a_ is None or b_ is None:
                            a_ = a_ if a_ is not None else ('sym', k)
                            b_ = b_ if b_ is not None else ('sym', k)
                        env[k] = a_ if a_ == b_ else ('where', test, a_, b_)
                    continue
            if isinstance(s, ast.If):
                test = self.ex(s.test, env)
                rest = stmts[i + 1:]
                known = _none_test(test)
                if known is not None:
                    # `x is None` on a value the evaluation knows (the literal None, or a freshly built tuple): only one branch is live
                    self._walk(list(s.body if known else s.orelse) + rest, dict(env), conds, list(effects))
                    return
                self._walk(list(s.body) + rest, dict(env), conds + [(test, True)], list(effects))
                self._walk(list(s.orelse) + rest, dict(env), conds + [(test, False)], list(effects))
                return
            if isinstance(s, ast.Return):
                v = self.ex(s.value, env) if s.value is not None else ('sym', 'None')
                self.paths.append(Path(conds, env, v, 'return', line, effects))
                return
            if isinstance(s, ast.Raise):
                self.paths.append(Path(conds, env, ('raise',), 'raise', line, effects))
                return
            if isinstance(s, _Marker):
                continue
            if isinstance(s, (ast.Break, ast.Continue)):
                rest = stmts[i + 1:]
                want = "endloop" if isinstance(s, ast.Break) else "endit"
                pos = [k for k, x in enumerate(rest) if isinstance(x, _Marker) and x.kind == want]
                if pos:
                    return self._walk(rest[pos[0] + 1:], env, conds, effects)
                self.paths.append(Path(conds, env, None, type(s).__name__.lower(), line, effects))
                return
            if isinstance(s, ast.For) and self.unroll_const and isinstance(s.iter, (ast.List, ast.Tuple)) and len(s.iter.elts) <= 8 and \
                    all(isinstance(x, ast.Constant) for x in s.iter.elts) and not s.orelse:
                flat = []
                for x in s.iter.elts:
                    flat.append(ast.copy_location(ast.Assign(targets=[s.target], value=x), s))
                    flat += list(s.body)
                    flat.append(_Marker("endit"))
                flat.append(_Marker("endloop"))
                return self._walk(flat + stmts[i + 1:], env, conds, effects)
            if isinstance(s, (ast.For, ast.While)):
                self._loop(s, env, conds, effects)
                continue
            if isinstance(s, ast.With):
                for it in s.items:
                    if it.optional_vars is not None:
                        self.bind(it.optional_vars, ('call', 'with', (self.ex(it.context_expr, env),)), env, effects, conds, line)
                return self._walk(list(s.body) + stmts[i + 1:], env, conds, effects)
            if isinstance(s, ast.Try):
                # the protected body is taken as executed; handlers are alternative continuations not followed
                return self._walk(list(s.body) + list(s.orelse) + list(s.finalbody) + stmts[i + 1:], env, conds, effects)
            if isinstance(s, (ast.FunctionDef, ast.ClassDef)):
                env[s.name] = ('sym', 'def:' + s.name)
                continue
            raise Undecided(f"statement {type(s).__name__}")
        self.paths.append(Path(conds, env, ('sym', 'None'), 'end', getattr(stmts[-1], "lineno", 0) if stmts else 0, effects))

    def _loop(self, s, env, conds, effects):
        stored = {n.id for n in ast.walk(s) if isinstance(n, ast.Name) and isinstance(n.ctx, ast.Store)}
        for n in ast.walk(s):
            if isinstance(n, (ast.Subscript, ast.Attribute)) and isinstance(n.ctx, ast.Store):
                b = n.value
                while isinstance(b, (ast.Subscript, ast.Attribute)):
                    b = b.value
                if isinstance(b, ast.Name):
                    stored.add(b.id)
        # a local that names one of several objects (`t = a if c else b`; `t = a`): a store through it is a store into each of them
        alias = {}
        for n in ast.walk(s):
            if isinstance(n, ast.Assign) and len(n.targets) == 1 and isinstance(n.targets[0], ast.Name):
                v_ = n.value
                names = [v_.id] if isinstance(v_, ast.Name) else \
                    [x.id for x in (v_.body, v_.orelse) if isinstance(x, ast.Name)] if isinstance(v_, ast.IfExp) else []
                if names and (isinstance(v_, ast.Name) or len(names) == 2):
                    alias.setdefault(n.targets[0].id, set()).update(names)
        for n in ast.walk(s):
            if isinstance(n, (ast.Subscript, ast.Attribute)) and isinstance(n.ctx, ast.Store) and isinstance(n.value, ast.Name) and n.value.id in alias:
                stored |= alias[n.value.id]
        sub_env = {k: v for k, v in env.items() if k.split(".")[0] not in stored}
        tag = f"loop@{s.lineno}"
        if isinstance(s, ast.For):
            it = self.ex(s.iter, sub_env)
            self.bind(s.target, ('call', 'elem', (it,)), sub_env, [], conds, s.lineno)
            c0 = []
        else:
            c0 = [(self.ex(s.test, sub_env), True)]
        sub = PEval(self.b.resolve)
        sub.b = self.b
        sub.loopctx = self.loopctx + (tag,)
        sub.maxpaths = self.maxpaths
        sub.ignore, sub.inline = self.ignore, self.inline          # (path-shaping options stay per level: rules read loop paths as written)
        sub._walk(list(s.body), dict(sub_env), conds + c0, [])
        seen = set()
        for p in sub.paths:
            for e in p.effects:
                if id(e) not in seen:
                    seen.add(id(e))
                    effects.append(e)
        self.loop_paths = getattr(self, "loop_paths", []) + [(tag, p) for p in sub.paths]
        appended = {}
        for p in sub.paths:
            for e in p.effects:
                if e.kind == 'call' and e.target.endswith(".append") and e.target.count(".") == 1 and pq_call(e.val, ".append"):
                    appended.setdefault(e.target.split(".")[0], [])
                    a_ = e.val[2][1]
                    if not any(a_ == x for x in appended[e.target.split(".")[0]]):
                        appended[e.target.split(".")[0]].append(a_)
        for k in list(env):
            if k.split(".")[0] in stored:
                env[k] = ('sym', f"{k}'{s.lineno}")
        for k in stored:
            env.setdefault(k, ('sym', f"{k}'{s.lineno}"))
        # a list that the loop only appends to keeps what it held before, followed by a segment of the appended items
        assigned = {n.id for n in ast.walk(s) if isinstance(n, ast.Name) and isinstance(n.ctx, ast.Store)}
        for nm, items in appended.items():
            old = sub_env.get(nm)
            if nm not in assigned and isinstance(old, tuple) and old and old[0] == 'tuple':
                env[nm] = ('tuple', old[1] + (('call', 'seg', tuple(items)),))


# ------------------------------------------------------------------------------------------------------ comparison
def parse(s, env=None):
    if isinstance(s, tuple):
        return s
    return PB().build(ast.parse(s, mode="eval").body, env or {})


def lift_where(e, depth=0):
    """f(.., where(c, a, b), ..) -> where(c, f(.., a, ..), f(.., b, ..)): conditionals are compared at the outermost position"""
    if not isinstance(e, tuple) or not e or not isinstance(e[0], str) or depth > 6:
        return e
    if e[0] in ('sym', 'num', 'nan', 'x'):
        return e

    def rebuild(node, path, new):
        if not path:
            return new
        i = path[0]
        child = node[i]
        if isinstance(child, tuple) and child and isinstance(child[0], str):
            rep_ = rebuild(child, path[1:], new)
        else:
            j = path[1]
            lst = list(child)
            lst[j] = rebuild(lst[j], path[2:], new)
            rep_ = tuple(lst)
            return node[:i] + (rep_,) + node[i + 1:]
        return node[:i] + (rep_,) + node[i + 1:]

    def first_where(node, path=()):
        if isinstance(node, tuple) and node and node[0] == 'where' and path:
            return path, node
        if not isinstance(node, tuple) or not node or not isinstance(node[0], str) or node[0] in ('sym', 'num', 'nan', 'x'):
            return None
        start = 2 if node[0] == 'where' else 1      # do not lift out of a where's own condition position into itself
        for i in range(1, len(node)):
            c = node[i]
            if isinstance(c, tuple) and c and isinstance(c[0], str):
                r = first_where(c, path + (i,))
                if r:
                    return r
            elif isinstance(c, tuple):
                for j, x in enumerate(c):
                    if isinstance(x, tuple) and x and isinstance(x[0], str):
                        r = first_where(x, path + (i, j))
                        if r:
                            return r
        return None
    if e[0] == 'where':
        return ('where', e[1], lift_where(e[2], depth + 1), lift_where(e[3], depth + 1))
    r = first_where(e)
    if r is None:
        return e
    path, w = r
    return ('where', w[1], lift_where(rebuild(e, path, w[2]), depth + 1), lift_where(rebuild(e, path, w[3]), depth + 1))


def sort_bool(e):
    """and / or are commutative and associative: operands flattened and put in a canonical order"""
    if not isinstance(e, tuple) or not e or not isinstance(e[0], str) or e[0] in ('sym', 'num', 'nan', 'x'):
        return e
    if e[0] == 'cmp' and e[1] in ('>', '>='):
        return ('cmp', {'>': '<', '>=': '<='}[e[1]], sort_bool(e[3]), sort_bool(e[2]))
    if e[0] in ('and', 'or'):
        ops = []

        def flat(x):
            if isinstance(x, tuple) and x and x[0] == e[0]:
                flat(x[1])
                flat(x[2])
            else:
                ops.append(sort_bool(x))
        flat(e)
        ops.sort(key=show)
        r = ops[0]
        for o in ops[1:]:
            r = (e[0], r, o)
        return r
    out = [e[0]]
    for c in e[1:]:
        if isinstance(c, tuple) and c and isinstance(c[0], str):
            out.append(sort_bool(c))
        elif isinstance(c, tuple):
            out.append(tuple(sort_bool(x) if isinstance(x, tuple) and x and isinstance(x[0], str) else
                             (tuple(sort_bool(y) if isinstance(y, tuple) and y and isinstance(y[0], str) else y for y in x) if isinstance(x, tuple) else x)
                             for x in c))
        else:
            out.append(c)
    return tuple(out)


FLOAT_TYPES = {"float", "np.float64", "'float64'", "'float'", "np.double", "np.float32"}


def strip_float_casts(e):
    """x.astype(float) carries the value of x (integers are represented exactly): transparent for value comparisons"""
    if not isinstance(e, tuple) or not e or not isinstance(e[0], str) or e[0] in ('sym', 'num', 'nan', 'x'):
        return e
    if e[0] == 'call' and e[1] == 'astype' and len(e[2]) == 2 and e[2][1][0] == 'sym' and e[2][1][1] in FLOAT_TYPES:
        return strip_float_casts(e[2][0])
    out = [e[0]]
    for c in e[1:]:
        if isinstance(c, tuple) and c and isinstance(c[0], str):
            out.append(strip_float_casts(c))
        elif isinstance(c, tuple):
            out.append(tuple(strip_float_casts(x) if isinstance(x, tuple) and x and isinstance(x[0], str) else
                             (tuple(strip_float_casts(y) if isinstance(y, tuple) and y and isinstance(y[0], str) else y for y in x) if isinstance(x, tuple) else x)
                             for x in c))
        else:
            out.append(c)
    return tuple(out)


def same(a, b, env=None, values=False):
    """values=True: float casts are transparent (comparison of the values computed, not of the dtypes)"""
    try:
        pa, pb = parse(a, env), parse(b, env)
        if pa == pb:
            return True
        if values:
            pa, pb = strip_float_casts(pa), strip_float_casts(pb)
        c = Canon()
        return c.ratio(sort_bool(lift_where(pa))) == c.ratio(sort_bool(lift_where(pb)))
    except Exception:
        if os.environ.get("HV_DEBUG_SAME"):
            import traceback
            traceback.print_exc()
        return False


def _resolve(e, cond, truth):
    """every conditional on `cond` inside e replaced by the branch selected by `truth`"""
    if not isinstance(e, tuple) or not e or not isinstance(e[0], str) or e[0] in ('sym', 'num', 'nan', 'x'):
        return e
    if e[0] == 'where' and e[1] == cond:
        return _resolve(e[2] if truth else e[3], cond, truth)
    out = [e[0]]
    for c in e[1:]:
        if isinstance(c, tuple) and c and isinstance(c[0], str):
            out.append(_resolve(c, cond, truth))
        elif isinstance(c, tuple):
            out.append(tuple(_resolve(x, cond, truth) if isinstance(x, tuple) and x and isinstance(x[0], str) else
                             (tuple(_resolve(y, cond, truth) if isinstance(y, tuple) and y and isinstance(y[0], str) else y for y in x) if isinstance(x, tuple) else x)
                             for x in c))
        else:
            out.append(c)
    return tuple(out)


def _first_cond(e):
    if not isinstance(e, tuple) or not e or not isinstance(e[0], str) or e[0] in ('sym', 'num', 'nan', 'x'):
        return None
    if e[0] == 'where':
        return e[1]
    for c in e[1:]:
        if isinstance(c, tuple) and c and isinstance(c[0], str):
            r = _first_cond(c)
            if r is not None:
                return r
        elif isinstance(c, tuple):
            for x in c:
                if isinstance(x, tuple) and x and isinstance(x[0], str):
                    r = _first_cond(x)
                    if r is not None:
                        return r
                elif isinstance(x, tuple):
                    for y in x:
                        if isinstance(y, tuple) and y and isinstance(y[0], str):
                            r = _first_cond(y)
                            if r is not None:
                                return r
    return None


def split_where(e, conds=(), depth=0):
    """alternatives of an Expr with conditionals resolved consistently (one truth value per condition):
    list of (conds, Expr without where)"""
    c = _first_cond(e) if depth < 8 else None
    if c is None:
        return [(list(conds), e)]
    return split_where(_resolve(e, c, True), conds + ((c, True),), depth + 1) + split_where(_resolve(e, c, False), conds + ((c, False),), depth + 1)


def mentions(e, pred):
    """does Expr e contain a sub-expression satisfying pred"""
    if not isinstance(e, tuple):
        return False
    if pred(e):
        return True
    for c in e[1:]:
        if isinstance(c, tuple):
            if c and isinstance(c[0], str):
                if mentions(c, pred):
                    return True
            else:
                for x in c:
                    if isinstance(x, tuple) and mentions(x, pred):
                        return True
    return False


def find(e, pred, acc=None):
    acc = [] if acc is None else acc
    if not isinstance(e, tuple):
        return acc
    if e and isinstance(e[0], str):
        if pred(e):
            acc.append(e)
        for c in e[1:]:
            if isinstance(c, tuple):
                if c and isinstance(c[0], str):
                    find(c, pred, acc)
                else:
                    for x in c:
                        if isinstance(x, tuple):
                            find(x, pred, acc)
    return acc


def pq_call(e, name):
    return isinstance(e, tuple) and len(e) >= 3 and e[0] == 'call' and e[1] == name


def call_named(e, name):
    return isinstance(e, tuple) and len(e) >= 3 and e[0] == 'call' and e[1] == name


def kw_of(e, key):
    """keyword argument (Expr) of a call Expr"""
    if isinstance(e, tuple) and e[0] == 'call' and len(e) > 3:
        return dict(e[3]).get(key)
    return None


def call_arguments(fdef, call, names, base=PEval):
    """symbolic values of the arguments of `call` (an ast.Call inside fdef), per parameter name, merged over the paths that
    reach it: equal values collapse, two values that differ on one recorded condition become a conditional expression"""
    seen = []

    class H(base):
        def ex(self, node, env):
            if any(n is call for n in ast.walk(node)):
                flat = []
                for a in call.args:
                    if isinstance(a, ast.Starred):
                        # f(*args) with args a tuple built in this function: its items are the positional arguments
                        tv = base.ex(self, a.value, env)
                        if isinstance(tv, tuple) and tv[0] == 'tuple':
                            flat += list(tv[1])
                        else:
                            flat = None
                            break
                    else:
                        flat.append(base.ex(self, a, env))
                vals = dict(zip(names, flat)) if flat is not None else {}
                for k in call.keywords:
                    if k.arg:
                        vals[k.arg] = base.ex(self, k.value, env)
                seen.append((list(getattr(self, "cur_conds", [])), vals))
            return super().ex(node, env)
    H().run(fdef)
    out = {}

    def merge(alts, depth):
        vals = []
        for _c, v in alts:
            if not any(same(v, w) for w in vals):
                vals.append(v)
        if len(vals) == 1:
            return vals[0]
        withc = [a for a in alts if len(a[0]) > depth]
        if len(withc) != len(alts):
            return ('call', 'alt', tuple(vals))
        c0 = alts[0][0][depth][0]
        if not all(show(a[0][depth][0]) == show(c0) for a in alts):
            return ('call', 'alt', tuple(vals))
        t = [a for a in alts if a[0][depth][1]]
        f = [a for a in alts if not a[0][depth][1]]
        if not t or not f:
            return merge(alts, depth + 1)
        mt, mf = merge(t, depth + 1), merge(f, depth + 1)
        if same(mt, mf):
            return mt
        return ('where', c0, mt, mf)
    for nm in {k for _, v in seen for k in v}:
        out[nm] = merge([(c, v[nm]) for c, v in seen if nm in v], 0)
    return out


def site_paths(site):
    """wrapper_paths for an xlayer call site: every array argument bound to a local name is taken as written by the kernel"""
    argname = {v[0].id: pn for pn, v in site.args.items() if isinstance(v[0], ast.Name) and
               getattr(site.shim.params.get(pn), "kind", None) == "arr"}
    return wrapper_paths(site.func, site.call, argname, force=True)


def wrapper_paths(fdef, call, argname, force=False):
    """paths of a wrapper function; after the statement containing the kernel call every freshly allocated array argument is the
    symbol K.<kernel parameter> (the kernel has written it).  argname: local variable name -> kernel parameter name.
    -> (paths, {kernel parameter: the value handed in})"""
    before = {}

    class Hook(PEval):
        def ex(self, node, env):
            v = super().ex(node, env)
            if any(n is call for n in ast.walk(node)):
                for a in call.args:
                    if isinstance(a, ast.Name) and a.id in argname:
                        cur = env.get(a.id)
                        fresh = isinstance(cur, tuple) and cur and cur[0] == 'call' and cur[1] in ('zeros', 'full', 'empty', 'ones')
                        fresh = fresh or (isinstance(cur, tuple) and cur and cur[0] == 'mul')        # 0. * x, -1 * np.ones(..)
                        if fresh or (force and cur is not None and cur != ('sym', a.id)):
                            before[argname[a.id]] = cur
                            env[a.id] = ('sym', 'K.' + argname[a.id])
            return v
    return Hook().run(fdef), before


def kparse(txt, params):
    """rule notation with K_<param> standing for the kernel-written buffer of that parameter"""
    return parse(txt, {"K_" + p: ('sym', 'K.' + p) for p in params})


def cond_truth(conds, want, env=None):
    """truth value the recorded path conditions give to the (boolean) expression `want`: True / False / None"""
    w = parse(want, env)
    for c, t in conds:
        while isinstance(c, tuple) and c and c[0] == 'not':
            c, t = c[1], not t
        if same(c, w):
            return t
    return None


def flat_conds(conds):
    """recorded path conditions with conjunctions split and negations folded into the truth value: list of (atom Expr, truth)"""
    out = []

    def add(c, t):
        while isinstance(c, tuple) and c and c[0] == 'not':
            c, t = c[1], not t
        if isinstance(c, tuple) and c and c[0] == 'and' and t:
            add(c[1], True)
            add(c[2], True)
        elif isinstance(c, tuple) and c and c[0] == 'or' and not t:
            add(c[1], False)
            add(c[2], False)
        else:
            out.append((c, t))
    for c, t in conds:
        add(c, t)
    return out


def order_value(e, ranks, syms):
    """value of an expression built from the symbols `syms` (dict Expr-text -> name) with min / max / where / comparisons, under a weak
    ordering `ranks` (name -> rank): returns the name of the symbol it evaluates to, True/False for a boolean, or None"""
    k = show(e)
    if k in syms:
        return syms[k]
    if not isinstance(e, tuple):
        return None
    if e[0] == 'call' and e[1] in ('py.min', 'py.max', 'min', 'max', 'minimum', 'maximum') and len(e[2]) == 2:
        a, b = order_value(e[2][0], ranks, syms), order_value(e[2][1], ranks, syms)
        if a is None or b is None or a not in ranks or b not in ranks:
            return None
        lo = e[1].endswith(('min', 'minimum'))
        if ranks[a] is None or ranks[b] is None:
            # a rank of None is NaN.  Python's min / max keep their first argument unless a later one compares strictly smaller /
            # greater (never true against NaN); numpy's minimum / maximum / clip propagate NaN
            if e[1].startswith('py.'):
                return a
            return a if ranks[a] is None else b
        if ranks[a] == ranks[b]:
            return a
        return (a if ranks[a] < ranks[b] else b) if lo else (a if ranks[a] > ranks[b] else b)
    if e[0] == 'call' and e[1] == 'isnan' and len(e[2]) == 1:
        a = order_value(e[2][0], ranks, syms)
        return (ranks[a] is None) if a in ranks else None
    if e[0] == 'cmp':
        a, b = order_value(e[2], ranks, syms), order_value(e[3], ranks, syms)
        if a not in ranks or b not in ranks:
            return None
        ra, rb = ranks[a], ranks[b]
        if ra is None or rb is None:
            return e[1] == '!='
        return {"<": ra < rb, "<=": ra <= rb, ">": ra > rb, ">=": ra >= rb, "==": ra == rb, "!=": ra != rb}[e[1]]
    if e[0] == 'where':
        c = order_value(e[1], ranks, syms)
        if c is True:
            return order_value(e[2], ranks, syms)
        if c is False:
            return order_value(e[3], ranks, syms)
        return None
    if e[0] in ('and', 'or'):
        a, b = order_value(e[1], ranks, syms), order_value(e[2], ranks, syms)
        if not isinstance(a, bool) or not isinstance(b, bool):
            return None
        return (a and b) if e[0] == 'and' else (a or b)
    if e[0] == 'not':
        a = order_value(e[1], ranks, syms)
        return (not a) if isinstance(a, bool) else None
    if e[0] == 'call' and e[1] in ('clip',) and len(e[2]) == 3:
        return order_value(('call', 'py.min', (('call', 'py.max', (e[2][0], e[2][1])), e[2][2])), ranks, syms)
    return None


# ------------------------------------------------------------------------------------------------------ row masks as truth tables
VALID_FNS = {'.notnull', '.notna', 'isfinite', 'notnull', 'notna'}
MISSING_FNS = {'isnan', '.isnull', '.isna', 'isnull', 'isna'}


def selector_mask(sel):
    """the boolean mask behind a row selector: m, (m, :), np.nonzero(m), np.flatnonzero(m), np.where(m), np.nonzero(m)[0]"""
    if isinstance(sel, tuple) and sel and sel[0] == 'tuple' and len(sel[1]) == 2 and sel[1][1] == ('call', 'slice', (('sym', 'None'),) * 3):
        return selector_mask(sel[1][0])
    if call_named(sel, "getitem") and sel[2][1] == ('num', 0) and (call_named(sel[2][0], "nonzero") or call_named(sel[2][0], "where")) and len(sel[2][0][2]) == 1:
        return selector_mask(sel[2][0][2][0])
    if (call_named(sel, "nonzero") or call_named(sel, "flatnonzero") or call_named(sel, "where")) and len(sel[2]) == 1:
        return selector_mask(sel[2][0])
    return sel


def mask_truth(e, leaf):
    """value (True / False / None) of a per-row boolean mask for one row, given leaf(expr) -> True / False / None for the atomic tests
    (`valid(x)` / `missing(x)` of a series, `any` / `all` of those along the members of a row)"""
    if not isinstance(e, tuple) or not e:
        return None
    r = leaf(e)
    if r is not None:
        return r
    k = e[0]
    if k in ('not', 'bnot') or (k == 'call' and e[1] in ('invert', 'logical_not') and len(e[2]) == 1):
        a = mask_truth(e[1] if k != 'call' else e[2][0], leaf)
        return None if a is None else not a
    if k in ('and', 'or', 'band', 'bor') or (k == 'call' and e[1] in ('logical_and', 'logical_or') and len(e[2]) == 2):
        x, y = (e[1], e[2]) if k != 'call' else e[2]
        a, b = mask_truth(x, leaf), mask_truth(y, leaf)
        conj = k in ('and', 'band') or (k == 'call' and e[1] == 'logical_and')
        if conj:
            if a is False or b is False:
                return False
            return True if (a is True and b is True) else None
        if a is True or b is True:
            return True
        return False if (a is False and b is False) else None
    return None


def series_leaf(series_of):
    """leaf classifier for mask_truth.  series_of(expr) names the data series an expression stands for (or None); the returned
    function maps atomic tests to variables: ('valid', s) for 1-D series, ('any', s) / ('all', s) for the members of a 2-D one."""
    def atom(e):
        if e[0] != 'call':
            return None
        name, args = e[1], e[2]
        kws = dict(e[3]) if len(e) > 3 else {}
        x = args[-1] if name.startswith('.') and len(args) == 2 and args[0] in (('sym', 'pd'), ('sym', 'np')) else (args[0] if len(args) >= 1 else None)
        if x is None:
            return None
        if name in VALID_FNS or name in MISSING_FNS:
            s = series_of(x)
            return (('valid', s), name in VALID_FNS) if s else None
        if name in ('any', 'all', '.any', '.all') and (kws.get('axis') in (('num', 1), ('num', -1)) or (len(args) == 2 and args[1] in (('num', 1), ('num', -1)))):
            inner = atom(args[0])
            if inner is None or inner[0][0] != 'valid':
                return None
            s = inner[0][1]
            # any(valid) = ANY ; all(valid) = ALL ; any(missing) = not ALL ; all(missing) = not ANY
            isany = name.lstrip('.') == 'any'
            if inner[1]:
                return (('any' if isany else 'all', s), True)
            return (('all' if isany else 'any', s), False)
        return None
    return atom


def mask_table(e, series_of, series):
    """truth table of a row mask over every consistent assignment of: valid(s) for 1-D series, (any, all) valid members for 2-D series
    `series` = {name: 1 | 2}.  -> dict assignment(tuple of items) -> True / False / None"""
    import itertools
    atom = series_leaf(series_of)
    vars_ = []
    for s, nd in sorted(series.items()):
        vars_ += [('valid', s)] if nd == 1 else [('any', s), ('all', s)]
    out = {}
    for vals in itertools.product((False, True), repeat=len(vars_)):
        asg = dict(zip(vars_, vals))
        if any(asg.get(('all', s)) and not asg.get(('any', s)) for s, nd in series.items() if nd == 2):
            continue

        def leaf(x, asg=asg):
            a = atom(x)
            if a is None:
                return None
            v = asg.get(a[0])
            return None if v is None else (v if a[1] else not v)
        out[tuple(sorted(asg.items()))] = mask_truth(e, leaf)
    return out
