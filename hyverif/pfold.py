"""Constant folding of evaluated Python expressions under a binding of some sub-expressions to literals.

`fold(e, bind)` replaces every sub-expression that is a key of `bind` by its literal and evaluates the string / boolean /
container operations whose operands have become literals (Python semantics of str methods, `in`, comparisons, dict and
list literals, conditional expressions).  What cannot be folded stays symbolic.  Literals are represented as
('lit', python value); `value(e)` returns the python value or raises KeyError."""
from fractions import Fraction

from .formula import show

LIT = 'lit'


class FD(dict):
    """hashable dict literal"""

    def __hash__(self):
        return hash(tuple(sorted((repr(k), repr(v)) for k, v in self.items())))


def _freeze(v):
    if isinstance(v, dict) and not isinstance(v, FD):
        return FD({_freeze(k): _freeze(x) for k, x in v.items()})
    if isinstance(v, (list, tuple)):
        return tuple(_freeze(x) for x in v)
    if isinstance(v, set):
        return frozenset(_freeze(x) for x in v)
    return v


def lit(v):
    return (LIT, _freeze(v))


def is_lit(e):
    return isinstance(e, tuple) and len(e) == 2 and e[0] == LIT


def _const(e):
    """literal of a leaf produced by the builder, or None"""
    if e[0] == 'num':
        f = e[1]
        return lit(int(f) if isinstance(f, Fraction) and f.denominator == 1 else float(f))
    if e[0] == 'sym':
        s = e[1]
        if len(s) >= 2 and s[0] in "'\"" and s[-1] == s[0]:
            try:
                import ast
                return lit(ast.literal_eval(s))
            except Exception:
                return lit(s[1:-1])
        if s in ("True", "False", "None"):
            return lit({"True": True, "False": False, "None": None}[s])
    return None


_STR1 = {".lower": str.lower, ".upper": str.upper, ".strip": str.strip, ".lstrip": str.lstrip, ".rstrip": str.rstrip, ".title": str.title}
_STR2 = {".startswith": str.startswith, ".endswith": str.endswith, ".strip": str.strip, ".lstrip": str.lstrip, ".rstrip": str.rstrip,
         ".split": str.split, ".find": str.find, ".count": str.count}


def fold(e, bind):
    if not isinstance(e, tuple) or not e or not isinstance(e[0], str):
        return e
    if e in bind:
        return bind[e]
    if e[0] == LIT:
        return e
    c = _const(e) if e[0] in ('num', 'sym') else None
    if c is not None:
        return c
    k = e[0]
    if k == 'sym':
        return e
    if k == 'tuple':
        items = tuple(fold(x, bind) for x in e[1])
        if all(is_lit(x) for x in items):
            return lit(tuple(x[1] for x in items))
        return ('tuple', items)
    if k == 'not':
        a = fold(e[1], bind)
        return lit(not a[1]) if is_lit(a) else ('not', a)
    if k in ('and', 'or'):
        a, b = fold(e[1], bind), fold(e[2], bind)
        if is_lit(a):
            if k == 'and':
                return b if a[1] else a
            return a if a[1] else b
        if is_lit(b):
            if k == 'and' and not b[1]:
                return b
            if k == 'or' and b[1]:
                return lit(True) if isinstance(b[1], bool) else (k, a, b)
        return (k, a, b)
    if k == 'cmp':
        a, b = fold(e[2], bind), fold(e[3], bind)
        if is_lit(a) and is_lit(b):
            try:
                return lit({'==': a[1] == b[1], '!=': a[1] != b[1], '<': a[1] < b[1], '<=': a[1] <= b[1], '>': a[1] > b[1], '>=': a[1] >= b[1]}[e[1]])
            except Exception:
                pass
        return ('cmp', e[1], a, b)
    if k == 'where':
        c_ = fold(e[1], bind)
        if is_lit(c_):
            return fold(e[2] if c_[1] else e[3], bind)
        return ('where', c_, fold(e[2], bind), fold(e[3], bind))
    if k in ('add', 'sub', 'mul', 'div'):
        a, b = fold(e[1], bind), fold(e[2], bind)
        if is_lit(a) and is_lit(b):
            try:
                if k == 'add':
                    return lit(a[1] + b[1])
                if k == 'mul':
                    return lit(a[1] * b[1])
                if k == 'sub':
                    return lit(a[1] - b[1])
            except Exception:
                pass
        return (k, a, b)
    if k == 'call':
        name = e[1]
        args = tuple(fold(a, bind) for a in e[2])
        kws = tuple((kk, fold(v, bind)) for kk, v in e[3]) if len(e) > 3 else ()
        allc = all(is_lit(a) for a in args) and not kws
        try:
            if allc and name in _STR1 and len(args) == 1 and isinstance(args[0][1], str):
                return lit(_STR1[name](args[0][1]))
            if allc and name in _STR2 and len(args) == 2 and isinstance(args[0][1], str):
                r = _STR2[name](args[0][1], args[1][1])
                return lit(tuple(r) if isinstance(r, list) else r)
            if allc and name == 'in' and len(args) == 2:
                return lit(args[0][1] in args[1][1])
            if allc and name in ('py.int', 'py.float', 'py.bool') and len(args) == 1:
                return lit({'py.int': int, 'py.float': float, 'py.bool': bool}[name](args[0][1]))
            if allc and name == 'py.str' and len(args) == 1:
                return lit(str(args[0][1]))
            if allc and name == 'fstr':
                return lit("".join(str(a[1]) for a in args))
            if allc and name == 'getitem' and len(args) == 2:
                return lit(args[0][1][args[1][1]])
            if allc and name == '.join' and len(args) == 2:
                return lit(args[0][1].join(args[1][1]))
            if allc and name in ('is', 'isnot') and len(args) == 2:
                return lit((args[0][1] is args[1][1]) == (name == 'is'))
            if name in ('.sub', '.split', '.search', '.match') and len(args) >= 3 and args[0] == ('sym', 're') and all(is_lit(a) for a in args[1:]):
                import re
                vals = [a[1] for a in args[1:]]
                if name == '.sub' and len(vals) == 3:
                    return lit(re.sub(vals[0], vals[1], vals[2]))
                if name == '.split' and len(vals) == 2:
                    return lit(tuple(re.split(vals[0], vals[1])))
                if name in ('.search', '.match') and len(vals) == 2:
                    return lit(getattr(re, name[1:])(vals[0], vals[1]) is not None)
            if name == 'dict' and len(args) == 2 and all(is_lit(a) and isinstance(a[1], tuple) for a in args) and len(args[0][1]) == len(args[1][1]):
                return lit(dict(zip(args[0][1], args[1][1])))
            if name == '.get' and len(args) in (2, 3) and is_lit(args[0]) and isinstance(args[0][1], dict) and is_lit(args[1]):
                d_ = args[0][1]
                if args[1][1] in d_:
                    return lit(d_[args[1][1]])
                return args[2] if len(args) == 3 else lit(None)
        except Exception:
            pass
        return ('call', name, args, kws) if kws else ('call', name, args)
    if k == 'neg':
        a = fold(e[1], bind)
        return lit(-a[1]) if is_lit(a) and isinstance(a[1], (int, float)) else ('neg', a)
    return e


def truth(c, bind):
    """True / False / None of a condition under a binding"""
    r = fold(c, bind)
    if is_lit(r):
        return bool(r[1])
    return None


def live(path, bind):
    """the path's recorded conditions are consistent with the binding (conditions that stay symbolic are ignored)"""
    for c, t in path.conds:
        r = truth(c, bind)
        if r is not None and r != t:
            return False
    return True


def text(e):
    return repr(e[1]) if is_lit(e) else show(e)
