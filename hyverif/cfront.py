"""clang JSON AST loader (prototype).  Annotates every node with '_line'."""
import json
import subprocess
import os


def load_tu(path):
    out = subprocess.run(
        ["clang", "-fsyntax-only", "-Xclang", "-ast-dump=json", path],
        capture_output=True, text=True, cwd=os.path.dirname(path) or ".")
    if out.returncode != 0 and not out.stdout:
        raise RuntimeError(out.stderr)
    tu = json.loads(out.stdout)
    _annot(tu, [None, None])
    return tu


def _upd(loc, cur):
    """clang delta-encodes file/line; replay in print order."""
    if not loc:
        return
    for sub in ("spellingLoc", "expansionLoc"):
        if sub in loc:
            _upd(loc[sub], cur)
    if "file" in loc:
        cur[0] = loc["file"]
    if "line" in loc:
        cur[1] = loc["line"]


def _annot(n, cur):
    """replay clang's delta encoding: loc, range.begin, range.end, children"""
    if not isinstance(n, dict):
        return
    _upd(n.get("loc"), cur)
    rng = n.get("range", {})
    _upd(rng.get("begin"), cur)
    n["_line"] = cur[1]
    n["_file"] = cur[0]
    _upd(rng.get("end"), cur)
    for c in n.get("inner", []):
        _annot(c, cur)


def functions(tu, mainfile):
    base = os.path.basename(mainfile)
    fns = {}
    protos = {}
    for d in tu.get("inner", []):
        if d.get("kind") != "FunctionDecl":
            continue
        body = [c for c in d.get("inner", []) if c.get("kind") == "CompoundStmt"]
        params = [c for c in d.get("inner", []) if c.get("kind") == "ParmVarDecl"]
        loc = d.get("loc", {})
        inmain = "includedFrom" not in loc and \
            "includedFrom" not in loc.get("expansionLoc", {}) and \
            os.path.basename(d.get("_file") or base) == base
        if body and inmain:
            fns[d["name"]] = {"name": d["name"], "params": params,
                              "body": body[0], "node": d,
                              "rettype": d["type"]["qualType"].split("(")[0].strip(),
                              "static": d.get("storageClass") == "static"}
        else:
            protos[d["name"]] = d
    return fns, protos


def strip(e):
    """drop parens and value-preserving implicit casts"""
    while True:
        k = e.get("kind")
        if k == "ParenExpr" or k == "ConstantExpr":
            e = e["inner"][0]
        elif k == "ImplicitCastExpr" and e.get("castKind") in (
                "LValueToRValue", "NoOp", "ArrayToPointerDecay",
                "FunctionToPointerDecay", "BuiltinFnToFnPtr", "IntegralCast",
                "BitCast"):
            e = e["inner"][0]
        else:
            return e


def text(e):
    """normalised source-ish text of an expression"""
    if e is None:
        return "?"
    k = e.get("kind")
    if k in ("ParenExpr", "ConstantExpr"):
        return "(" + text(e["inner"][0]) + ")"
    if k in ("ImplicitCastExpr",):
        return text(e["inner"][0])
    if k == "CStyleCastExpr":
        return "(" + e["type"]["qualType"] + ")" + text(e["inner"][0])
    if k == "DeclRefExpr":
        return e["referencedDecl"]["name"]
    if k in ("IntegerLiteral", "FloatingLiteral"):
        return str(e.get("value"))
    if k == "BinaryOperator" or k == "CompoundAssignOperator":
        return text(e["inner"][0]) + e["opcode"] + text(e["inner"][1])
    if k == "UnaryOperator":
        if e.get("isPostfix"):
            return text(e["inner"][0]) + e["opcode"]
        return e["opcode"] + text(e["inner"][0])
    if k == "ArraySubscriptExpr":
        return text(e["inner"][0]) + "[" + text(e["inner"][1]) + "]"
    if k == "CallExpr":
        return text(e["inner"][0]) + "(" + ",".join(text(a) for a in e["inner"][1:]) + ")"
    if k == "ConditionalOperator":
        return text(e["inner"][0]) + "?" + text(e["inner"][1]) + ":" + text(e["inner"][2])
    if k == "UnaryExprOrTypeTraitExpr":
        return "sizeof(..)"
    return k or "?"
