"""Symbolic shape / initialisation / buffer-origin evaluation of Python wrapper code (E5/E6).

An order-aware walk over a function body keeps, for every local name, an abstract value:
shape (tuple of polynomials over dimension symbols), integer value, constant value,
initial content (zeros / constant fill / copy of another array) and the set of *roots*
(parameters, self attributes) whose buffer the value may share.  Guards that raise refine
the facts (`if len(a) != len(b): raise`).  Calls to functions of the same repository are
evaluated by descending into the callee (bounded depth).  Everything unknown stays unknown:
the clients only use positive information.
"""
import ast
import itertools

from .poly import Poly, _p
from .pyfront import dotted, terminates, const_value

_counter = itertools.count()

FRESH_NP = {"zeros", "ones", "empty", "full", "arange", "linspace", "concatenate", "column_stack", "sort",
            "clip", "where", "array", "copy", "zeros_like", "ones_like", "empty_like", "full_like", "unique",
            "union1d", "setdiff1d", "maximum", "minimum", "nanmean", "mean", "sum", "nansum", "std", "diff",
            "cumsum", "isnan", "isfinite", "abs", "log", "exp", "sqrt", "power", "sign", "argsort", "dot",
            "percentile", "nanpercentile", "meshgrid", "repeat", "tile", "hstack", "vstack", "interp", "roll",
            "insert", "append", "delete", "random", "nan_to_num", "round", "floor", "ceil", "isclose",
            "float64", "int64", "int32", "float32"}
ALIAS_NP = {"asarray", "atleast_1d", "atleast_2d", "ascontiguousarray", "reshape", "ravel", "squeeze",
            "asanyarray", "transpose", "asfortranarray"}
ALIAS_ATTR = {"values", "T", "flat", "data", "_data", "real", "loc", "iloc", "at", "iat"}
FRESH_METH = {"copy", "astype", "flatten", "clone", "tolist", "sum", "mean", "min", "max", "std", "any", "all",
              "cumsum", "sort_values", "dropna", "to_numpy_copy", "round", "clip", "fillna", "apply", "groupby",
              "pivot_table", "resample", "to_dict", "isnull", "notnull", "argsort", "quantile", "describe"}
ALIAS_METH = {"reshape", "ravel", "squeeze", "view", "transpose", "swapaxes", "to_numpy", "__array__"}
INT_CASTS = {"int", "np.int64", "np.int32", "np.int16", "np.intp", "np.uint64", "np.uint32"}


class Val:
    __slots__ = ("shape", "ndim_min", "ival", "cval", "init", "roots", "fresh", "tup", "desc", "dtype", "lensym")

    def __init__(self, shape=None, ndim_min=0, ival=None, cval=None, init=None, roots=(), fresh=False,
                 tup=None, desc="", dtype=None):
        self.shape, self.ndim_min, self.ival, self.cval = shape, ndim_min, ival, cval
        self.init, self.roots, self.fresh, self.tup, self.desc, self.dtype = init, frozenset(roots), fresh, tup, desc, dtype
        self.lensym = None

    def clone(self, **kw):
        v = Val(self.shape, self.ndim_min, self.ival, self.cval, self.init, self.roots, self.fresh, self.tup,
                self.desc, self.dtype)
        v.lensym = self.lensym
        for k, x in kw.items():
            setattr(v, k, x)
        return v

    def __repr__(self):
        return f"Val(shape={self.shape}, ival={self.ival}, cval={self.cval}, init={self.init}, roots={set(self.roots)}, fresh={self.fresh})"


def newsym(hint):
    return f"{hint}~{next(_counter)}"


def unknown(hint, roots=(), fresh=False):
    return Val(roots=roots, fresh=fresh, desc=hint)


class Env:
    def __init__(self):
        self.vars = {}
        self.lb = {}          # symbol -> int lower bound (dimension symbols default to 0)
        self.eq = {}          # symbol -> Poly substitution (from equality guards)
        self.dead = False

    def copy(self):
        e = Env()
        e.vars = dict(self.vars)
        e.lb = dict(self.lb)
        e.eq = dict(self.eq)
        e.dead = self.dead
        return e

    def canon(self, p):
        p = _p(p)
        for _ in range(8):
            done = True
            for s in list(p.symbols()):
                if s in self.eq:
                    p = p.subst(s, self.eq[s])
                    done = False
            if done:
                break
        return p


class Evaluator:
    """evaluates one function; `resolver(callexpr, env, self)` may return a Val for repository calls"""

    def __init__(self, mod, resolver=None, depth=0, selfclass=None):
        self.mod, self.resolver, self.depth, self.selfclass = mod, resolver, depth, selfclass
        self.returns = []
        self.stop_at = None
        self.snapshot = None

    # ---- helpers ---------------------------------------------------------
    def dim(self, v, k, env, hint="dim"):
        """Poly of dimension k of value v (creating a stable symbol when the rank is unknown)"""
        if v.shape is not None:
            if k < len(v.shape):
                return v.shape[k]
            return None
        if k == 0:
            if v.lensym is None:
                v.lensym = newsym(f"len({v.desc or hint})")
            return Poly.sym(v.lensym)
        return None

    def set_shape_unknown_rank(self, v, ndim):
        shp = []
        for k in range(ndim):
            if k == 0 and v.lensym:
                shp.append(Poly.sym(v.lensym))
            else:
                shp.append(Poly.sym(newsym(f"{v.desc or 'a'}.shape[{k}]")))
        return tuple(shp)

    # ---- expressions -----------------------------------------------------
    def ev(self, e, env):
        if isinstance(e, ast.Constant):
            if isinstance(e.value, bool):
                return Val(cval=e.value, ival=Poly.const(int(e.value)), fresh=True)
            if isinstance(e.value, int):
                return Val(cval=e.value, ival=Poly.const(e.value), fresh=True)
            return Val(cval=e.value, fresh=True)
        if isinstance(e, ast.Name):
            v = env.vars.get(e.id)
            if v is None:
                v = unknown(e.id, roots=())
                env.vars[e.id] = v
            return v
        if isinstance(e, ast.UnaryOp):
            v = self.ev(e.operand, env)
            if isinstance(e.op, ast.USub):
                if v.ival is not None:
                    return Val(ival=-v.ival, cval=(-v.cval if isinstance(v.cval, (int, float)) else None), fresh=True)
                return Val(shape=v.shape, fresh=True, cval=(-v.cval if isinstance(v.cval, (int, float)) else None))
            return Val(shape=v.shape, fresh=True)
        if isinstance(e, ast.BinOp):
            a, b = self.ev(e.left, env), self.ev(e.right, env)
            if a.ival is not None and b.ival is not None and isinstance(e.op, (ast.Add, ast.Sub, ast.Mult)):
                r = a.ival + b.ival if isinstance(e.op, ast.Add) else a.ival - b.ival if isinstance(e.op, ast.Sub) \
                    else a.ival * b.ival
                return Val(ival=r, fresh=True)
            # array arithmetic: result is a new buffer; shape of the array operand when the other is scalar
            arr = [x for x in (a, b) if x.shape is not None or (x.ival is None and x.cval is None)]
            sca = [x for x in (a, b) if x.cval is not None or x.ival is not None]
            shape, init = None, None
            if len(sca) == 1 and len(arr) == 1:
                shape = arr[0].shape
                c = sca[0].cval
                other = arr[0]
                if isinstance(e.op, ast.Mult) and other.init is not None and isinstance(c, (int, float)):
                    if other.init == ("zeros",):
                        init = ("zeros",) if c == c else None
                    elif other.init[0] == "const" and isinstance(other.init[1], (int, float)):
                        init = ("const", other.init[1] * c)
                    lens = other.lensym
                    v = Val(shape=shape, init=init, fresh=True, desc=other.desc)
                    v.lensym = lens
                    return v
                if isinstance(e.op, ast.Mult) and c == 0:
                    v = Val(shape=shape, init=("zeros*",), fresh=True, desc=other.desc)   # 0*x: zero where x finite
                    v.lensym = other.lensym
                    return v
                v = Val(shape=shape, fresh=True, desc=other.desc)
                v.lensym = other.lensym
                return v
            if a.shape is not None and b.shape is not None and a.shape == b.shape:
                return Val(shape=a.shape, fresh=True)
            return Val(fresh=True)
        if isinstance(e, ast.Compare) or isinstance(e, ast.BoolOp):
            for c in ast.iter_child_nodes(e):
                if isinstance(c, ast.expr):
                    self.ev(c, env)
            return Val(fresh=True)
        if isinstance(e, ast.IfExp):
            a, b = self.ev(e.body, env), self.ev(e.orelse, env)
            return join_val(a, b)
        if isinstance(e, ast.Tuple) or isinstance(e, ast.List):
            items = [self.ev(x, env) for x in e.elts]
            v = Val(tup=items, fresh=True)
            if isinstance(e, ast.List):
                v.shape = (Poly.const(len(items)),) if all(i.shape is None for i in items) else None
            return v
        if isinstance(e, ast.Attribute):
            return self.ev_attr(e, env)
        if isinstance(e, ast.Subscript):
            return self.ev_sub(e, env)
        if isinstance(e, ast.Call):
            return self.ev_call(e, env)
        if isinstance(e, (ast.ListComp, ast.GeneratorExp, ast.Dict, ast.JoinedStr, ast.Lambda, ast.DictComp,
                          ast.SetComp, ast.Set)):
            return Val(fresh=True)
        return Val()

    def ev_attr(self, e, env):
        d = dotted(e)
        base = self.ev(e.value, env)
        if e.attr == "shape":
            if base.shape is not None:
                return Val(tup=[Val(ival=p, fresh=True) for p in base.shape], fresh=True)
            v = Val(fresh=True, desc=f"{base.desc}.shape")
            v.cval = ("shapeof", base)
            return v
        if e.attr == "ndim":
            if base.shape is not None:
                return Val(ival=Poly.const(len(base.shape)), cval=len(base.shape), fresh=True)
            v = Val(fresh=True)
            v.cval = ("ndimof", base)
            return v
        if e.attr == "size" and base.shape is not None:
            p = Poly.const(1)
            for s in base.shape:
                p = p * s
            return Val(ival=p, fresh=True)
        if d and d.startswith("self.") and d in env.vars:
            return env.vars[d]
        if e.attr in ("nrows", "ncols") and d:
            # Grid dimensions: stored by Grid.__init__ next to np.zeros((nrows, ncols)), hence >= 0 (stated assumption)
            key = "@dim:" + d
            if key not in env.vars:
                env.vars[key] = Val(ival=Poly.sym(newsym(d)), fresh=True, desc=d)
            return env.vars[key]
        if e.attr in ALIAS_ATTR:
            roots = set(base.roots)
            if d and (d.startswith("self.") or base.roots == frozenset()):
                roots.add(d)
            v = Val(shape=base.shape if e.attr in ("values", "data", "_data", "real") else None,
                    roots=roots, fresh=base.fresh and not roots, desc=d or base.desc, init=base.init)
            if e.attr in ("values", "data", "_data"):
                v.lensym = base.lensym
            return v
        # other attribute: a distinct object stored on another object
        roots = set()
        if d:
            roots.add(d)
        else:
            roots |= set(base.roots)
        v = Val(roots=roots, desc=d or f"{base.desc}.{e.attr}")
        key = d
        if key:
            old = env.vars.get("@attr:" + key)
            if old is not None:
                return old
            env.vars["@attr:" + key] = v
        return v

    def ev_sub(self, e, env):
        base = self.ev(e.value, env)
        sl = e.slice
        # shape tuple indexing
        if base.tup is not None and isinstance(sl, ast.Constant) and isinstance(sl.value, int):
            if -len(base.tup) <= sl.value < len(base.tup):
                return base.tup[sl.value]
        if isinstance(base.cval, tuple) and base.cval and base.cval[0] == "shapeof" and isinstance(sl, ast.Constant):
            arr = base.cval[1]
            d = self.dim(arr, sl.value, env) if isinstance(sl.value, int) and sl.value >= 0 else None
            if d is None and isinstance(sl.value, int) and sl.value >= 0:
                key = ("shapesym", sl.value)
                # stable symbol per (array value, axis)
                tab = getattr(self, "_shapesyms", None)
                if tab is None:
                    tab = self._shapesyms = {}
                s = tab.get((id(arr), sl.value))
                if s is None:
                    s = tab[(id(arr), sl.value)] = newsym(f"{arr.desc or 'a'}.shape[{sl.value}]")
                d = Poly.sym(s)
            if d is not None:
                return Val(ival=d, fresh=True)
        idx = self.ev(sl, env) if not isinstance(sl, (ast.Slice, ast.Tuple)) else None
        is_basic = isinstance(sl, ast.Slice) or (isinstance(sl, ast.Tuple) and all(
            isinstance(x, (ast.Slice, ast.Constant)) or (isinstance(x, ast.Name)) for x in sl.elts) and any(
            isinstance(x, ast.Slice) for x in sl.elts))
        if is_basic:
            # view of the same buffer, shape unknown (except full slices)
            return Val(roots=base.roots, fresh=False if base.roots else base.fresh, desc=f"{base.desc}[..]",
                       init=base.init)
        if idx is not None and (idx.ival is not None or isinstance(idx.cval, (int, str))):
            # element / row / column access
            v = Val(roots=base.roots, fresh=base.fresh and not base.roots, desc=f"{base.desc}[i]")
            if base.shape is not None and len(base.shape) > 1:
                v.shape = base.shape[1:]
            return v
        # fancy / boolean indexing copies
        return Val(fresh=True, desc=f"{base.desc}[mask]",
                   shape=None)

    def np_shape_arg(self, a, env):
        """shape argument of np.zeros & co -> tuple of Poly or None"""
        v = self.ev(a, env)
        self.as_dim(v)
        if v.ival is not None:
            return (v.ival,)
        if v.tup is not None:
            for x in v.tup:
                self.as_dim(x)
            if all(x.ival is not None for x in v.tup):
                return tuple(x.ival for x in v.tup)
        return None

    def as_dim(self, v):
        """an unknown scalar used as an array dimension gets a stable symbol (it is >= 0 once the
        constructor returned: numpy rejects negative dimensions)"""
        if v.ival is None and v.tup is None and v.shape is None and not isinstance(v.cval, (float, str, tuple)):
            v.ival = Poly.sym(newsym(v.desc or "n"))

    def ev_call(self, e, env):
        f = e.func
        fname = dotted(f)
        args = e.args
        kw = {k.arg: k.value for k in e.keywords if k.arg}
        # --- builtins ---
        if fname == "len" and len(args) == 1:
            v = self.ev(args[0], env)
            d = self.dim(v, 0, env, hint=ast.unparse(args[0]))
            return Val(ival=d, fresh=True)
        if fname in INT_CASTS and len(args) == 1:
            v = self.ev(args[0], env)
            return Val(ival=v.ival, cval=v.cval if isinstance(v.cval, int) else None, fresh=True)
        if fname in ("float", "np.float64", "np.float32", "bool", "str") and len(args) == 1:
            v = self.ev(args[0], env)
            return Val(cval=v.cval if isinstance(v.cval, (int, float)) else None, fresh=True)
        if fname in ("min", "max") and len(args) == 2:
            a, b = self.ev(args[0], env), self.ev(args[1], env)
            return Val(fresh=True)
        # --- numpy constructors ---
        if fname and fname.startswith("np.") and fname.count(".") == 1:
            name = fname[3:]
            if name in ("zeros", "ones", "empty", "full") and args:
                shp = self.np_shape_arg(args[0], env)
                init = ("zeros",) if name == "zeros" else ("const", 1) if name == "ones" else ("uninit",) if name == "empty" else None
                if name == "full" and (len(args) > 1 or "fill_value" in kw):
                    fv = args[1] if len(args) > 1 else kw["fill_value"]
                    c = const_value(fv)
                    if c is None and isinstance(fv, ast.UnaryOp) and isinstance(fv.op, ast.USub) and const_value(fv.operand) is not None:
                        c = -const_value(fv.operand)
                    init = (("zeros",) if c == 0 and not isinstance(c, bool) else ("const", c)) if c is not None else None
                return Val(shape=shp, init=init, fresh=True, desc=f"np.{name}(..)")
            if name in ("zeros_like", "ones_like", "empty_like") and args:
                v = self.ev(args[0], env)
                init = ("zeros",) if name == "zeros_like" else ("const", 1) if name == "ones_like" else ("uninit",)
                r = Val(shape=v.shape, init=init, fresh=True, desc=f"np.{name}({v.desc})")
                r.lensym = v.lensym
                r.cval = ("likeof", v)
                return r
            if name == "arange":
                if len(args) == 1:
                    v = self.ev(args[0], env)
                    return Val(shape=(v.ival,) if v.ival is not None else None, fresh=True, init=("arange",))
                return Val(fresh=True)
            if name == "array" and args:
                v = self.ev(args[0], env)
                cp = kw.get("copy")
                if cp is not None and const_value(cp) is False:
                    return v.clone()
                r = Val(shape=v.shape, fresh=True, desc=f"np.array({v.desc})", init=("copy", v) if v.roots else v.init)
                r.lensym = v.lensym
                if v.tup is not None and v.shape is None and all(t.tup is None for t in v.tup):
                    r.shape = (Poly.const(len(v.tup)),)
                    c = [t.cval for t in v.tup]
                    if all(isinstance(x, (int, float)) and x == 0 for x in c):
                        r.init = ("zeros",)
                return r
            if name in ("atleast_1d", "atleast_2d", "ascontiguousarray", "asarray", "asanyarray") and args:
                v = self.ev(args[0], env)
                r = v.clone(desc=v.desc)
                nd = {"atleast_1d": 1, "atleast_2d": 2}.get(name, 0)
                if v.shape is not None and len(v.shape) < nd:
                    r.shape = None
                r.ndim_min = max(v.ndim_min, nd)
                if v.tup is not None:        # list literal converted: new buffer
                    r.fresh, r.roots = True, frozenset()
                if "dtype" in kw or len(args) > 1:
                    # may or may not copy: keep roots (conservative for aliasing), same shape
                    pass
                return r
            if name in ("reshape", "ravel", "squeeze") and args:
                v = self.ev(args[0], env)
                return Val(roots=v.roots, fresh=v.fresh, init=v.init, desc=v.desc)
            if name in FRESH_NP:
                for a in args:
                    self.ev(a, env)
                return Val(fresh=True, desc=fname)
        # --- methods ---
        if isinstance(f, ast.Attribute):
            base = self.ev(f.value, env)
            m = f.attr
            if m == "astype":
                r = Val(shape=base.shape, fresh=True, desc=base.desc, init=base.init if base.init and base.init[0] in (
                    "zeros", "const", "zeros*", "arange") else (("copy", base) if base.roots else None))
                cp = kw.get("copy")
                if cp is not None and const_value(cp) is False:
                    r.fresh, r.roots = base.fresh, base.roots
                r.lensym = base.lensym
                r.ndim_min = base.ndim_min
                if isinstance(base.cval, tuple):
                    r.cval = base.cval
                return r
            if m == "copy":
                r = Val(shape=base.shape, fresh=True, desc=base.desc, init=("copy", base))
                r.lensym = base.lensym
                return r
            if m == "clone":
                r = Val(fresh=True, desc=f"{base.desc}.clone()", init=("copy", base))
                r.cval = ("cloneof", base)
                return r
            if m in ("squeeze", "reshape", "ravel", "view", "transpose"):
                return Val(roots=base.roots, fresh=base.fresh, init=base.init, desc=base.desc)
            if m in ("fill",) and args:
                return Val(fresh=True)
            if self.resolver is not None:
                r = self.resolver(e, env, self, base)
                if r is not None:
                    return r
            if m in FRESH_METH:
                return Val(fresh=True, desc=f"{base.desc}.{m}()")
            for a in args:
                self.ev(a, env)
            return Val(desc=f"{base.desc}.{m}()")
        if self.resolver is not None:
            r = self.resolver(e, env, self, None)
            if r is not None:
                return r
        for a in args:
            self.ev(a, env)
        return Val(desc=fname or "call")

    # ---- guards ----------------------------------------------------------
    def poly_of(self, e, env):
        v = self.ev(e, env)
        return v.ival

    def assume(self, test, truth, env):
        """refine env under `test == truth`"""
        if isinstance(test, ast.UnaryOp) and isinstance(test.op, ast.Not):
            return self.assume(test.operand, not truth, env)
        if isinstance(test, ast.BoolOp):
            conj = isinstance(test.op, ast.And) == truth
            if conj:
                for v in test.values:
                    self.assume(v, truth, env)
            return
        if isinstance(test, ast.Compare) and len(test.ops) == 1:
            op = test.ops[0]
            l, r = test.left, test.comparators[0]
            if not truth:
                inv = {ast.Eq: ast.NotEq, ast.NotEq: ast.Eq, ast.Lt: ast.GtE, ast.LtE: ast.Gt, ast.Gt: ast.LtE,
                       ast.GtE: ast.Lt}
                t = inv.get(type(op))
                if t is None:
                    return
                op = t()
            # rank facts:  x.ndim <= 1 / == 2 ...
            lv = self.ev(l, env)
            rv = self.ev(r, env)
            if isinstance(lv.cval, tuple) and lv.cval and lv.cval[0] == "ndimof" and isinstance(rv.cval, int):
                arr = lv.cval[1]
                n = rv.cval
                exact = None
                if isinstance(op, ast.Eq):
                    exact = n
                elif isinstance(op, ast.LtE) and max(arr.ndim_min, 1) == n:
                    exact = n
                elif isinstance(op, ast.Lt) and max(arr.ndim_min, 1) == n - 1:
                    exact = n - 1
                if exact is not None and arr.shape is None:
                    arr.shape = self.set_shape_unknown_rank(arr, exact)
                return
            a, b = lv.ival, rv.ival
            if a is None or b is None:
                return
            a, b = env.canon(a), env.canon(b)
            if isinstance(op, ast.Eq):
                d = a - b
                # orient: substitute a bare symbol
                for x, y in ((a, b), (b, a)):
                    if len(x.t) == 1 and not x.is_const():
                        (m, c), = x.t.items()
                        if c == 1 and len(m) == 1 and m[0][1] == 1 and m[0][0] not in y.symbols():
                            env.eq[m[0][0]] = y
                            return
                return
            if isinstance(op, (ast.Gt, ast.GtE)):
                a, b = b, a
                op = ast.Lt() if isinstance(op, ast.Gt) else ast.LtE()
            if isinstance(op, (ast.Lt, ast.LtE)):
                d = b - a - (1 if isinstance(op, ast.Lt) else 0)      # d >= 0
                syms = d.symbols()
                if len(syms) == 1:
                    s = next(iter(syms))
                    sp = d.split_linear(s)
                    if sp and sp[0].is_const() and sp[1].is_const() and sp[0].cval() > 0:
                        import math
                        lbv = math.ceil(-sp[1].cval() / sp[0].cval())
                        env.lb[s] = max(env.lb.get(s, lbv), lbv)
                else:
                    env.vars.setdefault("@facts", [])
                    env.vars["@facts"] = list(env.vars["@facts"]) + [d]

    # ---- statements ------------------------------------------------------
    def _weak_disjunction(self, test, env):
        """`if A and B: raise` passes when A alone is false: nothing follows from passing it, yet every conjunct is understood (assuming it false
        on its own teaches something) - the guard is weak, not opaque"""
        neg = False
        while isinstance(test, ast.UnaryOp) and isinstance(test.op, ast.Not):
            test, neg = test.operand, not neg
        if not (isinstance(test, ast.BoolOp) and isinstance(test.op, ast.Or if neg else ast.And)):
            return False
        for v in test.values:
            e_ = env.copy()
            f0 = self._fingerprint(e_)
            try:
                self.assume(v, neg, e_)
            except Exception:        # noqa
                return False
            if self._fingerprint(e_) == f0:
                return False
        return True

    @staticmethod
    def _fingerprint(env):
        shp = []
        for k_, v in env.vars.items():
            if not k_.startswith("@") and hasattr(v, "shape"):
                shp.append((k_, repr(v.shape)))
        return (repr(sorted((k_, repr(v)) for k_, v in env.eq.items())), repr(sorted(env.lb.items())), len(env.vars.get("@facts", [])), repr(sorted(shp)))

    def bind(self, tgt, val, env):
        if isinstance(tgt, (ast.Tuple, ast.List)) and isinstance(val.cval, tuple) and val.cval and val.cval[0] == "shapeof":
            # names unpacked from a shape tuple (including a starred rest): guards on them are guards on the shape
            nms = [n.id for t in tgt.elts for n in ast.walk(t) if isinstance(n, ast.Name)]
            env.vars["@shape_names"] = tuple(env.vars.get("@shape_names", ())) + tuple(nms)
        if isinstance(tgt, ast.Name):
            env.vars[tgt.id] = val
        elif isinstance(tgt, (ast.Tuple, ast.List)):
            items = val.tup
            if items is None and isinstance(val.cval, tuple) and val.cval and val.cval[0] == "shapeof":
                arr = val.cval[1]
                if arr.shape is None:
                    arr.shape = self.set_shape_unknown_rank(arr, len(tgt.elts))
                items = [Val(ival=p, fresh=True) for p in arr.shape]
            for i, t in enumerate(tgt.elts):
                if items is not None and i < len(items) and len(items) == len(tgt.elts):
                    self.bind(t, items[i], env)
                else:
                    self.bind(t, Val(roots=val.roots, desc="unpacked"), env)
        elif isinstance(tgt, ast.Attribute):
            d = dotted(tgt)
            if d and d.startswith("self."):
                env.vars[d] = val
        elif isinstance(tgt, ast.Subscript):
            # element store: the container's init content is no longer known
            b = tgt.value
            while isinstance(b, (ast.Subscript, ast.Attribute)) and not isinstance(b, ast.Name):
                b = b.value
            if isinstance(b, ast.Name) and b.id in env.vars:
                old = env.vars[b.id]
                init = None
                # x[...] = c  /  x[:] = c : every element overwritten with the constant
                sl = tgt.slice
                whole = (isinstance(sl, ast.Constant) and sl.value is Ellipsis) or \
                    (isinstance(sl, ast.Slice) and sl.lower is None and sl.upper is None and sl.step is None)
                if whole and isinstance(tgt.value, ast.Name) and val is not None and getattr(val, "cval", None) is not None and \
                        isinstance(val.cval, (int, float)) and not isinstance(val.cval, bool):
                    init = ("zeros",) if val.cval == 0 else ("const", val.cval)
                env.vars[b.id] = old.clone(init=init)

    def run(self, stmts, env):
        for s in stmts:
            if env.dead:
                return env
            if self.stop_at is not None and s is self.stop_at:
                self.snapshot = env.copy()
                # continue evaluating so that the call statement itself is visited by clients if needed
            env = self.stmt(s, env)
        return env

    def contains_stop(self, s):
        if self.stop_at is None:
            return False
        return any(n is self.stop_at for n in ast.walk(s))

    def stmt(self, s, env):
        if isinstance(s, ast.Assign):
            v = self.ev(s.value, env)
            for t in s.targets:
                self.bind(t, v, env)
            return env
        if isinstance(s, ast.AnnAssign) and s.value is not None:
            self.bind(s.target, self.ev(s.value, env), env)
            return env
        if isinstance(s, ast.AugAssign):
            v = self.ev(s.value, env)
            if isinstance(s.target, ast.Name):
                old = env.vars.get(s.target.id)
                if old is not None:
                    env.vars[s.target.id] = old.clone(init=None, ival=None, cval=None)
            return env
        if isinstance(s, ast.Expr):
            self.ev(s.value, env)
            # x.fill(c)
            c = s.value
            if isinstance(c, ast.Call) and isinstance(c.func, ast.Attribute) and c.func.attr == "fill" and \
                    isinstance(c.func.value, ast.Name) and c.args:
                nm = c.func.value.id
                cv = const_value(c.args[0])
                if nm in env.vars and cv is not None:
                    env.vars[nm] = env.vars[nm].clone(init=("zeros",) if cv == 0 else ("const", cv))
            return env
        if isinstance(s, ast.Return):
            self.returns.append((self.ev(s.value, env) if s.value is not None else Val(), env.copy()))
            env.dead = True
            return env
        if isinstance(s, ast.Raise):
            env.dead = True
            return env
        if isinstance(s, ast.If):
            self.ev(s.test, env)
            e1, e2 = env.copy(), env.copy()
            self.assume(s.test, True, e1)
            fp0 = self._fingerprint(e2)
            self.assume(s.test, False, e2)
            if s.body and isinstance(s.body[-1], ast.Raise) and not s.orelse and self._fingerprint(e2) == fp0 and not self._weak_disjunction(s.test, env):
                # a raising guard this reader learnt nothing from: if it talks about shapes / sizes, an obligation that cannot be
                # established afterwards is undecided rather than refuted (the guard may be what establishes it)
                names = {n.id for n in ast.walk(s.test) if isinstance(n, ast.Name)}
                txt = ast.unparse(s.test)
                shapey = any(k_ in txt for k_ in (".shape", ".ndim", "len(", ".size")) or any(nm in env.vars.get("@shape_names", ()) for nm in names)
                if shapey:
                    e2.vars["@opaque_guards"] = list(e2.vars.get("@opaque_guards", [])) + [txt[:80]]
            e1 = self.run(s.body, e1)
            e2 = self.run(s.orelse, e2)
            return join_env(e1, e2)
        if isinstance(s, (ast.For, ast.While)):
            e1 = env.copy()
            if isinstance(s, ast.For):
                self.bind(s.target, Val(desc="loopvar"), e1)
            e1 = self.run(s.body, e1)
            e1.dead = False
            return join_env(env, e1)
        if isinstance(s, ast.With):
            for it in s.items:
                v = self.ev(it.context_expr, env)
                if it.optional_vars is not None:
                    self.bind(it.optional_vars, v, env)
            return self.run(s.body, env)
        if isinstance(s, ast.Try):
            e1 = self.run(s.body, env.copy())
            outs = [e1]
            for h in s.handlers:
                outs.append(self.run(h.body, env.copy()))
            r = outs[0]
            for o in outs[1:]:
                r = join_env(r, o)
            r = self.run(s.orelse, r) if s.orelse else r
            r = self.run(s.finalbody, r) if s.finalbody else r
            return r
        return env


def join_val(a, b):
    if a is b:
        return a
    shape = a.shape if a.shape is not None and a.shape == b.shape else None
    ival = a.ival if a.ival is not None and a.ival == b.ival else None
    cval = a.cval if a.cval == b.cval and not isinstance(a.cval, tuple) else None
    init = a.init if a.init == b.init else None
    v = Val(shape=shape, ndim_min=min(a.ndim_min, b.ndim_min), ival=ival, cval=cval, init=init,
            roots=a.roots | b.roots, fresh=a.fresh and b.fresh, desc=a.desc or b.desc)
    if a.lensym and a.lensym == b.lensym:
        v.lensym = a.lensym
    return v


def join_env(e1, e2):
    if e1.dead and not e2.dead:
        return e2
    if e2.dead and not e1.dead:
        return e1
    r = Env()
    r.dead = e1.dead and e2.dead
    for k in set(e1.vars) & set(e2.vars):
        a, b = e1.vars[k], e2.vars[k]
        if k == "@facts":
            r.vars[k] = [f for f in a if f in b]
        else:
            r.vars[k] = join_val(a, b)
    for k in set(e1.lb) & set(e2.lb):
        r.lb[k] = min(e1.lb[k], e2.lb[k])
    for k in set(e1.eq) & set(e2.eq):
        if e1.eq[k] == e2.eq[k]:
            r.eq[k] = e1.eq[k]
    return r


def params_env(fdef, argvals=None):
    """environment at function entry; parameters are roots of themselves"""
    env = Env()
    a = fdef.args
    names = [x.arg for x in a.posonlyargs + a.args + a.kwonlyargs]
    defaults = {}
    pos = a.posonlyargs + a.args
    for x, d in zip(pos[len(pos) - len(a.defaults):], a.defaults):
        defaults[x.arg] = d
    for x, d in zip(a.kwonlyargs, a.kw_defaults):
        if d is not None:
            defaults[x.arg] = d
    for n in names:
        if argvals is not None and n in argvals:
            env.vars[n] = argvals[n]
        else:
            env.vars[n] = Val(roots=[n], desc=n)
    if a.vararg:
        env.vars[a.vararg.arg] = Val(desc="*args")
    if a.kwarg:
        env.vars[a.kwarg.arg] = Val(desc="**kwargs")
    return env, names, defaults


def prove_nonneg(p, env):
    """p >= 0 from: dimension symbols >= their lower bound (default 0), equalities, recorded facts"""
    from .crange import Prover, State
    p = env.canon(p)
    st = State()
    for s in p.symbols():
        st.sym_lb[s] = [Poly.const(env.lb.get(s, 0))]
    for f in env.vars.get("@facts", []):
        f = env.canon(f)
        st.facts.append(f)
        for s in f.symbols():
            st.sym_lb.setdefault(s, [Poly.const(env.lb.get(s, 0))])
    return Prover({}).nonneg(p, st)
