"""C20 -- sampling, ranking and summary helpers return what their names promise (structural clauses)."""
import ast

from ..core import AnalysisError
from ..cfront import strip, text
from .. import cq, pq, cnorm, ckern, xlayer, pyxread
from ..ceval import CEval, find_all, loop_parts, body_stmts, loop_var, stores_to, to_expr
from ..formula import Canon, Ratio, Undecided, show, num, ExprBuilder
from ..pyfront import Mod, dotted, const_value, raises
from ..poly import Poly

EXPLANATION = (
    "Closed forms compared with their definitions: plotting positions (i - cst)/(n + 1 - 2 cst) under the [0, 1/2] "
    "guard, with p_i + p_(n+1-i) = 1 and p_(i+1) - p_i > 0 as rational identities / sign proofs; normal scores apply "
    "the same formula to the 1-based average rank; Latin hypercube: stratum width (pmax - pmin)/n, n stratum centres "
    "from pmin + du/2 to pmax - du/2, one permutation per parameter, jitter of exactly half a stratum.  Pareto kernel: "
    "for the four truth assignments of (difference is NaN, oriented difference > 0) the dominance flag is multiplied "
    "by the strict comparison and NaN differences are skipped; difference = other point minus the point; the point is "
    "flagged as soon as one other point dominates it; the wrapper copies, checks the rank, allocates int32 flags and "
    "raises.  Box-plot summaries: count, percentiles (levels whisker-low, box-low, 50, box-high, whisker-high in label "
    "order), mean, min, max all read the same finite mask; fewer than four values give the NaN row with the same "
    "labels; coverages validated.  Violin: quantile levels from compute_percentiles, KDE profile min-max normalised.  "
    "The statistics' values (numpy / pandas / scipy) are trusted.")


def _kw(e, k):
    return pq.kw_of(e, k)


def run(rep):
    rep.rule("R20.a", "ppos / standard_normal / lhs closed forms, symmetry and monotonicity identities, guards")
    rep.rule("R20.b", "pareto kernel step for all predicate assignments, difference orientation, early exit; wrapper copy / rank check / int32 flags / raise")
    rep.rule("R20.c", "boxplot_stats: one finite mask for all statistics, percentile levels in label order, NaN row with the same labels, coverage validation")
    rep.rule("R20.d", "violin: quantile levels from compute_percentiles of the coverage constants, KDE profile min-max normalised")
    mod = Mod(rep.repo, "stat/sutils.py")
    rep.unit("stat/sutils.py: ppos, standard_normal, lhs, pareto_front; stat/c_paretofront.c (normalised); plot/boxplot.py: compute_percentiles, boxplot_stats, Boxplot.__init__; plot/violinplot.py: _compute")
    # ---------------- ppos ------------------------------------------------------------------------------------------------------------
    pp = mod.func("ppos")
    paths = pq.PEval().run(pp)
    rets = [p_ for p_ in paths if p_.how == "return"]
    okf = len(rets) == 1 and pq.same(rets[0].value, "(np.arange(1, nval+1) - cst)/(nval + 1 - 2*cst)")
    rep.check(okf, "R20.a", "stat/sutils.py", "ppos", "p_i = (i - cst)/(n + 1 - 2 cst), i = 1..n", show(rets[0].value)[:120] if rets else "", line=pp.lineno)
    i, n, c = Ratio.sym('i'), Ratio.sym('n'), Ratio.sym('c')
    p = lambda k: (k - c) / (n + 1 - 2 * c)
    rep.check(p(i) + p(n + 1 - i) == Ratio.const(1), "R20.a", "stat/sutils.py", "ppos", "symmetry p_i + p_(n+1-i) = 1 (exact identity of the formula)", "", line=pp.lineno)
    inc = p(i + 1) - p(i)
    sub = lambda r: Ratio(r.n.subst('c', Poly.const(0.5) - Poly.sym('d')), r.d.subst('c', Poly.const(0.5) - Poly.sym('d')))
    from .c04 import positive_ratio
    rep.check(positive_ratio(sub(inc), {"n", "d"}), "R20.a", "stat/sutils.py", "ppos", "strictly increasing: p_(i+1) - p_i = 1/(n + 1 - 2 cst) > 0 for cst <= 1/2", f"{sub(inc)}", line=pp.lineno)
    lo = sub(Ratio(p(Ratio.const(1)).n, p(Ratio.const(1)).d))
    hi = sub(Ratio.const(1) - p(n))
    rep.check(positive_ratio(lo, {"n", "d"}) and positive_ratio(hi, {"n", "d"}), "R20.a", "stat/sutils.py", "ppos", "0 < p_1 and p_n < 1 for 0 <= cst < ... <= 1/2 (d = 1/2 - cst >= 0)",
              f"p_1 = {lo}, 1 - p_n = {hi}", line=pp.lineno)
    okg = any(p_.how == "raise" and cq.holds_any(p_.conds, "cst < 0 || cst > 0.5", False) and len(p_.conds) == 1 and cq.same_cond(p_.conds[0][0], "cst < 0 || cst > 0.5", False) and p_.conds[0][1]
              for p_ in paths)
    rep.check(okg, "R20.a", "stat/sutils.py", "ppos", "cst outside [0, 1/2] rejected", "", line=pp.lineno)
    # ---------------- standard_normal -----------------------------------------------------------------------------------------------------
    sn = mod.func("standard_normal")
    srets = [p_ for p_ in pq.PEval().run(sn) if p_.how == "return"]
    oks, okr, forms = bool(srets), True, []
    for p_ in srets:
        v = p_.value
        if not (isinstance(v, tuple) and v[0] == 'tuple' and len(v[1]) == 2 and pq.call_named(v[1][0], ".ppf")):
            oks = False
            continue
        score, ranks = v[1]
        arg = score[2][1]
        oks = oks and pq.same(arg, ('div', ('sub', ('add', ranks, num(1)), ('sym', 'cst')), pq.parse("len(x) + 1 - 2*cst")))
        issorted = any(t and c == ('sym', 'sorted') for c, t in p_.conds)
        if issorted:
            okr = okr and pq.same(ranks, "np.arange(len(x))")
        else:
            okr = okr and ranks[0] == 'sub' and pq.same(ranks[2], "1") and pq.call_named(ranks[1], ".rank") and pq.same(ranks[1][2][0], "pd.Series(x)") and \
                _kw(ranks[1], "method") == ('sym', 'rank_method')
        forms.append(show(ranks)[:60])
    rep.check(oks, "R20.a", "stat/sutils.py", "standard_normal", "normal score = norm.ppf((rank + 1 - cst)/(n + 1 - 2 cst)) with 0-based ranks and n = sample size (same plotting position formula)",
              "", line=sn.lineno)
    rep.check(okr and len(srets) == 2, "R20.a", "stat/sutils.py", "standard_normal", "ranks = pandas rank - 1 (ties keep their fractional average rank), or 0..n-1 for sorted data", str(forms), line=sn.lineno)
    # ---------------- lhs ------------------------------------------------------------------------------------------------------------------------
    lh = mod.func("lhs")
    lpaths = pq.PEval().run(lh)
    lrets = [p_ for p_ in lpaths if p_.how == "return"]
    okl, det = bool(lrets), ""
    for p_ in lrets:
        st = [e for e in p_.effects if e.kind == 'store' and e.loops]
        if len(st) != 1:
            okl, det = False, f"{len(st)} stores in the parameter loop"
            continue
        e = st[0]
        # samples[:, i] <- linspace(lo + h, hi - h, n)[perm] + uniform(-h, h, size=n)
        key_ok = isinstance(e.key, tuple) and e.key[0] == 'tuple' and len(e.key[1]) == 2 and pq.call_named(e.key[1][1], "elem")
        if not key_ok or e.val[0] != 'add':
            okl, det = False, "store form"
            continue
        I = e.key[1][1]
        parts = [e.val[1], e.val[2]]
        cen = [x for x in parts if pq.call_named(x, "getitem") and pq.call_named(x[2][0], "linspace")]
        jit = [x for x in parts if pq.call_named(x, ".uniform")]
        if len(cen) != 1 or len(jit) != 1:
            okl, det = False, "centres + jitter not recognised"
            continue
        lin, perm = cen[0][2][0], cen[0][2][1]
        a0, a1, a2 = lin[2][0], lin[2][1], lin[2][2]
        # lo, hi: the i-th entries of the two bound vectors (after the function's own conversions)
        N = ('sym', 'nsamples')
        # h := (hi - lo)/n/2 is recovered from a0 = lo + h and a1 = hi - h
        cn = Canon()
        try:
            half2 = cn.ratio(a1) - cn.ratio(a0)            # = (hi - lo) - 2h = (hi-lo)(1 - 1/n)
            ja, jb = jit[0][2][1], jit[0][2][2]
            h = cn.ratio(jb)
            oksym = cn.ratio(ja) == -h
            lo_r, hi_r = cn.ratio(a0) - h, cn.ratio(a1) + h
            okh = h * Ratio.const(2) * cn.ratio(N) == (hi_r - lo_r)
            okn = pq.same(a2, N) and _kw(jit[0], "size") is not None and pq.same(_kw(jit[0], "size"), N)
            okperm = pq.call_named(perm, ".permutation") and pq.same(perm[2][1], N)
            lo_e = ('sub', a0, jb)
            okbounds = pq.mentions(lo_e, lambda x: x == ('sym', 'pmin')) and pq.mentions(('add', a1, jb), lambda x: x == ('sym', 'pmax')) and \
                pq.mentions(lo_e, lambda x: x == I)
            ok1 = oksym and okh and okn and okperm and okbounds
            det = f"symmetric jitter:{oksym} width:{okh} counts:{okn} permutation:{okperm} bounds:{okbounds}"
        except Exception as ex:
            ok1, det = False, str(ex)
        okl = okl and ok1
    rep.check(okl, "R20.a", "stat/sutils.py", "lhs", "per parameter: du = (pmax-pmin)/n, n centres pmin+du/2 .. pmax-du/2, one permutation, jitter uniform(-du/2, du/2)", det, line=lh.lineno)
    gd = [p_ for p_ in lpaths if p_.how == "raise" and p_.conds and p_.conds[-1][1] and
          (pq.call_named(p_.conds[-1][0], "any") and pq.mentions(p_.conds[-1][0], lambda x: x[0] == 'cmp' and x[1] == '<=' and pq.same(x[3], "0") and x[2][0] == 'sub'))]
    rep.check(bool(gd), "R20.a", "stat/sutils.py", "lhs", "empty or inverted ranges rejected (pmax - pmin <= 0)", "", line=lh.lineno)

    # ---------------- pareto kernel ----------------------------------------------------------------------------------------------------------------
    K = ckern.analyze(rep.repo)
    if K["fns"].get("c_paretofront") is None:
        raise AnalysisError("stat/c_paretofront.c: c_paretofront not found")
    fn = ckern.normalised(K, "c_paretofront", rep.repo)
    file = fn["file"]
    top = body_stmts(fn["body"])
    l1 = [s_ for s_ in top if s_.get("kind") in ("ForStmt", "WhileStmt") and "isdominated" in cnorm.writes(s_)[1]]
    if len(l1) != 1:
        raise AnalysisError(f"{file}: point loop not found")
    l1 = l1[0]
    r1 = cq.loop_range(l1, cq.preceding(top, l1))
    s1 = body_stmts(r1["body"]) if r1 else body_stmts(loop_parts(l1)[3])
    l2 = [s_ for s_ in s1 if s_.get("kind") in ("ForStmt", "WhileStmt")]
    if len(l2) != 1 or r1 is None:
        raise AnalysisError(f"{file}: comparison loop not found")
    l2 = l2[0]
    r2 = cq.loop_range(l2, cq.preceding(s1, l2))
    s2 = body_stmts(r2["body"]) if r2 else []
    l3 = [s_ for s_ in s2 if s_.get("kind") in ("ForStmt", "WhileStmt")]
    if len(l3) != 1 or r2 is None:
        raise AnalysisError(f"{file}: coordinate loop not found")
    l3 = l3[0]
    r3 = cq.loop_range(l3, cq.preceding(s2, l3))
    if r3 is None:
        raise AnalysisError(f"{file}: coordinate loop bounds not recognised")
    iv, jv, kv = r1["var"], r2["var"], r3["var"]
    rep.check(cq.range_is(r1, "0", "nval-1") and cq.range_is(r2, "0", "nval-1") and cq.range_is(r3, "0", "ncol-1") and not r2["extra"] and not r3["extra"], "R20.b", file, "c_paretofront",
              "every point against every other point, over all coordinates", "", line=l1.get("_line"))
    s3 = body_stmts(r3["body"])
    DIFF = f"(data[ncol*{jv}+K0] - data[ncol*{iv}+K0])"
    # the dominance flag: the scalar tested after the coordinate loop to set isdominated
    post2 = s2[s2.index(l3) + 1:]
    pce = cq.evaluate(post2)
    flagst = [e for e in cq.stores(pce, "isdominated") if cq.same_expr(e.val, "1") and cq.same_expr(e.idx, iv)]
    DOM = None
    if len(flagst) == 1 and len(flagst[0].conds) == 1 and flagst[0].conds[0][1]:
        a = cq.cond_atoms(flagst[0].conds[0][0], True)
        if isinstance(a, cq.Atom) and a.op == '==' and len(a.d.symbols()) == 1:
            DOM = list(a.d.symbols())[0]
    if DOM is None:
        raise AnalysisError(f"{file}: dominance flag not recognised")
    bad = []
    undecided_step = []
    for isn in (True, False):
        def oracle(c, isn=isn):
            if c[0] == 'call' and c[1] == 'isnan':
                return isn if cq.same_expr(c[2][0], DIFF) else None
            if c[0] == 'cmp' and c[1] in ('!=', '==') and show(c[2]) == show(c[3]) and cq.same_expr(c[2], DIFF):
                return isn if c[1] == '!=' else not isn
            if c[0] in ('and', 'or', 'not'):
                from .c03 import _bool
                return _bool(c, oracle)
            return None
        ce = CEval(oracle)
        ce.summarise_loops = True
        try:
            ce.run(s3, {DOM: ('sym', 'D0'), kv: ('sym', 'K0')})
        except Undecided as ex:
            bad.append(f"nan={isn}: {ex}")
            continue
        fins = [f_ for f_ in ce.finals if f_[2] in ("end", "ContinueStmt", "BreakStmt")]
        if fins and any(f_[1] for f_ in fins) and not isn:
            # the step branches on the comparison itself: flag kept when strictly better, cleared (possibly leaving the loop) otherwise
            CMP = f"orientation*{DIFF} > 0"
            okb = True
            for env_, conds_, how_ in fins:
                tr = [t for c, t in conds_ if cq.same_cond(c, CMP, False)] + [not t for c, t in conds_ if cq.same_cond(c, f"!({CMP})", False) or cq.same_cond(c, f"orientation*{DIFF} <= 0", False)]
                if len(tr) != len(conds_) or len(set(tr)) != 1:
                    okb = None
                    break
                got = env_.get(DOM, ('sym', 'D0'))
                if tr[0] and not cq.same_expr(got, "D0"):
                    okb = False
                if not tr[0] and not (cq.same_expr(got, "0") or cq.same_expr(got, "D0*0")):
                    okb = False
                if how_ == "BreakStmt" and tr[0]:
                    okb = False
            if okb is None:
                undecided_step.append(f"nan={isn}: tests outside the comparison vocabulary")
            elif not okb:
                bad.append("the flag is not kept exactly when the other point is strictly better in this coordinate")
            continue
        if not fins or any(f_[1] for f_ in fins):
            undecided_step.append(f"nan={isn}: undecided test")
            continue
        for env_, _c, _h in fins:
            got = env_.get(DOM, ('sym', 'D0'))
            if isn:
                if not cq.same_expr(got, "D0"):
                    bad.append(f"NaN difference: flag becomes {show(got)[:80]} (must be skipped)")
            else:
                want = ('mul', ('sym', 'D0'), ('cmp', '>', ('mul', ('sym', 'orientation'), cq.parse(DIFF)), num(0)))
                want2 = ('mul', ('sym', 'D0'), ('cmp', '<', num(0), ('mul', ('sym', 'orientation'), cq.parse(DIFF))))
                if not (cq.same_expr(got, want) or cq.same_expr(got, want2)):
                    bad.append(f"flag becomes {show(got)[:120]}, expected flag * (orientation*(x_j - x_i) > 0)")
    # what the missing-value test looks at: the difference, or both of its operands; one operand alone lets a NaN of the other through
    nan_args = []
    for n_ in find_all(l3, lambda n: n.get("kind") in ("IfStmt", "ConditionalOperator")):
        try:
            ce_ = to_expr(n_["inner"][0], {})
        except Undecided:
            continue
        for x in pq.find(ce_, lambda y: pq.call_named(y, "isnan") and len(y[2]) == 1):
            nan_args.append(x[2][0])
        for x in pq.find(ce_, lambda y: y[0] == 'cmp' and y[1] == '!=' and y[2] == y[3]):
            nan_args.append(x[2])
    if nan_args:
        A_, B_ = f"data[ncol*{jv}+{kv}]", f"data[ncol*{iv}+{kv}]"
        on_diff = any(cq.same_expr(x, f"{A_} - {B_}") or cq.same_expr(x, f"orientation*({A_} - {B_})") for x in nan_args)
        on_a, on_b = any(cq.same_expr(x, A_) for x in nan_args), any(cq.same_expr(x, B_) for x in nan_args)
        if not on_diff and (on_a != on_b):
            bad.append(f"the missing-value test looks at {'the other point' if on_a else 'the point'} only: a NaN coordinate of {'the point' if on_a else 'the other point'} is compared")
    if undecided_step and not bad:
        rep.undecided("R20.b", file, "c_paretofront", "coordinate step: NaN differences skipped, otherwise flag *= (orientation * (x_j[k] - x_i[k]) > 0)", "; ".join(undecided_step), line=l3.get("_line"))
    else:
        rep.check(not bad, "R20.b", file, "c_paretofront", "coordinate step: NaN differences skipped, otherwise flag *= (orientation * (x_j[k] - x_i[k]) > 0) (strict; the other point minus the point)",
              "; ".join(dict.fromkeys(bad)), line=l3.get("_line"))
    pre2 = cq.evaluate(cq.preceding(s2, l3), oracle=lambda c: False if cq.same_cond(c, f"{iv} == {jv}", True) else None)
    penv2 = pre2.finals[-1][0] if pre2.finals else {}
    pre1 = cq.evaluate(cq.preceding(s1, l2))
    reset = [e for e in cq.stores(pre1, "isdominated") if cq.same_expr(e.idx, iv) and cq.same_expr(e.val, "0") and not e.conds]
    skipself = [r for r in cq.evaluate(cq.preceding(s2, l3)).returns if r[0] == "ContinueStmt" and cq.holds(r[1], f"{iv} == {jv}", True)] or \
        any(cq.excluded(e.conds, f"{iv} == {jv}", True) for e in flagst)
    early = [r for r in cq.evaluate(cq.preceding(s2, l3)).returns if r[0] in ("ContinueStmt", "BreakStmt") and not cq.holds(r[1], f"{iv} == {jv}", True)]
    rep.check(not early, "R20.b", file, "c_paretofront", "every other point is examined as a dominator: the only candidate skipped is the point itself",
              f"{len(early)} path(s) leave the comparison before the coordinates are read, under {[cq.atom_text(cq.cond_atoms(c_, True)) if t_ else 'not ' + cq.atom_text(cq.cond_atoms(c_, True)) for c_, t_ in early[0][1]][:3] if early else ''} "
              "(dominance with missing coordinates is not transitive: a dominated point can be the only dominator of another)", line=l2.get("_line"))
    okfl = bool(flagst) and cq.holds(flagst[0].conds, f"{DOM} == 1", True) and any(r[0] == "BreakStmt" and cq.holds(r[1], f"{DOM} == 1", True) for r in pce.returns)
    rep.check(DOM in penv2 and cq.same_expr(penv2[DOM], "1") and bool(reset) and bool(skipself) and okfl, "R20.b", file, "c_paretofront",
              "a point is flagged (and the search stops) iff some other point is strictly better in every non-missing coordinate; flag reset per point, the point is not compared with itself", "", line=l2.get("_line"))
    P = pyxread.load_all(rep.repo)
    shims = {cm: {sh.name: sh for sh in d["shims"]} for cm, d in P.items()}
    sites, _ = xlayer.find_sites(rep.repo, shims)
    st = [s_ for s_ in sites if s_.shim.name == "pareto_front"]
    if len(st) != 1:
        raise AnalysisError("stat/sutils.py: pareto_front call site not found")
    st = st[0]
    ok, how, _ = xlayer.error_discipline(st)
    rep.check(ok, "R20.b", "stat/sutils.py", "pareto_front", "kernel error code raises", how, line=st.call.lineno)
    v = st.args.get("isdominated")
    xlayer.check_init(rep, v, ("zeros",), "R20.b", "stat/sutils.py", "pareto_front", "flags: fresh zero int32 vector of one entry per point", st.call.lineno)
    pa = pq.call_arguments(st.func, st.call, list(st.shim.params))
    d_ = pa.get("data")
    okd = d_ is not None and all(pq.mentions(x, lambda e: pq.call_named(e, "astype") and e[2][0] == ('sym', 'data') and pq.same(e[2][1], "np.float64")) for _c, x in pq.split_where(d_))
    fl = pa.get("isdominated")
    okfz = fl is not None and pq.call_named(fl, "zeros") and pq.mentions(fl[2][0], lambda e: pq.call_named(e, "shape") and pq.same(e[2][1], "0")) and \
        _kw(fl, "dtype") is not None and pq.same(_kw(fl, "dtype"), "np.int32")
    ppaths = pq.PEval().run(st.func)
    rank2 = any(p_.how == "raise" and any(t and cq.same_cond(c, cq.parse("NDIM != 2"), True) for c, t in [(_ndim(c_), t_) for c_, t_ in p_.conds]) for p_ in ppaths)
    rep.check(okd and okfz and rank2, "R20.b", "stat/sutils.py", "pareto_front",
              "data copied to float64, rank 2 checked; flags sized by the number of points", f"data:{okd} flags:{okfz} rank:{rank2}", line=st.func.lineno)

    # ---------------- boxplot_stats ---------------------------------------------------------------------------------------------------------------------
    bp = Mod(rep.repo, "plot/boxplot.py")
    bs = bp.func("boxplot_stats")
    bpaths = [p_ for p_ in pq.PEval().run(bs) if p_.how == "return"]
    FIN = ["~np.isnan(data) & ~np.isinf(data)", "np.isfinite(data)"]
    full = [p_ for p_ in bpaths if pq.mentions(p_.value, lambda e: pq.call_named(e, "nanpercentile") or pq.call_named(e, "percentile"))]
    short = [p_ for p_ in bpaths if p_ not in full]
    rep.check(len(full) == 1 and len(short) == 1, "R20.c", "plot/boxplot.py", "boxplot_stats", "one path with statistics, one NaN path", f"{len(full)} / {len(short)}", line=bs.lineno)
    if len(full) == 1 and len(short) == 1:
        fp, sp = full[0], short[0]
        cnd = fp.conds[-1] if fp.conds else None
        mask = None
        for m in FIN:
            if cnd is not None and (cq.same_cond(cnd[0], cq.parse("CNT > 3") if False else ('cmp', '>', pq.parse(f"np.sum({m})"), num(3)), True) and cnd[1] or
                                    cq.same_cond(cnd[0], ('cmp', '<=', pq.parse(f"np.sum({m})"), num(3)), True) and not cnd[1]):
                mask = m
        rep.check(mask is not None, "R20.c", "plot/boxplot.py", "boxplot_stats", "statistics need at least four finite values (finite = not NaN and not infinite)",
                  show(cnd[0])[:100] if cnd else "", line=bs.lineno)
        if mask is not None:
            VALID = f"data[{mask}]"
            WQ, BQ = "compute_percentiles(whiskers_coverage)", "compute_percentiles(box_coverage)"
            LEV = f"[{WQ}[0], {BQ}[0], 50, {BQ}[1], {WQ}[1]]"
            ser = pq.find(fp.value, lambda e: pq.call_named(e, ".Series"))
            okp = bool(ser) and any(pq.same(x[2][1], f"np.nanpercentile({VALID}, {LEV})") or pq.same(x[2][1], f"np.percentile({VALID}, {LEV})") for x in ser)
            rep.check(okp, "R20.c", "plot/boxplot.py", "boxplot_stats", "percentiles of the finite values at [whisker low, box low, 50, box high, whisker high] (levels from the two coverages)",
                      show(ser[0][2][1])[:200] if ser else "", line=bs.lineno)
            want = {"count": f"np.sum({mask})", "mean": f"({VALID}).mean()", "max": f"({VALID}).max()", "min": f"({VALID}).min()"}
            got = {}
            for e in fp.effects:
                if e.kind == 'store' and e.key[0] == 'sym':
                    got[e.key[1].strip("'\"")] = e.val
            for k_, w in want.items():
                rep.check(k_ in got and pq.same(got[k_], w), "R20.c", "plot/boxplot.py", "boxplot_stats", f"`{k_}` computed on the finite values", f"computed as `{show(got.get(k_, num(0)))[:80]}`", line=bs.lineno)
            # labels: index of the Series = formatted levels, in the same order; NaN path stores the same labels + min, max, mean
            idx = _kw(ser[0], "index") if ser else None
            lab_full = _labels(idx)
            lev = [f"{WQ}[0]", f"{BQ}[0]", "50", f"{BQ}[1]", f"{WQ}[1]"]
            okl = lab_full is not None and len(lab_full) == 5 and all(pq.same(a_, b_) or (b_ == "50" and a_ == ('sym', "'50.0%'")) for a_, b_ in zip(lab_full, lev))
            if lab_full is None:
                rep.undecided("R20.c", "plot/boxplot.py", "boxplot_stats", "percentile labels formatted from the same levels, in the same order",
                              f"label construction not recognised: {show(idx)[:80] if idx else None}", line=bs.lineno)
            else:
                rep.check(okl, "R20.c", "plot/boxplot.py", "boxplot_stats", "percentile labels formatted from the same levels, in the same order", "", line=bs.lineno)
            nanlab = None
            for e in sp.effects:
                if e.kind == 'store' and pq.call_named(e.key, "elem") and e.val == ('nan',):
                    nanlab = e.key[2][0]
            labs = _label_list(nanlab)
            okn = labs is not None and len(labs) == 8 and [x for x in labs[5:]] == ["min", "max", "mean"] and \
                all((isinstance(a_, tuple) and pq.same(a_, b_)) or (b_ == "50" and a_ in ("50.0%", ('sym', "'50.0%'"))) for a_, b_ in zip(labs[:5], lev))
            rep.check(okn, "R20.c", "plot/boxplot.py", "boxplot_stats", "fewer than four values: NaN row carrying the same labels", "", line=bs.lineno)
    cpf = bp.func("compute_percentiles")
    cr = [p_ for p_ in pq.PEval().run(cpf) if p_.how == "return"]
    okcp = len(cr) == 1 and pq.same(cr[0].value, "((100 - coverage)/2, 100 - (100 - coverage)/2)")
    rep.check(okcp, "R20.c", "plot/boxplot.py", "compute_percentiles", "levels (100 - coverage)/2 and 100 - that (central interval of the requested coverage)", "", line=cpf.lineno)
    bi = bp.func("Boxplot.__init__")
    ipaths = pq.PEval().run(bi)
    rj1 = any(p_.how == "raise" and p_.conds and p_.conds[-1][1] and cq.same_cond(p_.conds[-1][0], cq.parse("box_coverage < 40"), False) for p_ in ipaths)
    rj2 = any(p_.how == "raise" and p_.conds and p_.conds[-1][1] and cq.same_cond(p_.conds[-1][0], cq.parse("whiskers_coverage <= box_coverage"), False) for p_ in ipaths)
    rep.check(rj1 and rj2, "R20.c", "plot/boxplot.py", "Boxplot.__init__", "box coverage below 40 and whiskers not wider than the box are rejected", f"{rj1} {rj2}", line=bi.lineno)
    # ---------------- violin ------------------------------------------------------------------------------------------------------------------------------------
    vm = Mod(rep.repo, "plot/violinplot.py")
    vc = None
    for q, f in vm.funcs.items():
        if q.endswith("._compute"):
            vc = f
    if vc is None:
        raise AnalysisError("plot/violinplot.py: _compute not found")
    pe = pq.PEval()
    pe.inline = {k_: f_ for k_, f_ in vm.funcs.items() if k_.startswith("_") and "." not in k_}     # private module-level helpers are expanded at their call sites
    vpaths = pe.run(vc)
    vp = [p_ for p_ in vpaths if p_.how in ("end", "return")]
    if not vp:
        raise AnalysisError("plot/violinplot.py: _compute: no completing path")
    vp = vp[-1]
    attrs = {e.target: e.val for e in vp.effects if e.kind == 'attr'}
    DV = pq.parse("self._data")
    CC, CE = "compute_percentiles(COVERAGE_CENTER)", "compute_percentiles(COVERAGE_EXTREMES)"

    def finite_view(x):
        """x is the data with every non-finite entry turned into a missing one: D.where(isfinite(D)), D[isfinite(D)], D.mask(~isfinite(D)),
        D.mask(isinf(D)), D.replace([inf, -inf], nan)"""
        if pq.call_named(x, ".where") and len(x[2]) == 2 and len(x) == 3 and pq.same(x[2][0], DV):
            return pq.same(x[2][1], ('call', 'isfinite', (DV,)))
        if pq.call_named(x, "getitem") and len(x[2]) == 2 and pq.same(x[2][0], DV):
            return pq.same(x[2][1], ('call', 'isfinite', (DV,)))
        if pq.call_named(x, ".mask") and len(x[2]) == 2 and len(x) == 3 and pq.same(x[2][0], DV):
            return pq.same(x[2][1], ('not', ('call', 'isfinite', (DV,)))) or pq.same(x[2][1], ('call', 'isinf', (DV,)))
        if pq.call_named(x, ".replace") and len(x[2]) == 3 and len(x) == 3 and pq.same(x[2][0], DV):
            vals = x[2][1][1] if x[2][1][0] == 'tuple' else ()
            return {show(v_) for v_ in vals} == {show(pq.parse("np.inf")), show(pq.parse("-np.inf"))} and x[2][2] == ('nan',)
        return False
    meds = attrs.get("self.stat_median")
    src = meds[2][0] if meds is not None and pq.call_named(meds, ".median") and len(meds[2]) == 1 else None
    cons_f = "summary statistics are computed on the finite values of each column (non-finite entries masked before median / quantile)"
    if src is None:
        rep.undecided("R20.d", "plot/violinplot.py", "_compute", cons_f, f"stat_median is not <data>.median(): {show(meds)[:80] if meds else None}", line=vc.lineno)
        src = DV
    elif pq.same(src, DV):
        rep.violation("R20.d", "plot/violinplot.py", "_compute", cons_f,
                      "median and quantiles read self._data unfiltered: pandas skips NaN but not +-inf, so a column holding an infinite value gets a shifted "
                      "median and NaN quantiles (inf - inf in the interpolation)", line=vc.lineno, firm=True)
    elif finite_view(src):
        rep.proved("R20.d", "plot/violinplot.py", "_compute", cons_f, line=vc.lineno)
    else:
        rep.undecided("R20.d", "plot/violinplot.py", "_compute", cons_f, f"source of the statistics not recognised: {show(src)[:120]}", line=vc.lineno)
    env_ = {"FD": src}
    wantq = {"self.stat_median": "FD.median()", "self.stat_center_low": f"FD.quantile({CC}[0]/100)", "self.stat_center_high": f"FD.quantile({CC}[1]/100)",
             "self.stat_extremes_low": f"FD.quantile({CE}[0]/100)", "self.stat_extremes_high": f"FD.quantile({CE}[1]/100)"}
    okq = all(k_ in attrs and pq.same(attrs[k_], pq.parse(w, env_)) for k_, w in wantq.items())
    rep.check(okq, "R20.d", "plot/violinplot.py", "_compute", "median and quantiles at the levels implied by the centre / extremes coverages",
              str({k_: show(attrs.get(k_, num(0)))[:50] for k_ in wantq})[:300], line=vc.lineno)
    # inside the column loop: kde_y.loc[:, col] <- (y - y.min())/(y.max() - y.min()) with y = kernel(x), kernel = gaussian_kde(finite values)
    ys_all = [e for e in vp.effects if e.kind == 'store' and e.target.endswith("kde_y.loc") and e.loops and e.val != ('nan',)]
    ys = list({show(e.val): e for e in ys_all}.values())
    okn, okk = bool(ys), bool(ys)
    for e_ in ys:
        v = e_.val
        ok1 = ok2 = False
        if v[0] == 'div' and v[1][0] == 'sub' and v[2][0] == 'sub':
            y = v[1][1]
            ok1 = pq.same(v[1][2], ('call', 'min', (y,))) and pq.same(v[2][1], ('call', 'max', (y,))) and pq.same(v[2][2], ('call', 'min', (y,)))
            kern = pq.find(y, lambda e: pq.call_named(e, "f:gaussian_kde"))
            if kern:
                arg = kern[0][2][0]
                ok2 = pq.mentions(arg, lambda e: pq.call_named(e, ".notnull")) and pq.mentions(arg, lambda e: pq.call_named(e, "isfinite"))
        okn, okk = okn and ok1, okk and ok2
    rep.check(okn, "R20.d", "plot/violinplot.py", "_compute", "density profile min-max normalised to [0, 1]", show(ys[0].val)[:120] if ys else "", line=vc.lineno)
    rep.check(okk, "R20.d", "plot/violinplot.py", "_compute", "KDE fitted on the finite values of the column", "", line=vc.lineno)
    # the abscissa the kernel is evaluated on: every data value it is built from is read through the finite-value selection (an infinite
    # bound makes the grid, hence the whole profile, NaN)

    def raw_reads(e, acc):
        if not isinstance(e, tuple) or not e or not isinstance(e[0], str):
            return acc
        if finite_view(e):
            return acc                                       # the data with non-finite entries masked
        if pq.call_named(e, "getitem") and len(e[2]) == 2:
            k_ = e[2][1]
            if pq.call_named(k_, "getitem") and pq.call_named(k_[2][0], "elem") and k_[2][1] == num(0):
                return raw_reads(e[2][0], acc)               # indexed by the column label
            if pq.mentions(k_, lambda x: pq.call_named(x, "isfinite")):
                return acc                                   # selection by a mask that requires finiteness
        if pq.call_named(e, "attr:_data") or pq.call_named(e, "attr:data"):
            acc.append(e)
            return acc
        for x in e[1:]:
            if isinstance(x, tuple):
                if x and isinstance(x[0], str):
                    raw_reads(x, acc)
                else:
                    for y_ in x:
                        if isinstance(y_, tuple):
                            raw_reads(y_ if y_ and isinstance(y_[0], str) else (y_[1] if len(y_) == 2 and isinstance(y_[1], tuple) else ()), acc)
        return acc
    nx = 0
    for e_ in ys:
        for ap in pq.find(e_.val, lambda x: pq.call_named(x, "apply") and len(x[2]) == 2):
            nx += 1
            rr = raw_reads(ap[2][1], [])
            rep.check(not rr, "R20.d", "plot/violinplot.py", "_compute", "the points the density is evaluated at are built from the finite values only",
                      f"the abscissa reads the unfiltered data ({show(ap[2][1])[:140]}): a column holding +-inf gives an infinite grid bound and a NaN profile", line=e_.line, firm=True)
            break
    rep.floor("KDE evaluation sites", nx, 1)
    return EXPLANATION


def _ndim(c):
    """condition with `<x>.ndim` replaced by the symbol NDIM"""
    if not isinstance(c, tuple) or not c or not isinstance(c[0], str):
        return c
    if pq.call_named(c, "attr:ndim"):
        return ('sym', 'NDIM')
    if c[0] in ('sym', 'num', 'nan'):
        return c
    return tuple([c[0]] + [(_ndim(x) if isinstance(x, tuple) and x and isinstance(x[0], str) else
                            (tuple(_ndim(y) if isinstance(y, tuple) else y for y in x) if isinstance(x, tuple) else x)) for x in c[1:]])


def _fmt_level(e):
    """'{0:0.1f}%'.format(level) -> level Expr; a literal '50.0%' -> the literal"""
    if pq.call_named(e, ".format") and e[2][0] == ('sym', "'{0:0.1f}%'") and len(e[2]) == 2:
        return e[2][1]
    if pq.call_named(e, "fstr") and len(e[2]) == 2 and e[2][1] == ('sym', "'%'"):
        v = e[2][0]                    # f"{level:0.1f}%": same text as '{0:0.1f}%'.format(level)
        if pq.call_named(v, "fmt") and len(v[2]) == 2 and v[2][1] in (('sym', "'0.1f'"), ('sym', "'.1f'")):
            return v[2][0]
        return None
    if isinstance(e, tuple) and e[0] == 'sym' and e[1].startswith("'"):
        return e
    return None


def _labels(idx):
    """index labels of the percentile Series: a tuple of formatted levels or a comprehension over the level list"""
    if idx is None:
        return None
    if idx[0] == 'tuple':
        out = [_fmt_level(x) for x in idx[1]]
        return None if any(x is None for x in out) else out
    if pq.call_named(idx, "py:['{0:0.1f}%'.format(qqq)forqqqinqq]") or (idx[0] == 'call' and idx[1].startswith("py:[") and ".format(" in idx[1] and "'{0:0.1f}%'" in idx[1]):
        # comprehension over a list named in the text: resolved by the caller through the level list itself
        import re
        m = re.match(r"py:\['\{0:0\.1f\}%'\.format\((\w+)\)for(\w+)in(\w+)\]$", idx[1])
        if m and m.group(1) == m.group(2):
            return _LEVELS_SENTINEL
    return None


class _Sentinel(list):
    pass


_LEVELS_SENTINEL = None


def _label_list(e):
    """labels iterated by the NaN path: tuple of label Exprs (possibly a concatenation) -> python list of level Exprs / plain names"""
    if e is None:
        return None
    items = []

    def flat(x):
        if x[0] == 'tuple':
            for y in x[1]:
                items.append(y)
            return True
        if x[0] == 'add':
            return flat(x[1]) and flat(x[2])
        return False
    if not flat(e):
        return None
    out = []
    for x in items:
        lv = _fmt_level(x)
        if lv is None:
            return None
        if lv[0] == 'sym' and lv[1].startswith("'"):
            out.append(lv[1].strip("'"))
        else:
            out.append(lv)
    return out
