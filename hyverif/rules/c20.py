"""C20 -- sampling, ranking and summary helpers return what their names promise (structural clauses)."""
import ast

from ..core import AnalysisError
from ..cfront import strip, text
from .. import ckern, xlayer, pyxread
from ..ceval import CEval, find_all, loop_parts, body_stmts, loop_var, stores_to, to_expr
from ..formula import Canon, Ratio, Undecided, show, num, ExprBuilder
from ..pyfront import Mod, dotted, const_value, raises
from ..poly import Poly

EXPLANATION = (
    "Closed forms compared with their definitions: plotting positions (i - cst)/(n + 1 - 2 cst) under the [0, 1/2] "
    "guard, with p_i + p_(n+1-i) = 1 and p_(i+1) - p_i > 0 as rational identities / sign proofs; normal scores apply "
    "the same formula to the 1-based average rank; Latin hypercube: stratum width (pmax - pmin)/n, n stratum centres "
    "from pmin + du/2 to pmax - du/2, one permutation per parameter, jitter of exactly half a stratum.  Pareto kernel: "
    "for the four truth assignments of (difference is NaN, oriented difference > 0) the dominance flag is multiplied "
    "by the strict comparison and NaN differences are skipped; difference = other point minus the point; the point is "
    "flagged as soon as one other point dominates it; the wrapper copies, checks the rank, allocates int32 flags and "
    "raises.  Box-plot summaries: count, percentiles (levels whisker-low, box-low, 50, box-high, whisker-high in label "
    "order), mean, min, max all read the same finite mask; fewer than four values give the NaN row with the same "
    "labels; coverages validated.  Violin: quantile levels from compute_percentiles, KDE profile min-max normalised.  "
    "The statistics' values (numpy / pandas / scipy) are trusted.")


def run(rep):
    rep.rule("R20.a", "ppos / standard_normal / lhs closed forms, symmetry and monotonicity identities, guards")
    rep.rule("R20.b", "pareto kernel step for all predicate assignments, difference orientation, early exit; wrapper copy / rank check / int32 flags / raise")
    rep.rule("R20.c", "boxplot_stats: one finite mask for all statistics, percentile levels in label order, NaN row with the same labels, coverage validation")
    rep.rule("R20.d", "violin: quantile levels from compute_percentiles of the coverage constants, KDE profile min-max normalised")
    mod = Mod(rep.repo, "stat/sutils.py")
    b = ExprBuilder(None, None)
    rep.unit("stat/sutils.py: ppos, standard_normal, lhs, pareto_front; stat/c_paretofront.c; plot/boxplot.py: compute_percentiles, boxplot_stats, Boxplot.__init__; plot/violinplot.py: _compute")
    # ---------------- ppos ------------------------------------------------------------------------------------------------------------
    pp = mod.func("ppos")
    ret = [s for s in pp.body if isinstance(s, ast.Return)]
    okf = False
    if ret:
        try:
            cn = Canon()
            got = cn.ratio(b.build(ret[0].value, {"nval": ('sym', 'n'), "cst": ('sym', 'c')}))
            I = cn.ratio(b.build(ast.parse("np.arange(1, n+1)", mode="eval").body, {"n": ('sym', 'n')}))
            want = (I - Ratio.sym('c')) / (Ratio.sym('n') + 1 - 2 * Ratio.sym('c'))
            okf = got == want
        except Undecided:
            okf = False
    rep.check(okf, "R20.a", "stat/sutils.py", "ppos", "p_i = (i - cst)/(n + 1 - 2 cst), i = 1..n", ast.unparse(ret[0].value) if ret else "", line=pp.lineno)
    # identities on the formula (i symbolic)
    i, n, c = Ratio.sym('i'), Ratio.sym('n'), Ratio.sym('c')
    p = lambda k: (k - c) / (n + 1 - 2 * c)
    rep.check(p(i) + p(n + 1 - i) == Ratio.const(1), "R20.a", "stat/sutils.py", "ppos", "symmetry p_i + p_(n+1-i) = 1 (exact identity of the formula)", "", line=pp.lineno)
    # increment 1/(n+1-2c) > 0 and range with c = 1/2 - d, d in [0, 1/2]
    inc = p(i + 1) - p(i)
    sub = lambda r: Ratio(r.n.subst('c', Poly.const(0.5) - Poly.sym('d')), r.d.subst('c', Poly.const(0.5) - Poly.sym('d')))
    from .c04 import positive_ratio
    rep.check(positive_ratio(sub(inc), {"n", "d"}), "R20.a", "stat/sutils.py", "ppos", "strictly increasing: p_(i+1) - p_i = 1/(n + 1 - 2 cst) > 0 for cst <= 1/2", f"{sub(inc)}", line=pp.lineno)
    lo = sub(Ratio(p(Ratio.const(1)).n, p(Ratio.const(1)).d))
    hi = sub(Ratio.const(1) - p(n))
    rep.check(positive_ratio(lo, {"n", "d"}) and positive_ratio(hi, {"n", "d"}), "R20.a", "stat/sutils.py", "ppos", "0 < p_1 and p_n < 1 for 0 <= cst < ... <= 1/2 (d = 1/2 - cst >= 0)",
              f"p_1 = {lo}, 1 - p_n = {hi}", line=pp.lineno)
    g = [s for s in pp.body if isinstance(s, ast.If) and raises(s.body)]
    okg = bool(g) and ast.unparse(g[0].test).replace(" ", "") in ("cst<0.0orcst>0.5", "cst<0orcst>0.5", "cst>0.5orcst<0.0")
    rep.check(okg, "R20.a", "stat/sutils.py", "ppos", "cst outside [0, 1/2] rejected", ast.unparse(g[0].test) if g else "", line=pp.lineno)
    # ---------------- standard_normal -----------------------------------------------------------------------------------------------------
    sn = mod.func("standard_normal")
    un = [x for x in ast.walk(sn) if isinstance(x, ast.Assign) and isinstance(x.targets[0], ast.Name) and x.targets[0].id == "unorm"]
    oks = False
    if un and isinstance(un[0].value, ast.Call) and dotted(un[0].value.func) == "norm.ppf":
        try:
            cn = Canon()
            got = cn.ratio(b.build(un[0].value.args[0], {"ranks": ('sym', 'r'), "cst": ('sym', 'c'), "nval": ('sym', 'n')}))
            oks = got == (Ratio.sym('r') + 1 - c) / (n + 1 - 2 * c)
        except Undecided:
            oks = False
    rep.check(oks, "R20.a", "stat/sutils.py", "standard_normal", "normal score = norm.ppf((rank + 1 - cst)/(n + 1 - 2 cst)) with 0-based ranks (same plotting position formula)",
              ast.unparse(un[0].value) if un else "", line=sn.lineno)
    rk = [x for x in ast.walk(sn) if isinstance(x, ast.Assign) and isinstance(x.targets[0], ast.Name) and x.targets[0].id == "ranks"]
    forms = sorted(ast.unparse(x.value).replace(" ", "") for x in rk)
    rep.check(forms == ["np.arange(nval)", "pd.Series(x).rank(method=rank_method)-1"], "R20.a", "stat/sutils.py", "standard_normal",
              "ranks = pandas rank - 1 (ties keep their fractional average rank), or 0..n-1 for sorted data", str(forms), line=sn.lineno)
    nv = [x for x in ast.walk(sn) if isinstance(x, ast.Assign) and isinstance(x.targets[0], ast.Name) and x.targets[0].id == "nval"]
    rep.check(bool(nv) and ast.unparse(nv[0].value) == "len(x)", "R20.a", "stat/sutils.py", "standard_normal", "n = sample size", "", line=sn.lineno)
    # ---------------- lhs ------------------------------------------------------------------------------------------------------------------------
    lh = mod.func("lhs")
    loop = [x for x in lh.body if isinstance(x, ast.For)]
    okl = False
    det = "parameter loop not found"
    if loop and ast.unparse(loop[0].iter).replace(" ", "") == "range(nparams)":
        v = loop[0].target.id
        asg = {x.targets[0].id if isinstance(x.targets[0], ast.Name) else ast.unparse(x.targets[0]).replace(" ", ""): x.value for x in loop[0].body if isinstance(x, ast.Assign)}
        try:
            cn = Canon()
            env = {"pmax": ('sym', 'PMAX'), "pmin": ('sym', 'PMIN'), "nsamples": ('sym', 'N'), v: ('sym', v)}
            PMX = cn.ratio(('call', 'getitem', (('sym', 'PMAX'), ('sym', v))))
            PMN = cn.ratio(('call', 'getitem', (('sym', 'PMIN'), ('sym', v))))
            du = cn.ratio(b.build(asg["du"], env))
            okdu = du == (PMX - PMN) / Ratio.sym('N')
            env["du"] = ('sym', 'DU')
            u = asg["u"]
            oku = isinstance(u, ast.Call) and dotted(u.func) == "np.linspace" and len(u.args) == 3 and \
                cn.ratio(b.build(u.args[0], env)) == PMN + Ratio.sym('DU') / 2 and cn.ratio(b.build(u.args[1], env)) == PMX - Ratio.sym('DU') / 2 and \
                cn.ratio(b.build(u.args[2], env)) == Ratio.sym('N')
            okk = ast.unparse(asg["kk"]).replace(" ", "") == "np.random.permutation(nsamples)"
            s_ = asg["s"]
            oks_ = isinstance(s_, ast.BinOp) and isinstance(s_.op, ast.Add) and ast.unparse(s_.left).replace(" ", "") == "u[kk]" and isinstance(s_.right, ast.Call) and \
                dotted(s_.right.func) == "np.random.uniform" and cn.ratio(b.build(s_.right.args[0], env)) == -Ratio.sym('DU') / 2 and \
                cn.ratio(b.build(s_.right.args[1], env)) == Ratio.sym('DU') / 2 and {k.arg: ast.unparse(k.value) for k in s_.right.keywords} == {"size": "nsamples"}
            okst = f"samples[:,{v}]" in asg and ast.unparse(asg[f"samples[:,{v}]"]) == "s"
            okl = okdu and oku and okk and oks_ and okst
            det = f"du:{okdu} centres:{oku} permutation:{okk} jitter:{oks_} store:{okst}"
        except (Undecided, KeyError) as ex:
            det = str(ex)
    rep.check(okl, "R20.a", "stat/sutils.py", "lhs", "per parameter: du = (pmax-pmin)/n, n centres pmin+du/2 .. pmax-du/2, one permutation, jitter uniform(-du/2, du/2)", det, line=lh.lineno)
    gd = [x for x in lh.body if isinstance(x, ast.If) and raises(x.body) and "pmax-pmin<=0" in ast.unparse(x.test).replace(" ", "")]
    rep.check(bool(gd), "R20.a", "stat/sutils.py", "lhs", "empty or inverted ranges rejected (pmax - pmin <= 0)", "", line=lh.lineno)

    # ---------------- pareto kernel ----------------------------------------------------------------------------------------------------------------
    K = ckern.analyze(rep.repo)
    fn = K["fns"].get("c_paretofront")
    if fn is None:
        raise AnalysisError("stat/c_paretofront.c: c_paretofront not found")
    file = fn["file"]
    l1 = [s for s in fn["body"]["inner"] if s.get("kind") == "ForStmt"]
    if len(l1) != 1:
        raise AnalysisError(f"{file}: point loop not found")
    iv = loop_var(l1[0])
    s1 = body_stmts(loop_parts(l1[0])[3])
    l2 = [s for s in s1 if s.get("kind") == "ForStmt"]
    jv = loop_var(l2[0])
    s2 = body_stmts(loop_parts(l2[0])[3])
    l3 = [s for s in s2 if s.get("kind") == "ForStmt"]
    kv = loop_var(l3[0])
    s3 = body_stmts(loop_parts(l3[0])[3])
    rng = [text(loop_parts(l)[1]).replace(" ", "") for l in (l1[0], l2[0], l3[0])]
    rep.check(rng == [f"{iv}<nval", f"{jv}<nval", f"{kv}<ncol"], "R20.b", file, "c_paretofront", "every point against every other point, over all coordinates", str(rng), line=l1[0].get("_line"))
    bad = []
    for isn, pos in ((True, True), (True, False), (False, True), (False, False)):
        def oracle(c, isn=isn, pos=pos):
            if c[0] == 'call' and c[1] == 'isnan':
                return isn if show(c[2][0]) == "DIFF" else None
            if c[0] == 'cmp':
                return None
            return None
        ce = CEval(oracle)
        env = {"dom": ('sym', 'D0'), "orientationd": ('sym', 'OR')}
        stm = []
        ddef = None
        for s in s3:
            if s.get("kind") == "BinaryOperator" and s.get("opcode") == "=" and text(s["inner"][0]) == "diff":
                ddef = s
                continue
            stm.append(s)
        env["diff"] = ('sym', 'DIFF')
        try:
            ce._walk(stm, env, [])
        except Undecided as ex:
            bad.append(f"nan={isn}: {ex}")
            continue
        cnn = Canon()
        if isn:
            if not (env["dom"] == ('sym', 'D0') and any(r[0] == "ContinueStmt" for r in ce.returns)):
                bad.append(f"NaN difference: dom becomes {show(env['dom'])} (must be skipped)")
        else:
            want = ('mul', ('sym', 'D0'), ('cmp', '>', ('mul', ('sym', 'OR'), ('sym', 'DIFF')), num(0)))
            if not (cnn.ratio(env["dom"]) == cnn.ratio(want)):
                bad.append(f"dom becomes {show(env['dom'])}, expected dom * (orientation*diff > 0)")
    rep.check(not bad, "R20.b", file, "c_paretofront", "coordinate step: NaN differences skipped, otherwise dom *= (orientation * diff > 0) (strict)", "; ".join(dict.fromkeys(bad)), line=l3[0].get("_line"))
    okdiff = False
    if ddef is not None:
        cnn = Canon()
        e = to_expr(ddef["inner"][1], {})
        want = ('sub', ('call', 'A:data', (('add', ('mul', ('sym', 'ncol'), ('sym', jv)), ('sym', kv)),)), ('call', 'A:data', (('add', ('mul', ('sym', 'ncol'), ('sym', iv)), ('sym', kv)),)))
        okdiff = cnn.ratio(e) == cnn.ratio(want)
    rep.check(okdiff, "R20.b", file, "c_paretofront", "diff = coordinate of the other point j minus coordinate of the point i", text(ddef["inner"][1]) if ddef is not None else "", line=l3[0].get("_line"))
    nanarg = [text(x["inner"][1]).replace(" ", "") for x in find_all(l3[0], lambda n: n.get("kind") == "CallExpr" and "isnan" in text(n["inner"][0]))]
    rep.check(nanarg == ["diff"], "R20.b", file, "c_paretofront", "the NaN test is on the difference (a NaN in either point skips the coordinate)", str(nanarg), line=l3[0].get("_line"))
    pre2 = {text(s["inner"][0]).replace(" ", ""): text(s["inner"][1]).replace(" ", "") for s in s2 if s.get("kind") == "BinaryOperator" and s.get("opcode") == "="}
    pre1 = {text(s["inner"][0]).replace(" ", ""): text(s["inner"][1]).replace(" ", "") for s in s1 if s.get("kind") == "BinaryOperator" and s.get("opcode") == "="}
    skip = [s for s in s2 if s.get("kind") == "IfStmt" and text(s["inner"][0]).replace(" ", "") in (f"{iv}=={jv}", f"{jv}=={iv}") and find_all(s, lambda n: n.get("kind") == "ContinueStmt")]
    flag = [s for s in s2 if s.get("kind") == "IfStmt" and text(s["inner"][0]).replace(" ", "") == "dom==1"]
    okfl = bool(flag) and text(stores_to(flag[0], "isdominated")[0]["inner"][1]) == "1" and bool(find_all(flag[0], lambda n: n.get("kind") == "BreakStmt"))
    rep.check(pre2.get("dom") == "1" and pre1.get(f"isdominated[{iv}]") == "0" and bool(skip) and okfl and s2.index(flag[0]) > s2.index(l3[0]), "R20.b", file, "c_paretofront",
              "a point is flagged (and the search stops) iff some other point is strictly better in every non-missing coordinate; flag reset per point, the point is not compared with itself", "", line=l2[0].get("_line"))
    od = [d for d in find_all(fn["body"], lambda n: n.get("kind") == "VarDecl" and n.get("name") == "orientationd")]
    rep.check(bool(od) and text([c for c in od[0]["inner"] if c.get("kind")][0]).replace(" ", "") == "(double)orientation", "R20.b", file, "c_paretofront", "orientation multiplies the difference (reversing it equals negating the data)", "", line=fn["line"])
    P = pyxread.load_all(rep.repo)
    shims = {cm: {sh.name: sh for sh in d["shims"]} for cm, d in P.items()}
    sites, _ = xlayer.find_sites(rep.repo, shims)
    st = [s for s in sites if s.shim.name == "pareto_front"]
    if len(st) != 1:
        raise AnalysisError("stat/sutils.py: pareto_front call site not found")
    st = st[0]
    ok, how, _ = xlayer.error_discipline(st)
    rep.check(ok, "R20.b", "stat/sutils.py", "pareto_front", "kernel error code raises", how, line=st.call.lineno)
    v = st.args.get("isdominated")
    rep.check(v is not None and v[1].fresh and v[1].init == ("zeros",), "R20.b", "stat/sutils.py", "pareto_front", "flags: fresh zero int32 vector of one entry per point", "", line=st.call.lineno)
    pf = st.func
    txt = ast.unparse(pf).replace(" ", "")
    rep.check("data=data.astype(np.float64)" in txt and "data.ndim!=2" in txt and "np.ascontiguousarray(data)" in txt and "np.zeros(data.shape[0]).astype(np.int32)" in txt, "R20.b", "stat/sutils.py", "pareto_front",
              "data copied to float64, rank 2 checked, made contiguous; flags sized by the number of points", "", line=pf.lineno)

    # ---------------- boxplot_stats ---------------------------------------------------------------------------------------------------------------------
    bp = Mod(rep.repo, "plot/boxplot.py")
    bs = bp.func("boxplot_stats")
    idx = [x for x in bs.body if isinstance(x, ast.Assign) and isinstance(x.targets[0], ast.Name) and x.targets[0].id == "idx"]
    okm = bool(idx) and ast.unparse(idx[0].value).replace(" ", "") in ("~np.isnan(data)&~np.isinf(data)", "(~np.isnan(data))&(~np.isinf(data))", "np.isfinite(data)")
    rep.check(okm, "R20.c", "plot/boxplot.py", "boxplot_stats", "finite mask = not NaN and not infinite", ast.unparse(idx[0].value) if idx else "", line=bs.lineno)
    main = [x for x in bs.body if isinstance(x, ast.If)]
    stats = {}
    qq = None
    if main:
        for x in ast.walk(ast.Module(body=main[0].body, type_ignores=[])):
            if isinstance(x, ast.Assign) and isinstance(x.targets[0], ast.Subscript) and dotted(x.targets[0].value) == "prc":
                stats[const_value(x.targets[0].slice)] = ast.unparse(x.value).replace(" ", "")
            if isinstance(x, ast.Assign) and isinstance(x.targets[0], ast.Name) and x.targets[0].id == "qq" and isinstance(x.value, ast.List):
                qq = [ast.unparse(e) for e in x.value.elts]
            if isinstance(x, ast.Call) and dotted(x.func) == "np.nanpercentile":
                stats["percentiles"] = ast.unparse(x.args[0]).replace(" ", "") + "|" + ast.unparse(x.args[1]).replace(" ", "")
    want = {"count": "nok", "mean": "data[idx].mean()", "max": "data[idx].max()", "min": "data[idx].min()", "percentiles": "data[idx]|qq"}
    for k, w in want.items():
        rep.check(stats.get(k) == w, "R20.c", "plot/boxplot.py", "boxplot_stats", f"`{k}` computed on the finite values (data[idx])", f"computed as `{stats.get(k)}`", line=bs.lineno)
    nok = [x for x in bs.body if isinstance(x, ast.Assign) and isinstance(x.targets[0], ast.Name) and x.targets[0].id == "nok"]
    rep.check(bool(nok) and ast.unparse(nok[0].value).replace(" ", "") in ("np.sum(idx)", "idx.sum()"), "R20.c", "plot/boxplot.py", "boxplot_stats", "count = number of finite values", "", line=bs.lineno)
    rep.check(qq == ["wqq1", "bqq1", "50", "bqq2", "wqq2"], "R20.c", "plot/boxplot.py", "boxplot_stats", "percentile levels [whisker low, box low, 50, box high, whisker high] (non-decreasing, in label order)", str(qq), line=bs.lineno)
    unp = {ast.unparse(x.targets[0]).replace(" ", ""): ast.unparse(x.value).replace(" ", "") for x in bs.body if isinstance(x, ast.Assign) and isinstance(x.targets[0], ast.Tuple)}
    rep.check(unp == {"(bqq1,bqq2)": "compute_percentiles(box_coverage)", "(wqq1,wqq2)": "compute_percentiles(whiskers_coverage)"}, "R20.c", "plot/boxplot.py", "boxplot_stats",
              "box / whisker levels from the box / whisker coverages", str(unp), line=bs.lineno)
    rep.check(bool(main) and ast.unparse(main[0].test).replace(" ", "") in ("nok>3", "nok>=4"), "R20.c", "plot/boxplot.py", "boxplot_stats", "statistics need at least four finite values", "", line=bs.lineno)
    if main:
        names = [x for x in ast.walk(ast.Module(body=main[0].orelse, type_ignores=[])) if isinstance(x, ast.List) and len(x.elts) == 8]
        okn = bool(names)
        if okn:
            lab = [ast.unparse(e).replace(" ", "") for e in names[0].elts]
            okn = lab == ["'{0:0.1f}%'.format(wqq1)", "'{0:0.1f}%'.format(bqq1)", "'50.0%'", "'{0:0.1f}%'.format(bqq2)", "'{0:0.1f}%'.format(wqq2)", "'min'", "'max'", "'mean'"]
        rep.check(okn, "R20.c", "plot/boxplot.py", "boxplot_stats", "fewer than four values: NaN row carrying the same labels", "", line=bs.lineno)
    cpf = bp.func("compute_percentiles")
    try:
        cn = Canon()
        env = {"coverage": ('sym', 'cov')}
        a1 = [x for x in cpf.body if isinstance(x, ast.Assign)]
        q1 = cn.ratio(b.build(a1[0].value, env))
        env2 = dict(env, qq1=('sym', 'Q1'))
        q2 = cn.ratio(b.build(a1[1].value, env2))
        okcp = q1 == (Ratio.const(100) - Ratio.sym('cov')) / 2 and q2 == Ratio.const(100) - Ratio.sym('Q1')
    except (Undecided, IndexError):
        okcp = False
    rep.check(okcp, "R20.c", "plot/boxplot.py", "compute_percentiles", "levels (100 - coverage)/2 and 100 - that (central interval of the requested coverage)", "", line=cpf.lineno)
    bi = bp.func("Boxplot.__init__")
    t = ast.unparse(bi).replace(" ", "")
    rep.check("ifbox_coverage<40.0:" in t and "ifwhiskers_coverage<=box_coverage:" in t, "R20.c", "plot/boxplot.py", "Boxplot.__init__", "box coverage below 40 and whiskers not wider than the box are rejected", "", line=bi.lineno)
    # ---------------- violin ------------------------------------------------------------------------------------------------------------------------------------
    vm = Mod(rep.repo, "plot/violinplot.py")
    vc = None
    for q, f in vm.funcs.items():
        if q.endswith("._compute"):
            vc = f
    if vc is None:
        raise AnalysisError("plot/violinplot.py: _compute not found")
    t = ast.unparse(vc).replace(" ", "")
    okq = all(x in t for x in ("cpp1,cpp2=compute_percentiles(COVERAGE_CENTER)", "data.quantile(cpp1/100)", "data.quantile(cpp2/100)",
                               "epp1,epp2=compute_percentiles(COVERAGE_EXTREMES)", "data.quantile(epp1/100)", "data.quantile(epp2/100)", "self.stat_median=data.median()"))
    rep.check(okq, "R20.d", "plot/violinplot.py", "_compute", "median and quantiles at the levels implied by the centre / extremes coverages", "", line=vc.lineno)
    rep.check("y=(y-y.min())/(y.max()-y.min())" in t, "R20.d", "plot/violinplot.py", "_compute", "density profile min-max normalised to [0, 1]", "", line=vc.lineno)
    rep.check("notnull=se.notnull()&np.isfinite(se.values)" in t and "sen=se[notnull]" in t and "kernel=gaussian_kde(values[selected])" in t, "R20.d", "plot/violinplot.py", "_compute",
              "KDE fitted on the finite values of the column", "", line=vc.lineno)
    return EXPLANATION
