"""C11 -- flow accumulation equals the sum over everything upstream (structural clauses)."""
import ast

from ..core import AnalysisError
from ..cfront import strip, text
from .. import cq, pq, cnorm, ckern, ceffects, xlayer, pyxread
from ..ceval import CEval, find_all, loop_parts, body_stmts, loop_var, stores_to
from ..formula import Canon, Ratio, Undecided, show, num
from ..pyfront import Mod, dotted, const_value

EXPLANATION = (
    "The downstream walk of c_accumulate is evaluated symbolically: the value added at every visited cell must be "
    "the contribution of the walk's ORIGIN cell (indexed by the outer loop variable, hence invariant along the walk), "
    "added to the cell the walk has just moved to; the walk advances by idxup <- idxdown, counts its steps against the "
    "cap, and on a terminal cell (negative downstream code) stores the no-data value at the current cell and stops, "
    "under no other condition.  The wrapper initialises the accumulation as an independent clone of the field (each "
    "cell counts itself), sizes the default cap as nrows*ncols, raises on the error code, and the kernel only reads "
    "the flow directions and the field (effect summary).  Together with C06's downstream rules these are the "
    "structural conditions for 'accumulated value = sum over the cell and everything draining through it'; the "
    "totals on a given grid are not computed.")


def lvalue_of(arg):
    """pointer argument -> rule-notation text of the scalar it designates: `&x` -> x, array `a` -> a[0]"""
    a = arg
    while a.get("kind") in ("ParenExpr", "ImplicitCastExpr", "CStyleCastExpr"):
        a = a["inner"][0]
    if a.get("kind") == "UnaryOperator" and a.get("opcode") == "&":
        return text(a["inner"][0]).replace(" ", "")
    if a.get("kind") == "DeclRefExpr":
        return a["referencedDecl"]["name"] + "[0]"
    return None


def run(rep):
    rep.rule("R11.a", "the summand of the walk is the origin cell's contribution, added at the cell just reached; walk advances current <- downstream")
    rep.rule("R11.b", "accumulation starts as an independent clone of the field to accumulate (each cell counts itself)")
    rep.rule("R11.c", "the kernel only reads flow directions and the field; the wrapper raises on the error code")
    rep.rule("R11.d", "terminal cells get the no-data value at the walk's current cell, exactly when the downstream code is negative; walk length capped by a counter incremented on every step; default cap nrows*ncols")
    K = ckern.analyze(rep.repo)
    if K["fns"].get("c_accumulate") is None:
        raise AnalysisError("gis/c_grid.c: c_accumulate not found")
    fn = ckern.normalised(K, "c_accumulate", rep.repo)
    file = fn["file"]
    top = body_stmts(fn["body"])
    outer = [s for s in top if s.get("kind") in ("ForStmt", "WhileStmt") and "accumulation" in cnorm.writes(s)[1]]
    if len(outer) != 1:
        raise AnalysisError(f"{file}: c_accumulate cell loop not found")
    outer = outer[0]
    olr = cq.loop_range(outer, cq.preceding(top, outer))
    iv = olr["var"] if olr else loop_var(outer)
    ostm = body_stmts(loop_parts(outer)[3])
    wl = [s for s in ostm if s.get("kind") in ("WhileStmt", "ForStmt") and find_all(s, lambda n: n.get("kind") == "CallExpr" and text(n["inner"][0]) == "c_downstream")]
    if len(wl) != 1:
        raise AnalysisError(f"{file}: c_accumulate walk loop not found")
    wl = wl[0]
    rep.unit(f"{file}: c_accumulate (normalised: cell loop, downstream walk); gis/grid.py: accumulate")
    rep.check(cq.range_is(olr, "0", "nrows*ncols-1"), "R11.a", file, "c_accumulate", "every cell of the grid starts a walk", "", line=outer.get("_line"))
    dcall = find_all(wl, lambda n: n.get("kind") == "CallExpr" and text(n["inner"][0]) == "c_downstream")
    okd = len(dcall) == 1 and len(dcall[0]["inner"]) == 8 and all(cq.same_expr(a, w) for a, w in zip(dcall[0]["inner"][1:6], ("nrows", "ncols", "flowdircode", "flowdir", "1")))
    CUR = lvalue_of(dcall[0]["inner"][6]) if okd else None
    DOWN = lvalue_of(dcall[0]["inner"][7]) if okd else None
    rep.check(okd and CUR is not None and DOWN is not None and CUR != DOWN, "R11.a", file, "c_accumulate",
              "downstream cell of the current cell from c_downstream(grid, codes, flow directions, 1, current, downstream)", "", line=wl.get("_line"))
    if not (okd and CUR and DOWN):
        return EXPLANATION
    # state before the walk
    pre = ostm[:ostm.index(wl)]
    pce = cq.evaluate([s for s in pre if s.get("kind") != "IfStmt"])
    penv = pce.finals[-1][0] if pce.finals else {}
    # no cell skips its walk: the statements before the walk loop neither `continue` nor leave with success
    try:
        fce = cq.evaluate(pre)
        skips = [how for _e, _c, how in fce.finals if how in ("ContinueStmt", "BreakStmt")]
        skips += ["return 0" for r_ in fce.returns if isinstance(r_[0], tuple) and cq.same_expr(r_[0], "0")]
        if skips and cq.stores(fce, "accumulation"):
            rep.undecided("R11.a", file, "c_accumulate", "no cell skips its walk", "a path leaves before the walk after storing into the accumulation itself", line=outer.get("_line"))
        else:
            rep.check(not skips, "R11.a", file, "c_accumulate", "no cell skips its walk (a skipped walk leaves its terminal cell without the no-data flag)",
                      f"{len(skips)} path(s) leave the cell's iteration before the walk: {sorted(set(skips))}", line=outer.get("_line"))
    except Undecided as ex:
        rep.undecided("R11.a", file, "c_accumulate", "no cell skips its walk", str(ex), line=outer.get("_line"))
    wparts = loop_parts(wl)
    wlr = cq.loop_range(wl, pre) if wl.get("kind") == "ForStmt" else None
    # the step counter: the variable compared with max_accumulated_cells in the walk condition
    counter = None
    for c_ in cq._conj(wparts[1]):
        a = cq.cond_atoms(c_, True)
        if isinstance(a, cq.Atom) and "max_accumulated_cells" in a.d.symbols():
            others = [x for x in a.d.symbols() if x != "max_accumulated_cells"]
            if len(others) == 1:
                counter = others[0]
                capcond = c_
    okcap = counter is not None and (cq.same_cond(capcond, f"{counter} <= max_accumulated_cells", True) or cq.same_cond(capcond, f"{counter} < max_accumulated_cells", True))
    rep.check(okcap, "R11.d", file, "c_accumulate", "walk length capped by a step counter compared with max_accumulated_cells", text(wparts[1]), line=wl.get("_line"))
    cur0 = penv.get(CUR)
    rep.check(cur0 is not None and cq.same_expr(cur0, iv), "R11.a", file, "c_accumulate", "walk starts at the origin cell: current = i", show(cur0) if cur0 else "", line=outer.get("_line"))
    if counter:
        c0 = penv.get(counter) if wlr is None or wlr["lo"] is None else wlr["lo"]
        rep.check(c0 is not None and cq.same_expr(c0, "0"), "R11.d", file, "c_accumulate", "step counter reset for every walk", f"{counter} = {show(c0) if c0 else None}", line=outer.get("_line"))
    wstm = body_stmts(wparts[3])
    for terminal in (True, False):
        def oracle(c, terminal=terminal):
            if c[0] == 'cmp':
                if cq.same_cond(c, f"{DOWN} < 0", True):
                    return terminal
                if cq.same_cond(c, f"{DOWN} >= 0", True):
                    return not terminal
                if "c_downstream" in show(c) or "ierr" in show(c):
                    return False
            if c[0] in ('and', 'or', 'not'):
                from .c03 import _bool
                return _bool(c, oracle)
            return None
        ce = CEval(oracle)
        ce.summarise_loops = True
        env = {counter: ('sym', 'K0')} if counter else {}
        try:
            ce.run(wstm, env)
        except Undecided as ex:
            rep.undecided("R11.a", file, "c_accumulate", f"walk body ({'terminal' if terminal else 'regular'} step)", str(ex), line=wl.get("_line"))
            continue
        fins = [f_ for f_ in ce.finals if f_[2] != "return"]
        und = [f_ for f_ in fins if f_[1]]
        if und:
            conds = "; ".join(show(c) for c, t in und[0][1])
            if terminal:
                rep.violation("R11.d", file, "c_accumulate", "terminal store depends only on the negative downstream code",
                              f"the terminal branch is additionally guarded by `{conds}`: some terminal cells keep an accumulated value", line=wl.get("_line"))
            else:
                rep.undecided("R11.a", file, "c_accumulate", "regular step", f"additional condition {conds}", line=wl.get("_line"))
            continue
        acc = [e for e in ce.effects if e.arr == "accumulation"]
        if terminal:
            ok = len(acc) == 1 and acc[0].op == "=" and cq.same_expr(acc[0].idx, CUR) and cq.same_expr(acc[0].val, "nodata_to_accumulate") and not acc[0].conds
            brk = any(f_[2] == "BreakStmt" for f_ in fins)
            rep.check(ok and brk, "R11.d", file, "c_accumulate", "terminal cell: accumulation[current cell] = no-data value, walk stops",
                      f"effects {[(e.arr, show(e.idx), e.op, show(e.val)) for e in acc]}", line=wl.get("_line"))
        else:
            ok = len(acc) == 1 and acc[0].op == "+=" and cq.same_expr(acc[0].idx, DOWN)
            rep.check(ok, "R11.a", file, "c_accumulate", "regular step: one addition, at the cell just reached (accumulation[downstream])",
                      f"effects {[(e.arr, show(e.idx), e.op) for e in acc]}", line=wl.get("_line"))
            if ok:
                v = acc[0].val
                rep.check(cq.same_expr(v, f"to_accumulate[{iv}]"), "R11.a", file, "c_accumulate", "summand = contribution of the walk's origin cell (to_accumulate[i])",
                          f"adds {show(v)}: a value read at the visited cell is added once per upstream cell, so non-uniform fields are not summed over the upstream area",
                          line=acc[0].line)
            endf = [f_ for f_ in fins if f_[2] in ("end", "ContinueStmt")]
            okadv = bool(endf) and all(f_[0].get(CUR) is not None and cq.same_expr(f_[0][CUR], DOWN) for f_ in endf)
            rep.check(okadv, "R11.a", file, "c_accumulate", "walk advances: current cell <- downstream cell", "", line=wl.get("_line"))
            if counter:
                inloop = bool(endf) and all(counter in f_[0] and cq.same_expr(f_[0][counter], "K0 + 1") for f_ in endf)
                inhead = wlr is not None and wlr["var"] == counter and wlr["step"] == 1 and bool(endf) and all(cq.same_expr(f_[0].get(counter, ('sym', 'K0')), "K0") for f_ in endf)
                rep.check(inloop or inhead, "R11.d", file, "c_accumulate", "step counter incremented on every regular step", "", line=wl.get("_line"))
    from .c06 import downstream_sentinels
    okd, oks, dline = downstream_sentinels(K, rep.repo)
    rep.check(okd and oks, "R11.d", file, "c_downstream", "cells that drain nowhere get a negative code on every path (-1 default stored unconditionally, -2 for sinks)",
              "the walk recognises terminal cells by a negative downstream code: a missing default leaves a stale cell number", line=dline)
    # R11.c effects
    CE = ceffects.analyze(K)
    e = CE["c_accumulate"]
    for pn in ("flowdir", "to_accumulate", "flowdircode"):
        rep.check(e.get(pn) == {"R"}, "R11.c", file, "c_accumulate", f"`{pn}` is only read by the kernel", f"effects {sorted(e.get(pn, []))}", line=fn["line"])
    # wrapper
    P = pyxread.load_all(rep.repo)
    shims = {cm: {sh.name: sh for sh in d["shims"]} for cm, d in P.items()}
    sites, _ = xlayer.find_sites(rep.repo, shims)
    st = [s for s in sites if s.shim.name == "accumulate"]
    if len(st) != 1:
        raise AnalysisError("gis/grid.py: call site of c_hydrodiy_gis.accumulate not found")
    st = st[0]
    ok, how, _ = xlayer.error_discipline(st)
    rep.check(ok, "R11.c", "gis/grid.py", "accumulate", "kernel error code raises", how, line=st.call.lineno)
    f = st.func
    pargs = pq.call_arguments(f, st.call, list(st.shim.params))
    # the field: the caller's grid (dtype set to float64) or, by default, a unit field cloned from the flow-direction grid
    need = ("to_accumulate", "accumulation", "nodata_to_accumulate", "flowdir")
    okclone = oknod = okunit = all(pn in pargs for pn in need)
    if not okclone:
        rep.undecided("R11.b", "gis/grid.py", "accumulate", "arguments of the kernel call", f"not all of {need} could be bound to the call's arguments (starred / keyword form)", line=st.call.lineno)
        return EXPLANATION
    alts = pq.split_where(('tuple', tuple(pargs[pn] for pn in need))) if okclone else []
    det = ""
    for cnds, tup in alts:
        fld, acc, nod, fd = tup[1]
        if not (pq.call_named(fld, "attr:data") and pq.call_named(acc, "attr:data") and pq.call_named(fd, "attr:data") and fd[2][0] == ('sym', 'flowdir')):
            if pq.call_named(fld, "attr:data") and not pq.call_named(acc, "attr:data") and pq.mentions(acc, lambda x: pq.call_named(x, "attr:data")):
                # the kernel accumulates into a bare array derived from a grid's data, not into the data of the grid that is returned
                okclone = False
                det = f"accumulated buffer := {show(acc)[:100]} (not the data of a cloned grid: the result reaches the returned grid through the clipping data setter)"
                continue
            rep.undecided("R11.b", "gis/grid.py", "accumulate", "arguments of the kernel call", f"buffers are not `.data` of grids: {show(acc)[:100]}", line=st.call.lineno)
            return EXPLANATION
        FIELD = fld[2][0]
        if not _is_deep_copy_of(acc[2][0], FIELD):
            okclone = False
            det = f"accumulation := {show(acc)[:100]} ; field := {show(fld)[:80]}"
        if not pq.same(nod, ('call', 'attr:nodata', (FIELD,))):
            oknod = False
        default = any(t and pq.same(c, "to_accumulate is None") for c, t in cnds) or any((not t) and pq.same(c, "to_accumulate is not None") for c, t in cnds)
        if default and not pq.mentions(FIELD, lambda e: pq.call_named(e, "filled") and pq.same(e[2][1], "1")):
            okunit = False
    rep.check(okclone and bool(alts), "R11.b", "gis/grid.py", "accumulate", "accumulation = an independent deep copy of the (final) field to accumulate, passed as the accumulated buffer",
              det, line=st.call.lineno)
    rep.check(oknod and bool(alts), "R11.d", "gis/grid.py", "accumulate", "terminal cells flagged with the field's no-data value", "", line=st.call.lineno)
    cap = pargs.get("max_accumulated_cells")
    okc = cap is not None and any(pq.same(v, "flowdir.nrows*flowdir.ncols") for cnds, v in pq.split_where(cap)
                                  if any(t and pq.same(c, "max_accumulated_cells == -1") for c, t in cnds) or
                                  any((not t) and pq.same(c, "max_accumulated_cells != -1") for c, t in cnds))
    rep.check(okc, "R11.d", "gis/grid.py", "accumulate", "default walk cap = number of cells (nrows*ncols)", show(cap)[:120] if cap else "", line=f.lineno)
    rep.check(okunit and bool(alts), "R11.b", "gis/grid.py", "accumulate", "default field is the unit field (cell counts)", "", line=f.lineno)
    return EXPLANATION


def _is_deep_copy_of(e, field):
    """e is field.clone(..) / copy.deepcopy(field) / field.clone().astype-like conversions of it"""
    for _c, v in pq.split_where(e):
        ok = False
        if pq.call_named(v, ".clone") and pq.same(v[2][0], field):
            ok = True
        if pq.call_named(v, ".deepcopy") and len(v[2]) == 2 and pq.same(v[2][1], field):
            ok = True
        if pq.call_named(v, "f:deepcopy") and pq.same(v[2][0], field):
            ok = True
        if not ok:
            return False
    return True
