"""C11 -- flow accumulation equals the sum over everything upstream (structural clauses)."""
import ast

from ..core import AnalysisError
from ..cfront import strip, text
from .. import ckern, ceffects, xlayer, pyxread
from ..ceval import CEval, find_all, loop_parts, body_stmts, loop_var, stores_to
from ..formula import Canon, Ratio, Undecided, show, num
from ..pyfront import Mod, dotted, const_value

EXPLANATION = (
    "The downstream walk of c_accumulate is evaluated symbolically: the value added at every visited cell must be "
    "the contribution of the walk's ORIGIN cell (indexed by the outer loop variable, hence invariant along the walk), "
    "added to the cell the walk has just moved to; the walk advances by idxup <- idxdown, counts its steps against the "
    "cap, and on a terminal cell (negative downstream code) stores the no-data value at the current cell and stops, "
    "under no other condition.  The wrapper initialises the accumulation as an independent clone of the field (each "
    "cell counts itself), sizes the default cap as nrows*ncols, raises on the error code, and the kernel only reads "
    "the flow directions and the field (effect summary).  Together with C06's downstream rules these are the "
    "structural conditions for 'accumulated value = sum over the cell and everything draining through it'; the "
    "totals on a given grid are not computed.")


def run(rep):
    rep.rule("R11.a", "the summand of the walk is the origin cell's contribution, added at the cell just reached; walk advances idxup <- idxdown")
    rep.rule("R11.b", "accumulation starts as an independent clone of the field to accumulate (each cell counts itself)")
    rep.rule("R11.c", "the kernel only reads flow directions and the field; the wrapper raises on the error code")
    rep.rule("R11.d", "terminal cells get the no-data value at the walk's current cell, exactly when the downstream code is negative; walk length capped by a counter incremented on every step; default cap nrows*ncols")
    K = ckern.analyze(rep.repo)
    fn = K["fns"].get("c_accumulate")
    if fn is None:
        raise AnalysisError("gis/c_grid.c: c_accumulate not found")
    file = fn["file"]
    top = [s for s in fn["body"].get("inner", []) if s.get("kind")]
    outer = [s for s in top if s.get("kind") == "ForStmt"]
    if len(outer) != 1:
        raise AnalysisError(f"{file}: c_accumulate cell loop not found")
    outer = outer[0]
    iv = loop_var(outer)
    ostm = body_stmts(loop_parts(outer)[3])
    wl = [s for s in ostm if s.get("kind") == "WhileStmt"]
    if len(wl) != 1:
        raise AnalysisError(f"{file}: c_accumulate walk loop not found")
    wl = wl[0]
    rep.unit(f"{file}: c_accumulate (cell loop, downstream walk); gis/grid.py: accumulate")
    cond = text(loop_parts(outer)[1]).replace(" ", "")
    ntot = [s for s in top if s.get("kind") == "BinaryOperator" and text(s["inner"][0]) == "ntot"]
    rep.check(cond == f"{iv}<ntot" and ntot and text(ntot[0]["inner"][1]).replace(" ", "") in ("nrows*ncols", "ncols*nrows"), "R11.a", file, "c_accumulate",
              "every cell of the grid starts a walk", f"loop `{cond}`", line=outer.get("_line"))
    # state before the walk
    pre = ostm[:ostm.index(wl)]
    pce = CEval(lambda c: None)
    penv = {}
    try:
        pce._walk([s for s in pre if s.get("kind") != "IfStmt"], penv, [])
    except Undecided as ex:
        raise AnalysisError(f"{file}: c_accumulate walk prologue: {ex}")
    start_ok = [e for e in pce.effects if e.arr == "idxup" and e.val == ('sym', iv)]
    rep.check(len(start_ok) == 1, "R11.a", file, "c_accumulate", "walk starts at the origin cell: idxup[0] = i", "", line=outer.get("_line"))
    cnt0 = penv.get("accumulated_cells")
    rep.check(cnt0 == num(0), "R11.d", file, "c_accumulate", "step counter reset for every walk", f"accumulated_cells = {show(cnt0) if cnt0 else None}", line=outer.get("_line"))
    wcond = text(loop_parts(wl)[1]).replace(" ", "")
    rep.check(wcond in ("accumulated_cells<=max_accumulated_cells", "accumulated_cells<max_accumulated_cells", "max_accumulated_cells>=accumulated_cells"),
              "R11.d", file, "c_accumulate", "walk length capped by the step counter", f"while({wcond})", line=wl.get("_line"))
    wstm = body_stmts(loop_parts(wl)[3])
    # two cases: terminal (idxdown < 0) and regular
    for terminal in (True, False):
        def oracle(c, terminal=terminal):
            if c[0] == 'cmp':
                a, b, o = show(c[2]), show(c[3]), c[1]
                if a == "DOWN" and b == "0" and o == "<":
                    return terminal
                if a == "DOWN" and b == "0" and o == ">=":
                    return not terminal
                if a == "IERR":
                    return False
            return None
        arr = {"idxdown": lambda idx: ('sym', 'DOWN'), "idxup": lambda idx: ('sym', 'UP')}
        ce = CEval(oracle, arr)
        env = {"accumulated_cells": ('sym', 'K0'), iv: ('sym', iv), "ierr": ('sym', 'IERR')}
        # the call of c_downstream is an effect; its result is modelled by the symbols DOWN / IERR
        stm2 = []
        for s in wstm:
            if s.get("kind") == "BinaryOperator" and s.get("opcode") == "=" and text(s["inner"][0]) == "ierr":
                continue
            stm2.append(s)
        try:
            ce._walk(stm2, env, [])
        except Undecided as ex:
            rep.undecided("R11.a", file, "c_accumulate", f"walk body ({'terminal' if terminal else 'regular'} step)", str(ex), line=wl.get("_line"))
            continue
        und = [r for r in ce.returns if r[1]]
        if und:
            conds = "; ".join(show(c) for c, t in und[0][1])
            if terminal:
                rep.violation("R11.d", file, "c_accumulate", "terminal store depends only on the negative downstream code",
                              f"the terminal branch is additionally guarded by `{conds}`: some terminal cells keep an accumulated value", line=wl.get("_line"))
            else:
                rep.undecided("R11.a", file, "c_accumulate", "regular step", f"additional condition {conds}", line=wl.get("_line"))
            continue
        acc = [e for e in ce.effects if e.arr == "accumulation"]
        if terminal:
            ok = len(acc) == 1 and acc[0].op == "=" and acc[0].idx == ('sym', 'UP') and acc[0].val == ('sym', 'nodata_to_accumulate') and not acc[0].conds
            brk = any(r[0] == "BreakStmt" for r in ce.returns)
            rep.check(ok and brk, "R11.d", file, "c_accumulate", "terminal cell: accumulation[current cell] = no-data value, walk stops",
                      f"effects {[(e.arr, show(e.idx), e.op, show(e.val)) for e in acc]}", line=wl.get("_line"))
        else:
            ok = len(acc) == 1 and acc[0].op == "+=" and acc[0].idx == ('sym', 'DOWN')
            rep.check(ok, "R11.a", file, "c_accumulate", "regular step: one addition, at the cell just reached (accumulation[idxdown])",
                      f"effects {[(e.arr, show(e.idx), e.op) for e in acc]}", line=wl.get("_line"))
            if ok:
                v = acc[0].val
                origin = ('call', 'A:to_accumulate', (('sym', iv),))
                rep.check(v == origin, "R11.a", file, "c_accumulate", "summand = contribution of the walk's origin cell (to_accumulate[i])",
                          f"adds {show(v)}: a value read at the visited cell is added once per upstream cell, so non-uniform fields are not summed over the upstream area",
                          line=acc[0].line)
            ups = [e for e in ce.effects if e.arr == "idxup" and e.op == "="]
            rep.check(len(ups) == 1 and ups[0].val == ('sym', 'DOWN'), "R11.a", file, "c_accumulate", "walk advances: idxup[0] = idxdown[0]", "", line=wl.get("_line"))
            cn = Canon()
            rep.check(cn.ratio(env["accumulated_cells"]) == cn.ratio(('add', ('sym', 'K0'), num(1))), "R11.d", file, "c_accumulate",
                      "step counter incremented on every regular step", show(env["accumulated_cells"]), line=wl.get("_line"))
    dcall = find_all(wl, lambda n: n.get("kind") == "CallExpr" and text(n["inner"][0]) == "c_downstream")
    okd = len(dcall) == 1 and [text(a).replace(" ", "") for a in dcall[0]["inner"][1:]] == ["nrows", "ncols", "flowdircode", "flowdir", "1", "idxup", "idxdown"]
    rep.check(okd, "R11.a", file, "c_accumulate", "downstream cell of the current cell from c_downstream(.., 1, idxup, idxdown)", "", line=wl.get("_line"))
    from .c06 import downstream_sentinels
    okd, oks, dline = downstream_sentinels(K)
    rep.check(okd and oks, "R11.d", file, "c_downstream", "cells that drain nowhere get a negative code on every path (-1 default stored unconditionally, -2 for sinks)",
              "the walk recognises terminal cells by a negative downstream code: a missing default leaves a stale cell number", line=dline)
    # R11.c effects
    CE = ceffects.analyze(K)
    e = CE["c_accumulate"]
    for pn in ("flowdir", "to_accumulate", "flowdircode"):
        rep.check(e.get(pn) == {"R"}, "R11.c", file, "c_accumulate", f"`{pn}` is only read by the kernel", f"effects {sorted(e.get(pn, []))}", line=fn["line"])
    # wrapper
    P = pyxread.load_all(rep.repo)
    shims = {cm: {sh.name: sh for sh in d["shims"]} for cm, d in P.items()}
    sites, _ = xlayer.find_sites(rep.repo, shims)
    st = [s for s in sites if s.shim.name == "accumulate"]
    if len(st) != 1:
        raise AnalysisError("gis/grid.py: call site of c_hydrodiy_gis.accumulate not found")
    st = st[0]
    ok, how, _ = xlayer.error_discipline(st)
    rep.check(ok, "R11.c", "gis/grid.py", "accumulate", "kernel error code raises", how, line=st.call.lineno)
    f = st.func
    acc_def = [n for n in ast.walk(f) if isinstance(n, ast.Assign) and isinstance(n.targets[0], ast.Name) and n.targets[0].id == "accumulation"]
    okb = len(acc_def) == 1 and ast.unparse(acc_def[0].value).replace(" ", "") in ("to_accumulate.clone()", "to_accumulate.clone(np.float64)")
    a = {pn: ast.unparse(v[0]).replace(" ", "") for pn, v in st.args.items()}
    okb = okb and a.get("accumulation") == "accumulation.data" and a.get("to_accumulate") == "to_accumulate.data" and a.get("flowdir") == "flowdir.data"
    # the clone must come after the last conversion of to_accumulate
    if okb:
        last_touch = max([n.lineno for n in ast.walk(f) if isinstance(n, (ast.Assign, ast.Expr)) and "to_accumulate" in ast.unparse(n) and n is not acc_def[0]
                          and n.lineno < st.call.lineno] or [0])
        okb = acc_def[0].lineno > last_touch
    rep.check(okb, "R11.b", "gis/grid.py", "accumulate", "accumulation = to_accumulate.clone() (after the field is final), passed as the accumulated buffer",
              str(a), line=st.call.lineno)
    rep.check(a.get("nodata_to_accumulate") == "to_accumulate.nodata", "R11.d", "gis/grid.py", "accumulate", "terminal cells flagged with the field's no-data value",
              a.get("nodata_to_accumulate"), line=st.call.lineno)
    cap = [n for n in ast.walk(f) if isinstance(n, ast.Assign) and isinstance(n.targets[0], ast.Name) and n.targets[0].id == "max_accumulated_cells"
           and isinstance(n.value, ast.BinOp)]
    okc = bool(cap) and ast.unparse(cap[0].value).replace(" ", "") in ("flowdir.nrows*flowdir.ncols", "flowdir.ncols*flowdir.nrows")
    rep.check(okc, "R11.d", "gis/grid.py", "accumulate", "default walk cap = number of cells (nrows*ncols)", ast.unparse(cap[0].value) if cap else "", line=f.lineno)
    unit = [n for n in ast.walk(f) if isinstance(n, ast.Call) and isinstance(n.func, ast.Attribute) and n.func.attr == "fill" and dotted(n.func.value) == "to_accumulate"]
    rep.check(bool(unit) and const_value(unit[0].args[0]) == 1, "R11.b", "gis/grid.py", "accumulate", "default field is the unit field (cell counts)", "", line=f.lineno)
    return EXPLANATION
