"""C13 -- grids and catchments survive save/load, dictionary export, cloning and clipping (writer/reader tables)."""
import ast
import re

from ..core import AnalysisError
from ..pyfront import Mod, dotted, const_value, walk_no_nested

EXPLANATION = (
    "Writer/reader agreement decided from the source of gis/grid.py: every constructor argument that "
    "Grid.from_stream rebuilds has its header key written by Grid.save; the reader's parsing rules (type "
    "selection by key prefix, pixel-type regular expression, NBITS arithmetic, byte-order letters) are evaluated "
    "on the writer's finite vocabulary and must give back the dtype; header numbers are written with a "
    "round-trip representation; raw data are written from and read into the same row-major buffer with the "
    "header's dtype and byte order; to_dict/from_dict of Grid and Catchment agree on keys and bind each key to "
    "the same-named attribute, every attribute restored is one the constructor declares; clone is a deep copy "
    "and dtype conversion never shares the buffer; clip records the bounds it sliced with.  All of this holds "
    "for every grid, not for sampled ones; numerical equality through numpy's clip/astype is not decided.")


def str_consts(node):
    return [n.value for n in ast.walk(node) if isinstance(n, ast.Constant) and isinstance(n.value, str)]


def eval_key_test(test, key, var):
    """evaluate a parser guard (`var in [..]`, `var.startswith('x')`, and/or/not) for a concrete key string"""
    if isinstance(test, ast.BoolOp):
        vals = [eval_key_test(v, key, var) for v in test.values]
        if any(v is None for v in vals):
            return None
        return all(vals) if isinstance(test.op, ast.And) else any(vals)
    if isinstance(test, ast.UnaryOp) and isinstance(test.op, ast.Not):
        v = eval_key_test(test.operand, key, var)
        return None if v is None else not v
    if isinstance(test, ast.Compare) and len(test.ops) == 1 and isinstance(test.left, ast.Name) and test.left.id == var:
        c = test.comparators[0]
        if isinstance(test.ops[0], ast.In) and isinstance(c, (ast.List, ast.Tuple, ast.Set)):
            return key in [const_value(x) for x in c.elts]
        if isinstance(test.ops[0], ast.Eq) and isinstance(c, ast.Constant):
            return key == c.value
    if isinstance(test, ast.Call) and isinstance(test.func, ast.Attribute) and isinstance(test.func.value, ast.Name) \
            and test.func.value.id == var and test.func.attr in ("startswith", "endswith") and test.args and \
            isinstance(test.args[0], ast.Constant):
        return getattr(key, test.func.attr)(test.args[0].value)
    return None


def run(rep):
    rel = "gis/grid.py"
    mod = Mod(rep.repo, rel)
    rep.rule("R13.a", "header: every rebuilt constructor argument is written; reader rules applied to the writer's vocabulary give back the dtype; numbers written in round-trip form")
    rep.rule("R13.b", "to_dict/from_dict key tables agree and bind same-named attributes; every restored attribute is declared by __init__")
    rep.rule("R13.c", "clone is a deep copy; dtype conversion copies; clip records the row/column bounds it sliced with")
    rep.rule("R13.d", "raw data written from _data and read with the header's dtype and byte order, size checked, row-major reshape")
    rep.assume("str() of a numpy float64 / int64 is the shortest round-trip representation (numpy >= 1.14)")
    rep.assume("numpy dtype codes: 'i' signed, 'u' unsigned, 'f' float, '<' little endian, '>' big endian")
    save = mod.func("Grid.save")
    fs = mod.func("Grid.from_stream")
    load = mod.func("Grid.load")
    ginit = mod.func("Grid.__init__")
    rep.unit(f"{rel}: Grid.save / from_stream / load / to_dict / from_dict / clone / clip, Catchment.to_dict / from_dict")

    # ---------------- writer keys -------------------------------------------------------------------------------
    written = {}        # lower-case key -> (value expr text, format text, line)
    for n in ast.walk(save):
        if isinstance(n, ast.Call) and isinstance(n.func, ast.Attribute) and n.func.attr == "write" and n.args:
            a = n.args[0]
            if isinstance(a, ast.Call) and isinstance(a.func, ast.Attribute) and a.func.attr == "format" and \
                    isinstance(a.func.value, ast.Constant) and len(a.args) == 2:
                fmt = a.func.value.value
                k, v = a.args
                keys = []
                if isinstance(k, ast.Constant):
                    keys = [k.value]
                elif isinstance(k, ast.Call) and isinstance(k.func, ast.Attribute) and k.func.attr == "upper":
                    # attname.upper() inside `for attname in [..]`
                    loop = n
                    while loop is not None and not isinstance(loop, ast.For):
                        loop = getattr(loop, "_parent", None)
                    if loop is not None and isinstance(loop.iter, (ast.List, ast.Tuple)):
                        src = k.func.value
                        items = [const_value(x) for x in loop.iter.elts]
                        if isinstance(src, ast.Name) and isinstance(loop.target, ast.Name) and src.id == loop.target.id:
                            keys = items
                        elif isinstance(src, ast.Name):
                            # pattr = "parentgrid_" + attr
                            for st in loop.body:
                                if isinstance(st, ast.Assign) and isinstance(st.targets[0], ast.Name) and st.targets[0].id == src.id \
                                        and isinstance(st.value, ast.BinOp) and isinstance(st.value.left, ast.Constant):
                                    keys = [st.value.left.value + x for x in items]
                for kk in keys:
                    written[str(kk).lower()] = (ast.unparse(v), fmt, n.lineno)
    rep.floor("header keys written by Grid.save", len(written), 9)

    # ---------------- reader: constructor keys and their sources ---------------------------------------------------
    ctor_keys = None
    for n in ast.walk(fs):
        if isinstance(n, ast.Assign) and isinstance(n.targets[0], ast.Name) and n.targets[0].id == "keys" and isinstance(n.value, ast.List):
            ctor_keys = [const_value(x) for x in n.value.elts]
    if not ctor_keys:
        raise AnalysisError(f"{rel}: Grid.from_stream: list of constructor keys not found")
    init_params = [a.arg for a in ginit.args.args[1:]]
    for k in ctor_keys:
        rep.check(k in init_params, "R13.a", rel, "Grid.from_stream", f"constructor key '{k}'", "not a parameter of Grid.__init__", line=fs.lineno)
    # derived keys:  config["dtype"] <- byteorder, pixeltype, nbits ; config["nodata"] <- nodata | nodata_value
    needs = {k: {k} for k in ctor_keys}
    needs["dtype"] = {"byteorder", "pixeltype", "nbits"}
    alt = {"nodata": {"nodata", "nodata_value"}, "cellsize": {"cellsize", "xdim"}, "xllcorner": {"xllcorner", "ulxmap"},
           "yllcorner": {"yllcorner", "ulymap"}}
    for k in ctor_keys:
        if k in alt:
            ok = bool(alt[k] & set(written))
            det = f"none of {sorted(alt[k])} is written by Grid.save: a saved grid is reloaded with the parser's default"
        else:
            miss = needs[k] - set(written)
            ok = not miss
            det = f"header key(s) {sorted(miss)} not written by Grid.save"
        rep.check(ok, "R13.a", rel, "Grid.save", f"header provides constructor argument '{k}'", det, line=save.lineno)
    # value bound to the right attribute
    expect_attr = {"nbits": None, "pixeltype": None, "byteorder": None, "name": "self.name", "comment": None, "nodata": "self.nodata"}
    for k, (vtxt, fmt, line) in sorted(written.items()):
        if k in ("nrows", "ncols", "xllcorner", "yllcorner", "cellsize"):
            okv = vtxt in ("attval",) or vtxt == f"self.{k}"
        elif k in expect_attr and expect_attr[k]:
            okv = vtxt in (expect_attr[k], expect_attr[k].replace("self.", "self._"))
        else:
            okv = True
        rep.check(okv, "R13.a", rel, "Grid.save", f"header key '{k.upper()}' holds the same-named attribute", f"holds `{vtxt}`", line=line)
        # round-trip representation: no precision / width in the value placeholder
        spec = re.findall(r"\{1(?::([^}]*))?\}", fmt)
        okf = bool(spec) and all(s == "" for s in spec)
        rep.check(okf, "R13.a", rel, "Grid.save", f"value of '{k.upper()}' written in round-trip form",
                  f"format `{fmt.strip()}` rounds the value: the reloaded georeferencing differs", line=line)
    # getattr(self, attname) for the looped attributes
    ga = [n for n in ast.walk(save) if isinstance(n, ast.Assign) and isinstance(n.targets[0], ast.Name) and n.targets[0].id == "attval"]
    if ga:
        v = ga[0].value
        rep.check(isinstance(v, ast.Call) and dotted(v.func) == "getattr" and ast.unparse(v.args[0]) == "self" and
                  isinstance(v.args[1], ast.Name), "R13.a", rel, "Grid.save", "looped header values are getattr(self, <key>)", ast.unparse(v), line=ga[0].lineno)

    # ---------------- reader: type selection evaluated on the writer's keys ---------------------------------------------
    chain = None
    for n in ast.walk(fs):
        if isinstance(n, ast.If) and isinstance(n.test, ast.Compare) and isinstance(n.test.left, ast.Name) and \
                isinstance(n.test.ops[0], ast.In) and "pixeltype" in str_consts(n.test):
            chain = n
    if chain is None:
        raise AnalysisError(f"{rel}: Grid.from_stream: parser type-selection chain not found")
    var = chain.test.left.id

    def parse_kind(key):
        node = chain
        while True:
            t = eval_key_test(node.test, key, var)
            if t is None:
                return None
            if t:
                body = node.body
                break
            if len(node.orelse) == 1 and isinstance(node.orelse[0], ast.If):
                node = node.orelse[0]
                continue
            body = node.orelse
            break
        txt = " ".join(ast.unparse(s) for s in body)
        if "int(" in txt:
            return "int"
        if "float(" in txt:
            return "float"
        return "str"
    want_kind = {"nrows": "int", "ncols": "int", "nbits": "int", "xllcorner": "float", "yllcorner": "float", "cellsize": "float",
                 "nodata": "float", "pixeltype": "str", "byteorder": "str", "name": "str", "comment": "str",
                 "parentgrid_nrows": "int", "parentgrid_ncols": "int"}
    for k in sorted(written):
        got = parse_kind(k)
        if k in want_kind:
            if got is None:
                rep.undecided("R13.a", rel, "Grid.from_stream", f"parsing of key '{k}'", "guard outside vocabulary", line=chain.lineno)
            else:
                rep.check(got == want_kind[k], "R13.a", rel, "Grid.from_stream", f"key '{k}' parsed as {want_kind[k]}",
                          f"parsed as {got}", line=chain.lineno)

    # ---------------- dtype vocabulary --------------------------------------------------------------------------------
    # writer: numpy type name -> PIXELTYPE word
    wvocab = {}
    for n in ast.walk(save):
        if isinstance(n, ast.If) and isinstance(n.test, ast.Compare) and isinstance(n.test.left, ast.Name) and \
                isinstance(n.test.ops[0], ast.Eq) and isinstance(n.test.comparators[0], ast.Constant):
            for st in n.body:
                if isinstance(st, ast.Assign) and isinstance(st.targets[0], ast.Name) and st.targets[0].id == "pixeltype" \
                        and isinstance(st.value, ast.Constant):
                    wvocab[n.test.comparators[0].value] = st.value.value
    rep.floor("pixel type words written", len(wvocab), 3)
    # reader regular expression
    rx = None
    for n in ast.walk(fs):
        if isinstance(n, ast.Call) and dotted(n.func) == "re.sub" and len(n.args) == 3 and "pixeltype" in ast.unparse(n.args[2]):
            if isinstance(n.args[0], ast.Constant) and isinstance(n.args[1], ast.Constant):
                rx = (n.args[0].value, n.args[1].value, n.lineno)
    if rx is None:
        raise AnalysisError(f"{rel}: Grid.from_stream: pixel type regular expression not found")
    kind_code = {"int": "i", "uint": "u", "float": "f"}
    for tname, word in sorted(wvocab.items()):
        got = re.sub(rx[0], rx[1], word.lower())
        rep.check(got == kind_code.get(tname), "R13.a", rel, "Grid.from_stream", f"pixel type '{word.upper()}' ({tname}) decoded",
                  f"re.sub({rx[0]!r}, {rx[1]!r}, {word.lower()!r}) = {got!r}, numpy kind code for {tname} is {kind_code.get(tname)!r}", line=rx[2])
    # PIXELTYPE value is written upper-cased and lower-cased by the reader
    ptw = written.get("pixeltype", ("", "", 0))[0]
    rep.check("pixeltype" in ptw, "R13.a", rel, "Grid.save", "PIXELTYPE line holds the pixel type word", ptw, line=save.lineno)
    # nbits: writer itemsize*8, reader //8
    wn = [n for n in ast.walk(save) if isinstance(n, ast.Assign) and isinstance(n.targets[0], ast.Name) and n.targets[0].id == "nbits"]
    rn = [n for n in ast.walk(fs) if isinstance(n, ast.Assign) and isinstance(n.targets[0], ast.Name) and n.targets[0].id == "nbits"]
    okw = bool(wn) and ast.unparse(wn[0].value).replace(" ", "") in ("ddtype.itemsize*8", "8*ddtype.itemsize")
    okr = bool(rn) and ast.unparse(rn[0].value).replace(" ", "") in ("config['nbits']//8", "int(config['nbits']/8)", "config['nbits']//8")
    rep.check(okw, "R13.a", rel, "Grid.save", "NBITS = itemsize * 8", ast.unparse(wn[0].value) if wn else "not found", line=save.lineno)
    rep.check(okr, "R13.a", rel, "Grid.from_stream", "itemsize = NBITS // 8", ast.unparse(rn[0].value) if rn else "not found", line=fs.lineno)
    # byte order letters
    wb = {}
    for n in ast.walk(save):
        if isinstance(n, ast.If) and "byteorder" in ast.unparse(n.test) and isinstance(n.test, ast.Compare) and \
                isinstance(n.test.comparators[0], ast.Constant):
            sym = n.test.comparators[0].value
            b1 = [st.value.value for st in n.body if isinstance(st, ast.Assign) and isinstance(st.value, ast.Constant)]
            b2 = [st.value.value for st in n.orelse if isinstance(st, ast.Assign) and isinstance(st.value, ast.Constant)]
            if b1 and b2:
                wb = {sym: b1[0], ("<" if sym == ">" else ">"): b2[0]}
    rb = {}
    for n in ast.walk(fs):
        if isinstance(n, ast.If) and isinstance(n.test, ast.Compare) and "byteorder" in ast.unparse(n.test.left) and \
                isinstance(n.test.comparators[0], ast.Constant):
            for st in n.body:
                if isinstance(st, ast.Assign) and isinstance(st.value, ast.Constant) and isinstance(st.targets[0], ast.Name) and st.targets[0].id == "byteorder":
                    rb[n.test.comparators[0].value] = st.value.value
    for sym, letter in sorted(wb.items()):
        got = rb.get(letter.lower())
        rep.check(got == sym, "R13.a", rel, "Grid.from_stream", f"byte order letter '{letter}' decoded as '{sym}'",
                  f"reader maps '{letter.lower()}' to {got!r}", line=fs.lineno)
    rep.floor("byte order letters", len(wb), 2)

    # ---------------- R13.d raw data ---------------------------------------------------------------------------------------
    tof = [n for n in ast.walk(save) if isinstance(n, ast.Call) and isinstance(n.func, ast.Attribute) and n.func.attr == "tofile"]
    rep.check(len(tof) == 1 and dotted(tof[0].func.value) in ("self._data", "self.data"), "R13.d", rel, "Grid.save",
              "raw data = self._data.tofile(filename)", ast.unparse(tof[0]) if tof else "no tofile call", line=save.lineno)
    ff = [n for n in ast.walk(load) if isinstance(n, ast.Call) and dotted(n.func) == "np.fromfile"]
    okff = len(ff) == 1 and len(ff[0].args) >= 2
    rep.check(okff, "R13.d", rel, "Grid.load", "raw data read with np.fromfile(stream, <dtype>)", "", line=load.lineno)
    # the byte order decoded from the header must reach the read: a numpy scalar *type* has no byte order
    bo_used = False
    if okff:
        dt_txt = ast.unparse(ff[0].args[1])
        bo_used = "byteorder" in dt_txt or "newbyteorder" in ast.unparse(load)
    type_drop = [n for n in ast.walk(fs) if isinstance(n, ast.Attribute) and n.attr == "type" and "byteorder" in ast.unparse(n.value)]
    passes_bo = any(isinstance(n, ast.Call) and isinstance(n.func, ast.Attribute) and n.func.attr == "load" and
                    "byteorder" in ast.unparse(n) for n in ast.walk(fs))
    rep.check(bo_used and passes_bo or not type_drop, "R13.d", rel, "Grid.from_stream",
              "decoded byte order reaches the raw read",
              "the dtype built from BYTEORDER is reduced with `.type` (a scalar type carries no byte order) and load() reads with the "
              "native order: big-endian rasters are mis-read", line=(type_drop[0].lineno if type_drop else fs.lineno))
    from .. import pq
    from ..formula import show as _show
    lpaths = pq.PEval().run(load)
    NV = ["self.nrows*self.ncols"]
    def size_test(p_):
        for c, t in pq.flat_conds(p_.conds):
            if c[0] != 'cmp' or c[1] not in ('!=', '=='):
                continue
            sides = [c[2], c[3]]
            cnt = [x for x in sides if (pq.call_named(x, "shape") and pq.same(x[2][1], "0")) or pq.call_named(x, "attr:size")]
            tot = [x for x in sides if pq.same(x, NV[0])]
            if len(cnt) == 1 and len(tot) == 1 and pq.mentions(cnt[0], lambda e: pq.call_named(e, "fromfile")):
                return (c[1] == '!=') == t
        return None
    sz = [p_ for p_ in lpaths if p_.how == "raise" and size_test(p_) is True]
    stored = [e for p_ in lpaths if p_.how in ("end", "return") for e in p_.effects if e.kind == 'attr' and e.target == "self._data"]
    unchecked = [p_ for p_ in lpaths if p_.how in ("end", "return") and size_test(p_) is not False]
    rep.check(bool(sz) and bool(stored) and not unchecked, "R13.d", rel, "Grid.load", "number of values read is checked against nrows*ncols", "", line=load.lineno)
    okrs = bool(stored) and all(pq.mentions(e.val, lambda x: pq.call_named(x, "reshape") and pq.same(x[2][1], "(self.nrows, self.ncols)") and
                                            pq.mentions(x[2][0], lambda y: pq.call_named(y, "fromfile"))) for e in stored)
    rs = stored
    rep.check(okrs, "R13.d", rel, "Grid.load", "row-major reshape to (nrows, ncols)", _show(rs[0].val)[:120] if rs else "", line=load.lineno)
    # cell values never pass through floating point: np.clip with an infinite bound converts integer rasters to float64
    setter = mod.funcs.get("Grid.data.setter")
    if setter is None:
        raise AnalysisError(f"{rel}: Grid.data setter not found")
    for fdef, nm in ((load, "Grid.load"), (setter, "Grid.data (setter)")):
        paths_ = [p_ for p_ in pq.PEval().run(fdef) if p_.how in ("end", "return")]
        sts = [(p_, e) for p_ in paths_ for e in p_.effects if e.kind == 'attr' and e.target == "self._data"]
        okfl, det = bool(sts), "no store to self._data"
        for p_, e in sts:
            for wc, alt in pq.split_where(e.val):
                conds = pq.flat_conds(list(p_.conds) + wc)
                for cl in pq.find(alt, lambda x: pq.call_named(x, "clip") and len(x[2]) == 3):
                    for b_ in cl[2][1:]:
                        if b_ == ('sym', 'None'):
                            continue
                        finite = pq.cond_truth(conds, ('call', 'isinf', (b_,))) is False or pq.cond_truth(conds, ('call', 'isfinite', (b_,))) is True
                        if not finite:
                            okfl = False
                            det = f"np.clip(.., {_show(cl[2][1])[:40]}, {_show(cl[2][2])[:40]}) with a bound that may be infinite"
        rep.check(okfl, "R13.d", rel, nm, "cell values are clipped against finite bounds only (np.clip with an infinite bound turns an integer raster into float64: values beyond 2^53 change)",
                  det if not okfl else "", line=fdef.lineno)

    # ---------------- R13.b dict tables -------------------------------------------------------------------------------------------
    for cls, init_name in (("Grid", "Grid.__init__"), ("Catchment", "Catchment.__init__")):
        td, fd = mod.func(f"{cls}.to_dict"), mod.func(f"{cls}.from_dict")
        init = mod.func(init_name)
        declared = {t.attr for n in ast.walk(init) if isinstance(n, ast.Assign) for t in n.targets
                    if isinstance(t, ast.Attribute) and dotted(t.value) == "self"}
        for pn, pf in mod.funcs.items():
            if pn.startswith(cls + ".") and pn.endswith(".setter"):
                declared.add(pn.split(".")[1])
        wkeys = {}
        for dn in [n for n in ast.walk(td) if isinstance(n, ast.Dict)]:
            for k, v in zip(dn.keys, dn.values):
                if k is not None and isinstance(const_value(k), str):
                    wkeys[const_value(k)] = v
        rkeys = set()
        for n in ast.walk(fd):
            if isinstance(n, ast.Subscript) and isinstance(n.slice, ast.Constant) and isinstance(n.slice.value, str) and \
                    isinstance(n.value, ast.Name) and n.value.id == "dic":
                rkeys.add(n.slice.value)
            if isinstance(n, ast.For) and isinstance(n.iter, (ast.List, ast.Tuple)) and any(
                    isinstance(x, ast.Compare) and isinstance(x.ops[0], ast.In) and ast.unparse(x.comparators[0]) == "dic" for x in ast.walk(n)):
                rkeys |= {const_value(x) for x in n.iter.elts}
            if isinstance(n, ast.comprehension) and any(isinstance(x, ast.Compare) and isinstance(x.ops[0], ast.In) and ast.unparse(x.comparators[0]) == "dic"
                                                        for i_ in n.ifs for x in ast.walk(i_)):
                it = n.iter
                if isinstance(it, ast.Name):
                    # a named constant list defined in the function
                    for m_ in ast.walk(fd):
                        if isinstance(m_, ast.Assign) and isinstance(m_.targets[0], ast.Name) and m_.targets[0].id == it.id and isinstance(m_.value, (ast.List, ast.Tuple)):
                            it = m_.value
                if isinstance(it, (ast.List, ast.Tuple)):
                    rkeys |= {const_value(x) for x in it.elts}
        rep.check(rkeys <= set(wkeys), "R13.b", rel, f"{cls}.from_dict", "keys read are written by to_dict",
                  f"read but not written: {sorted(rkeys - set(wkeys))}", line=fd.lineno)
        rep.check(set(wkeys) <= rkeys, "R13.b", rel, f"{cls}.to_dict", "keys written are restored by from_dict",
                  f"written but not read: {sorted(set(wkeys) - rkeys)}", line=td.lineno)
        names = {a.lstrip("_") for a in declared}
        # writer: key <- same-named attribute
        for k, v in sorted(wkeys.items()):
            src = attr_name(v)
            okk = src is None or src not in names or src == k
            rep.check(okk, "R13.b", rel, f"{cls}.to_dict", f"key '{k}' holds the same-named attribute",
                      f"holds `{ast.unparse(v)}`", line=td.lineno)
        # reader: attribute <- same-named key, attribute declared
        for n in ast.walk(fd):
            if isinstance(n, ast.Assign) and isinstance(n.targets[0], ast.Attribute) and isinstance(n.targets[0].value, ast.Name) \
                    and n.targets[0].value.id not in ("self", "cls"):
                attr = n.targets[0].attr
                rep.check(attr in declared, "R13.b", rel, f"{cls}.from_dict", f"restored attribute `{attr}` is declared by __init__",
                          f"`{attr}` is not an attribute of {cls}: the value is stored where nothing reads it", line=n.lineno)
                key = key_of(n.value, fd)
                if key is not None:
                    okk = key not in names or key == attr.lstrip("_")
                    rep.check(okk, "R13.b", rel, f"{cls}.from_dict", f"attribute `{attr}` restored from key '{attr.lstrip('_')}'",
                              f"restored from key '{key}'", line=n.lineno)
    # ---------------- R13.c clone / dtype / clip ---------------------------------------------------------------------------------
    for cls in ("Grid", "Catchment"):
        cl = mod.func(f"{cls}.clone")
        dc = [n for n in ast.walk(cl) if isinstance(n, ast.Call) and dotted(n.func) in ("copy.deepcopy", "deepcopy")]
        ret = [n for n in cl.body if isinstance(n, ast.Return)]
        okc = len(dc) == 1 and ast.unparse(dc[0].args[0]) == "self" and ret and isinstance(ret[-1].value, ast.Name)
        if okc:
            nm = ret[-1].value.id
            okc = any(isinstance(s, ast.Assign) and isinstance(s.targets[0], ast.Name) and s.targets[0].id == nm and s.value is dc[0] for s in cl.body)
        if not okc:
            # alternative: a shallow copy followed, on every path, by an unconditional store of a fresh data buffer
            from ..effects import FnAnalysis as _FA
            sc = [n for n in ast.walk(cl) if isinstance(n, ast.Call) and dotted(n.func) in ("copy.copy",) and ast.unparse(n.args[0]) == "self"]
            if sc and cls == "Grid":
                fa = _FA(cl, {}, attr_roots={"self._data": "_data", "self.data": "_data"})
                for s_ in cl.body:
                    if isinstance(s_, ast.Assign) and isinstance(s_.targets[0], ast.Attribute) and s_.targets[0].attr in ("_data", "data") \
                            and not fa.val(s_.value):
                        okc = True
        rep.check(bool(okc), "R13.c", rel, f"{cls}.clone", "clone is a deep copy (copy.deepcopy(self), or a copy with an unconditional fresh data buffer)",
                  "a shallow copy shares the cell values with the original", line=cl.lineno)
    ds = mod.func("Grid.dtype.setter")
    from ..effects import FnAnalysis
    for s in ast.walk(ds):
        if isinstance(s, ast.Assign) and isinstance(s.targets[0], ast.Attribute) and s.targets[0].attr == "_data":
            fa = FnAnalysis(ds, {}, attr_roots={"self._data": "_data"})
            v = fa.val(s.value)
            rep.check(not v, "R13.c", rel, "Grid.dtype.setter", "dtype conversion stores a new buffer",
                      f"`{ast.unparse(s.value)}` may share the buffer of the old data (clones made through clone(dtype) would alias)", line=s.lineno)
    dset = mod.func("Grid.data.setter")
    for s in ast.walk(dset):
        if isinstance(s, ast.Assign) and isinstance(s.targets[0], ast.Attribute) and s.targets[0].attr == "_data":
            fa = FnAnalysis(dset, {"value": "value"}).run()
            v = fa.val(s.value)
            rep.check(not v, "R13.c", rel, "Grid.data.setter", "data setter stores a copy of the argument",
                      f"`{ast.unparse(s.value)[:60]}` may share the caller's buffer", line=s.lineno)
    cp = mod.func("Grid.clip")
    sl = None
    for s in ast.walk(cp):
        if isinstance(s, ast.Assign) and isinstance(s.targets[0], ast.Attribute) and s.targets[0].attr == "data" and isinstance(s.value, ast.Subscript):
            sl = s
    spa = [n for n in ast.walk(cp) if isinstance(n, ast.Call) and isinstance(n.func, ast.Attribute) and n.func.attr == "set_parent_attributes"]
    if sl is None or not spa:
        rep.violation("R13.c", rel, "Grid.clip", "clip slices the parent data and records the bounds", "pattern not found", line=cp.lineno)
    else:
        idx = sl.value.slice
        names = []
        if isinstance(idx, ast.Tuple) and len(idx.elts) == 2 and all(isinstance(x, ast.Slice) for x in idx.elts):
            for x in idx.elts:
                lo = ast.unparse(x.lower) if x.lower else None
                up = x.upper
                upn = None
                if isinstance(up, ast.BinOp) and isinstance(up.op, ast.Add) and const_value(up.right) == 1:
                    upn = ast.unparse(up.left)
                names += [lo, upn]
        got = [ast.unparse(a) for a in spa[0].args[1:]]
        rep.check(names == got and None not in names and dotted(sl.value.value) in ("self._data", "self.data"), "R13.c", rel, "Grid.clip",
                  "parent bookkeeping records the row/column bounds of the slice [r0:r1+1, c0:c1+1]",
                  f"slice bounds {names}, recorded {got}", line=sl.lineno)
    # clip finds its corner cells with coord2cell: the clauses of C07 about that kernel and its wrapper are obligations here too
    from ..core import borrow
    nb_ = borrow(rep, "C07", "R13.e", "Grid.clip's corner lookup: the coord2cell kernel and wrapper clauses decided for C07 (inside test, numbering, -1 outside)",
                 lambda e: (e.func or "") in ("c_coord2cell", "coord2cell", "Grid.coord2cell") or "coord2cell" in (e.construct or ""))
    rep.floor("coord2cell clauses taken over from C07", nb_, 8)
    return EXPLANATION


def raises_in(ifnode):
    return any(isinstance(x, ast.Raise) for x in ast.walk(ifnode))


def attr_name(v):
    """self.name / self._name / list(self._name) / self.flowdir.to_dict() -> 'name'"""
    if isinstance(v, ast.Call) and v.args and dotted(v.func) in ("list", "str", "int", "float", "np.array"):
        return attr_name(v.args[0])
    if isinstance(v, ast.Call) and isinstance(v.func, ast.Attribute) and v.func.attr in ("to_dict", "tolist", "copy"):
        return attr_name(v.func.value)
    d = dotted(v)
    if d and d.startswith("self.") and d.count(".") == 1:
        return d.split(".")[1].lstrip("_")
    return None


def key_of(v, fdef):
    """dic["key"] possibly wrapped, or a local name assigned from such an expression"""
    for n in ast.walk(v):
        if isinstance(n, ast.Subscript) and isinstance(n.slice, ast.Constant) and isinstance(n.slice.value, str) and \
                isinstance(n.value, ast.Name) and n.value.id == "dic":
            return n.slice.value
    if isinstance(v, ast.Name):
        for s in ast.walk(fdef):
            if isinstance(s, ast.Assign) and isinstance(s.targets[0], ast.Name) and s.targets[0].id == v.id:
                return key_of(s.value, fdef) if not isinstance(s.value, ast.Name) else None
    return None
