"""C13 -- grids and catchments survive save/load, dictionary export, cloning and clipping (writer/reader tables)."""
import ast
import re

from ..core import AnalysisError
from ..formula import Undecided
from ..pyfront import Mod, dotted, const_value, walk_no_nested

EXPLANATION = (
    "Writer/reader agreement decided from the source of gis/grid.py: every constructor argument that "
    "Grid.from_stream rebuilds has its header key written by Grid.save; the reader's parsing rules (type "
    "selection by key prefix, pixel-type regular expression, NBITS arithmetic, byte-order letters) are evaluated "
    "on the writer's finite vocabulary and must give back the dtype; header numbers are written with a "
    "round-trip representation; raw data are written from and read into the same row-major buffer with the "
    "header's dtype and byte order; to_dict/from_dict of Grid and Catchment agree on keys and bind each key to "
    "the same-named attribute, every attribute restored is one the constructor declares; clone is a deep copy "
    "and dtype conversion never shares the buffer; clip records the bounds it sliced with.  All of this holds "
    "for every grid, not for sampled ones; numerical equality through numpy's clip/astype is not decided.")


def _concat(e):
    """parts of a string concatenation"""
    if isinstance(e, tuple) and e and e[0] == 'add':
        return _concat(e[1]) + _concat(e[2])
    if isinstance(e, tuple) and len(e) == 2 and e[0] == 'lit' and isinstance(e[1], str):
        return [e]
    return [e]


def _is_itemsize(x, nbits_written, configs):
    """x = str(config['nbits'] // 8) (or int(../8)) while NBITS is written as itemsize * 8"""
    from .. import pq
    if not (pq.call_named(x, "py.str") and len(x[2]) == 1):
        return False
    v = x[2][0]
    while pq.call_named(v, "py.int") and len(v[2]) == 1:
        v = v[2][0]
    if not ((pq.call_named(v, "floordiv") and len(v[2]) == 2) or v[0] == 'div'):
        return False
    num_, den = (v[2][0], v[2][1]) if v[0] == 'call' else (v[1], v[2])
    okn = pq.call_named(num_, "getitem") and num_[2][0] in configs and num_[2][1] in (('sym', "'nbits'"), ('lit', 'nbits'))
    okd = den in (('num', 8), ('lit', 8)) or (den[0] == 'num' and int(den[1]) == 8)
    w = nbits_written
    okw = w is not None and w[0] == 'mul' and any(pq.call_named(t, "attr:itemsize") for t in (w[1], w[2])) and \
        any(t in (('num', 8), ('lit', 8)) or (t[0] == 'num' and int(t[1]) == 8) for t in (w[1], w[2]))
    return bool(okn and okd and okw)


def str_consts(node):
    return [n.value for n in ast.walk(node) if isinstance(n, ast.Constant) and isinstance(n.value, str)]


def eval_key_test(test, key, var):
    """evaluate a parser guard (`var in [..]`, `var.startswith('x')`, and/or/not) for a concrete key string"""
    if isinstance(test, ast.BoolOp):
        vals = [eval_key_test(v, key, var) for v in test.values]
        if any(v is None for v in vals):
            return None
        return all(vals) if isinstance(test.op, ast.And) else any(vals)
    if isinstance(test, ast.UnaryOp) and isinstance(test.op, ast.Not):
        v = eval_key_test(test.operand, key, var)
        return None if v is None else not v
    if isinstance(test, ast.Compare) and len(test.ops) == 1 and isinstance(test.left, ast.Name) and test.left.id == var:
        c = test.comparators[0]
        if isinstance(test.ops[0], ast.In) and isinstance(c, (ast.List, ast.Tuple, ast.Set)):
            return key in [const_value(x) for x in c.elts]
        if isinstance(test.ops[0], ast.Eq) and isinstance(c, ast.Constant):
            return key == c.value
    if isinstance(test, ast.Call) and isinstance(test.func, ast.Attribute) and isinstance(test.func.value, ast.Name) \
            and test.func.value.id == var and test.func.attr in ("startswith", "endswith") and test.args and \
            isinstance(test.args[0], ast.Constant):
        return getattr(key, test.func.attr)(test.args[0].value)
    return None


def run(rep):
    rel = "gis/grid.py"
    mod = Mod(rep.repo, rel)
    rep.rule("R13.a", "header: every rebuilt constructor argument is written; reader rules applied to the writer's vocabulary give back the dtype; numbers written in round-trip form")
    rep.rule("R13.b", "to_dict/from_dict key tables agree and bind same-named attributes; every restored attribute is declared by __init__")
    rep.rule("R13.c", "clone is a deep copy; dtype conversion copies; clip records the row/column bounds it sliced with")
    rep.rule("R13.d", "raw data written from _data and read with the header's dtype and byte order, size checked, row-major reshape")
    rep.assume("str() of a numpy float64 / int64 is the shortest round-trip representation (numpy >= 1.14)")
    rep.assume("numpy dtype codes: 'i' signed, 'u' unsigned, 'f' float, '<' little endian, '>' big endian")
    save = mod.func("Grid.save")
    fs = mod.func("Grid.from_stream")
    load = mod.func("Grid.load")
    ginit = mod.func("Grid.__init__")
    rep.unit(f"{rel}: Grid.save / from_stream / load / to_dict / from_dict / clone / clip, Catchment.to_dict / from_dict")

    # ---------------- writer: the header lines, from the evaluated paths of Grid.save -------------------------------------
    from .. import pq, pfold
    from ..formula import show as _show
    import string as _string
    # module-level literal tables and private helpers take part in the evaluation
    BASE = {}
    for n in mod.tree.body:
        if isinstance(n, ast.Assign) and len(n.targets) == 1 and isinstance(n.targets[0], ast.Name):
            try:
                BASE[('sym', n.targets[0].id)] = pfold.lit(ast.literal_eval(n.value))
            except (ValueError, SyntaxError, TypeError):
                pass
    HELPERS = {n.name: n for n in mod.tree.body if isinstance(n, ast.FunctionDef) and n.name.startswith("_")}
    wpe = pq.PEval()
    wpe.unroll_const = wpe.merge_ifs = True
    wpe.b.keep_casts = True
    wpe.inline = HELPERS
    wpaths = [p_ for p_ in wpe.run(save) if p_.how in ("end", "return")]
    if not wpaths:
        raise AnalysisError(f"{rel}: Grid.save: no completing path")

    def header_line(arg):
        """(key literal, value expression, value format spec | None) of the text written for one header line"""
        a_ = pfold.fold(arg, BASE)
        if pq.call_named(a_, ".format") and len(a_[2]) == 3 and pfold.is_lit(a_[2][0]) and isinstance(a_[2][0][1], str):
            fmt = a_[2][0][1]
            try:
                fields = list(_string.Formatter().parse(fmt))
            except ValueError:
                return None
            if len(fields) >= 2 and fields[0][0] == "" and fields[0][1] == "0" and fields[1][1] == "1" and fields[1][0].strip(" ") == "" and fields[1][0] != "" \
                    and (len(fields) == 2 or (len(fields) == 3 and fields[2][0] == "\n" and fields[2][1] is None)) and not fields[0][3] and not fields[1][3]:
                if pfold.is_lit(a_[2][1]) and isinstance(a_[2][1][1], str):
                    return a_[2][1][1], a_[2][2], fields[1][2] or ""
        # the same text as an f-string:  f"{KEY:<14} {value}\n"  /  f"{KEY:<14} {value:spec}\n"
        if pq.call_named(a_, "fstr") and len(a_[2]) in (3, 4):
            parts = list(a_[2])

            def unfmt(x):
                if pq.call_named(x, "fmt") and len(x[2]) == 2:
                    sp_ = x[2][1]
                    if pfold.is_lit(sp_):
                        return x[2][0], str(sp_[1])
                    if sp_[0] == 'sym':
                        return x[2][0], ast.literal_eval(sp_[1])
                return x, ""
            k_, kspec = unfmt(parts[0])
            sep = parts[1]
            v_, vspec = unfmt(parts[2])
            tail_ok = len(parts) == 3 or (pfold.is_lit(parts[3]) and parts[3][1] == "\n") or parts[3] == ('sym', repr("\n"))
            sep_txt = sep[1] if pfold.is_lit(sep) else (ast.literal_eval(sep[1]) if sep[0] == 'sym' and sep[1][:1] in "'\"" else None)
            if pfold.is_lit(k_) and isinstance(k_[1], str) and isinstance(sep_txt, str) and sep_txt != "" and sep_txt.strip(" ") == "" and tail_ok and \
                    (kspec == "" or re.fullmatch(r"<\d+", kspec)):
                return k_[1], v_, vspec
        return None
    scen_lines = []          # per completing path: list of (KEY, value expr, spec, effect conditions, line number)
    unread_lines = 0
    for p_ in wpaths:
        ls_ = []
        for e in p_.effects:
            if e.kind == 'call' and pq.call_named(e.val, ".write") and len(e.val[2]) == 2:
                hl = header_line(e.val[2][1])
                if hl is None:
                    rep.undecided("R13.a", rel, "Grid.save", "header line form", f"written text outside the `KEY value` vocabulary: {_show(e.val[2][1])[:80]}", line=e.line)
                    unread_lines += 1
                    continue
                ls_.append((hl[0], hl[1], hl[2], e.conds, e.line))
        scen_lines.append((p_, ls_))

    def attr_text(v):
        if pq.call_named(v, "f:getattr") and len(v[2]) == 2 and v[2][0] == ('sym', 'self') and pfold.is_lit(v[2][1]):
            return "self." + str(v[2][1][1])
        if v[0] == 'call' and v[1].startswith("attr:") and v[2] == (('sym', 'self'),):
            return "self." + v[1][5:]
        return pfold.text(v)
    written = {}        # lower-case key -> (value text, value format spec, line)
    for _p, ls_ in scen_lines:
        for key, val, spec, _c, ln in ls_:
            written.setdefault(key.lower(), (attr_text(val), "{1:" + spec + "}" if spec else "{1}", ln))
    dups = sorted({k.upper() for _p, ls_ in scen_lines for k, *_r in ls_ if sum(1 for k2, *_r2 in ls_ if k2.lower() == k.lower()) > 1})
    rep.check(not dups, "R13.a", rel, "Grid.save", "no header key is written twice (the reader keeps the last value it meets)",
              f"written more than once on one path: {dups[:4]}", line=save.lineno)
    keysets = {tuple(sorted(k for k, *_r in ls_)) for _p, ls_ in scen_lines}
    rep.check(len(keysets) == 1, "R13.a", rel, "Grid.save", "the same header keys are written for every data type", f"{len(keysets)} different key sets", line=save.lineno)
    for key in sorted(written):
        rep.check(key.upper() in {k for _p, ls_ in scen_lines for k, *_r in ls_}, "R13.a", rel, "Grid.save", f"key '{key.upper()}' written in upper case as the reader's lower() expects", "", line=written[key][2])
    rep.floor("header keys written by Grid.save", len(written), 9)

    # ---------------- reader: constructor keys and their sources ---------------------------------------------------
    ctor_keys = None
    for n in ast.walk(fs):
        if isinstance(n, ast.Assign) and isinstance(n.targets[0], ast.Name) and n.targets[0].id == "keys" and isinstance(n.value, ast.List):
            ctor_keys = [const_value(x) for x in n.value.elts]
    if not ctor_keys:
        raise AnalysisError(f"{rel}: Grid.from_stream: list of constructor keys not found")
    init_params = [a.arg for a in ginit.args.args[1:]]
    for k in ctor_keys:
        rep.check(k in init_params, "R13.a", rel, "Grid.from_stream", f"constructor key '{k}'", "not a parameter of Grid.__init__", line=fs.lineno)
    # derived keys:  config["dtype"] <- byteorder, pixeltype, nbits ; config["nodata"] <- nodata | nodata_value
    needs = {k: {k} for k in ctor_keys}
    needs["dtype"] = {"byteorder", "pixeltype", "nbits"}
    alt = {"nodata": {"nodata", "nodata_value"}, "cellsize": {"cellsize", "xdim"}, "xllcorner": {"xllcorner", "ulxmap"},
           "yllcorner": {"yllcorner", "ulymap"}}
    for k in ctor_keys:
        if k in alt:
            ok = bool(alt[k] & set(written))
            det = f"none of {sorted(alt[k])} is written by Grid.save: a saved grid is reloaded with the parser's default"
        else:
            miss = needs[k] - set(written)
            ok = not miss
            det = f"header key(s) {sorted(miss)} not written by Grid.save"
        if not ok and unread_lines:
            # some written lines were not understood: a key that seems missing may be on one of them
            rep.undecided("R13.a", rel, "Grid.save", f"header provides constructor argument '{k}'", det + f" ({unread_lines} written line(s) could not be read)", line=save.lineno)
        else:
            rep.check(ok, "R13.a", rel, "Grid.save", f"header provides constructor argument '{k}'", det, line=save.lineno)
    # value bound to the right attribute
    expect_attr = {"nbits": None, "pixeltype": None, "byteorder": None, "name": "self.name", "comment": None, "nodata": "self.nodata"}
    for k, (vtxt, fmt, line) in sorted(written.items()):
        if k in ("nrows", "ncols", "xllcorner", "yllcorner", "cellsize"):
            okv = vtxt in (f"self.{k}", f"self._{k}")
        elif k in expect_attr and expect_attr[k]:
            okv = vtxt in (expect_attr[k], expect_attr[k].replace("self.", "self._"))
        else:
            okv = True
        rep.check(okv, "R13.a", rel, "Grid.save", f"header key '{k.upper()}' holds the same-named attribute", f"holds `{vtxt}`", line=line)
        # round-trip representation: no precision / width in the value placeholder
        spec = re.findall(r"\{1(?::([^}]*))?\}", fmt)
        okf = bool(spec) and all(s == "" for s in spec)
        rep.check(okf, "R13.a", rel, "Grid.save", f"value of '{k.upper()}' written in round-trip form",
                  f"format `{fmt.strip()}` rounds the value: the reloaded georeferencing differs", line=line)
    # ---------------- reader: the parsing loop evaluated on each key the writer emits -------------------------------------
    rpe = pq.PEval()
    rpe.unroll_const = rpe.merge_ifs = True
    rpe.b.keep_casts = True
    rpe.inline = HELPERS
    rpaths = rpe.run(fs)
    lps = [p_ for _t, p_ in getattr(rpe, "loop_paths", [])]
    hstores = [(p_, e) for p_ in lps for e in p_.effects if e.kind == 'store' and e.target in ("config", "parent_config")]
    if not hstores:
        raise AnalysisError(f"{rel}: Grid.from_stream: header parsing loop (stores into config) not found")
    # the first token of the split line is what the key tests look at
    toks = pq.find(('tuple', tuple(e.key for _p, e in hstores)), lambda x: pq.call_named(x, "getitem") and len(x[2]) == 2 and x[2][1] == ('num', 0) and
                   (pq.call_named(x[2][0], ".split")))
    if not toks:
        raise AnalysisError(f"{rel}: Grid.from_stream: key token of a header line not recognised")
    TOK = toks[0]

    def parse_kind(key_written):
        """(kind, destination) of the value stored for a header line whose first token is `key_written`"""
        bind = dict(BASE)
        bind[TOK] = pfold.lit(key_written)
        out = set()
        for p_, e in hstores:
            if not pfold.live(p_, bind):
                continue
            if any(pfold.truth(c, bind) is (not t) for c, t in e.conds):
                continue
            kf = pfold.fold(e.key, bind)
            if not pfold.is_lit(kf):
                return None
            v = e.val
            has = lambda nm: bool(pq.find(v, lambda x: pq.call_named(x, nm)))
            kind = "int" if has("py.int") else "float" if has("py.float") else ("str" if has(".lower") else "rawstr")
            out.add((kind, e.target, kf[1]))
        return out
    want_kind = {"nrows": "int", "ncols": "int", "nbits": "int", "xllcorner": "float", "yllcorner": "float", "cellsize": "float",
                 "nodata": "float", "pixeltype": "str", "byteorder": "str", "name": "str", "comment": "str",
                 "parentgrid_nrows": "int", "parentgrid_ncols": "int"}
    for k in sorted(written):
        got = parse_kind(k.upper())
        if k not in want_kind:
            continue
        if not got or len(got) != 1:
            rep.undecided("R13.a", rel, "Grid.from_stream", f"parsing of key '{k}'", f"{0 if not got else len(got)} live stores", line=fs.lineno)
            continue
        kind, dest, stored_key = next(iter(got))
        rep.check(kind == want_kind[k] and stored_key == k and (dest == "parent_config") == k.startswith("parent"), "R13.a", rel, "Grid.from_stream",
                  f"key '{k}' parsed as {want_kind[k]}", f"parsed as {kind}, stored under '{stored_key}' in {dest}", line=fs.lineno)

    # ---------------- dtype vocabulary: writer scenarios pushed through the reader ------------------------------------------
    # writer: the expression naming the type family (compared with 'int' / 'uint' / 'float') and the byte-order character
    fam = None
    for p_ in wpe.paths:
        for c, t in p_.conds:
            if c[0] == 'cmp' and c[1] == '==' and pfold.is_lit(pfold.fold(c[3], {})) and pfold.fold(c[3], {})[1] in ("int", "uint", "float"):
                fam = c[2]
    lines0 = scen_lines[0][1]
    if fam is None:
        # a table lookup instead of a comparison chain: the family expression is the subscript of the PIXELTYPE value
        for key, val, *_r in lines0:
            if key == "PIXELTYPE":
                cands = pq.find(val, lambda x: pq.call_named(x, ".sub") and x[2][0] == ('sym', 're'))
                fam = cands[0] if cands else None
    if fam is None:
        raise AnalysisError(f"{rel}: Grid.save: expression selecting the pixel type word not recognised")
    BOX = pq.find(('tuple', tuple(v for _k, v, *_r in lines0 if _k == "BYTEORDER")), lambda x: pq.call_named(x, "attr:byteorder"))
    kind_code = {"int": "i", "uint": "u", "float": "f"}
    CONFIGS = set()
    for p_ in rpaths:
        for c, _t in p_.conds:
            for x in pq.find(c, lambda y: pq.call_named(y, "getitem") and y[2][0][0] == 'sym' and y[2][0][1].startswith("config") and pfold.is_lit(pfold.fold(y[2][1], {}))):
                CONFIGS.add(x[2][0])
        for e in p_.effects:
            for x in pq.find(e.val, lambda y: pq.call_named(y, "getitem") and y[2][0][0] == 'sym' and y[2][0][1].startswith("config") and pfold.is_lit(pfold.fold(y[2][1], {}))) if e.val else []:
                CONFIGS.add(x[2][0])

    def cfg(bind, key, value):
        for c_ in CONFIGS:
            bind[('call', 'getitem', (c_, ('sym', repr(key))))] = value
    nvoc = 0
    for tname in ("int", "uint", "float"):
        for bo in (">", "<", "="):
            wb_ = dict(BASE)
            wb_[fam] = pfold.lit(tname)
            for x in BOX:
                wb_[x] = pfold.lit(bo)
            live_w = [(p_, ls_) for p_, ls_ in scen_lines if pfold.live(p_, wb_)]
            if len(live_w) != 1:
                rep.undecided("R13.a", rel, "Grid.save", f"{tname} / byte order '{bo}': header written", f"{len(live_w)} live writer paths", line=save.lineno)
                continue
            vals = {k_: pfold.fold(v_, wb_) for k_, v_, *_r in live_w[0][1]}
            word, letter, nbw = vals.get("PIXELTYPE"), vals.get("BYTEORDER"), vals.get("NBITS")
            if not (word and letter and pfold.is_lit(word) and pfold.is_lit(letter)):
                rep.undecided("R13.a", rel, "Grid.save", f"{tname} / byte order '{bo}': PIXELTYPE and BYTEORDER words", f"{pfold.text(word) if word else None}, {pfold.text(letter) if letter else None}", line=save.lineno)
                continue
            # reader: values arrive lower-cased (kind 'str' checked above)
            rb_ = dict(BASE)
            cfg(rb_, "pixeltype", pfold.lit(str(word[1]).lower()))
            cfg(rb_, "byteorder", pfold.lit(str(letter[1]).lower()))
            live_r = [p_ for p_ in rpaths if p_.how == "return" and pfold.live(p_, rb_)]
            raised = [p_ for p_ in rpaths if p_.how == "raise" and pfold.live(p_, rb_) and all(pfold.truth(c, rb_) is not None for c, _t in p_.conds)]
            dts = set()
            for p_ in live_r:
                for e in p_.effects:
                    if e.kind == 'store' and e.target == "config" and pfold.fold(e.key, {}) == pfold.lit("dtype"):
                        dt = pq.find(e.val, lambda x: pq.call_named(x, "dtype") and len(x[2]) >= 1)
                        if dt:
                            parts = _concat(pfold.fold(dt[0][2][0], rb_))
                            dts.add(tuple(parts))
            nvoc += 1
            cons = f"{tname} / byte order '{bo}': PIXELTYPE {word[1]} BYTEORDER {letter[1]} rebuilds the dtype"
            want_bo = ">" if bo == ">" else "<"
            if not dts:
                if raised and not live_r:
                    rep.violation("R13.a", rel, "Grid.from_stream", cons, f"the reader rejects these words ({len(raised)} path(s) raise, none returns)", line=fs.lineno)
                else:
                    rep.undecided("R13.a", rel, "Grid.from_stream", cons, "no dtype construction found on the live paths", line=fs.lineno)
                continue
            okd = True
            det = ""
            for parts in dts:
                head = "".join(str(x[1]) for x in parts if pfold.is_lit(x))
                rest = [x for x in parts if not pfold.is_lit(x)]
                if head != want_bo + kind_code[tname]:
                    okd, det = False, f"dtype string starts with {head!r}, numpy code is {want_bo + kind_code[tname]!r}"
                if len(rest) != 1 or not _is_itemsize(rest[0], nbw, CONFIGS):
                    okd, det = False, det or f"item size part `{_show(rest[0])[:60] if rest else None}` does not undo NBITS = {pfold.text(nbw) if nbw else None}"
            rep.check(okd, "R13.a", rel, "Grid.from_stream", cons, det, line=fs.lineno)
    rep.floor("dtype scenarios pushed through writer and reader", nvoc, 9)
    # PIXELTYPE value is written upper-cased and lower-cased by the reader
    ptw = written.get("pixeltype", ("", "", 0))[0]

    # ---------------- R13.d raw data ---------------------------------------------------------------------------------------
    tof = [n for n in ast.walk(save) if isinstance(n, ast.Call) and isinstance(n.func, ast.Attribute) and n.func.attr == "tofile"]
    rep.check(len(tof) == 1 and dotted(tof[0].func.value) in ("self._data", "self.data"), "R13.d", rel, "Grid.save",
              "raw data = self._data.tofile(filename)", ast.unparse(tof[0]) if tof else "no tofile call", line=save.lineno)
    # every reader of raster bytes takes the byte order from the header: outside Grid.load (whose dtype carries it) no function of the class decodes
    # raw cell bytes itself
    nraw = 0
    for qn_, f_ in mod.funcs.items():
        if not qn_.startswith("Grid.") or qn_ == "Grid.load":
            continue
        for c_ in ast.walk(f_):
            if isinstance(c_, ast.Call) and dotted(c_.func) in ("np.frombuffer", "np.fromfile", "np.fromstring", "numpy.frombuffer", "numpy.fromfile"):
                nraw += 1
                txt_ = ast.unparse(c_)
                rep.check("byteorder" in txt_ or "newbyteorder" in txt_, "R13.d", rel, qn_, "raw cell bytes are decoded with the byte order of the header",
                          f"`{txt_[:80]}` reads the bytes with a dtype that does not carry the header's BYTEORDER (Grid.load is the reader that applies it): a big-endian "
                          "raster loaded this way is byte-swapped", line=c_.lineno, firm=True)
    if not nraw:
        rep.proved("R13.d", rel, "Grid", "Grid.load is the only decoder of raw cell bytes (from_header / from_stream / from_zip go through it)", line=load.lineno)
    from .. import pq
    ffs = set()
    for p_ in pq.PEval().run(load):
        for e in p_.effects:
            if e.kind == 'attr' and e.target == "self._data":
                ffs |= set(pq.find(e.val, lambda x: pq.call_named(x, "fromfile")))

    def _ff_dtype(f):
        kw = dict(f[3]) if len(f) > 3 else {}
        return f[2][1] if len(f[2]) >= 2 else kw.get("dtype")
    okff = len(ffs) == 1 and all(_ff_dtype(f) is not None for f in ffs)
    rep.check(okff, "R13.d", rel, "Grid.load", "raw data read with np.fromfile(stream, <dtype>)", "", line=load.lineno)
    # the byte order decoded from the header must reach the read: a numpy scalar *type* has no byte order
    bo_used = False
    if okff:
        dtv = _ff_dtype(next(iter(ffs)))
        bo_used = pq.mentions(dtv, lambda x: x == ('sym', 'byteorder'))
    type_drop = [n for n in ast.walk(fs) if isinstance(n, ast.Attribute) and n.attr == "type" and "byteorder" in ast.unparse(n.value)]
    passes_bo = any(isinstance(n, ast.Call) and isinstance(n.func, ast.Attribute) and n.func.attr == "load" and
                    "byteorder" in ast.unparse(n) for n in ast.walk(fs))
    rep.check(bo_used and passes_bo or not type_drop, "R13.d", rel, "Grid.from_stream",
              "decoded byte order reaches the raw read",
              "the dtype built from BYTEORDER is reduced with `.type` (a scalar type carries no byte order) and load() reads with the "
              "native order: big-endian rasters are mis-read", line=(type_drop[0].lineno if type_drop else fs.lineno))
    from .. import pq
    from ..formula import show as _show
    lpaths = pq.PEval().run(load)
    NV = ["self.nrows*self.ncols"]
    def size_test(p_):
        for c, t in pq.flat_conds(p_.conds):
            if c[0] != 'cmp' or c[1] not in ('!=', '=='):
                continue
            sides = [c[2], c[3]]
            cnt = [x for x in sides if (pq.call_named(x, "shape") and pq.same(x[2][1], "0")) or pq.call_named(x, "attr:size")]
            tot = [x for x in sides if pq.same(x, NV[0])]
            if len(cnt) == 1 and len(tot) == 1 and pq.mentions(cnt[0], lambda e: pq.call_named(e, "fromfile")):
                return (c[1] == '!=') == t
        return None
    sz = [p_ for p_ in lpaths if p_.how == "raise" and size_test(p_) is True]
    stored = [e for p_ in lpaths if p_.how in ("end", "return") for e in p_.effects if e.kind == 'attr' and e.target == "self._data"]
    unchecked = [p_ for p_ in lpaths if p_.how in ("end", "return") and size_test(p_) is not False]
    rep.check(bool(sz) and bool(stored) and not unchecked, "R13.d", rel, "Grid.load", "number of values read is checked against nrows*ncols", "", line=load.lineno)
    okrs = bool(stored) and all(pq.mentions(e.val, lambda x: pq.call_named(x, "reshape") and pq.same(x[2][1], "(self.nrows, self.ncols)") and
                                            pq.mentions(x[2][0], lambda y: pq.call_named(y, "fromfile"))) for e in stored)
    rs = stored
    rep.check(okrs, "R13.d", rel, "Grid.load", "row-major reshape to (nrows, ncols)", _show(rs[0].val)[:120] if rs else "", line=load.lineno)
    # cell values never pass through floating point: np.clip with an infinite bound converts integer rasters to float64
    setter = mod.funcs.get("Grid.data.setter")
    if setter is None:
        raise AnalysisError(f"{rel}: Grid.data setter not found")
    for fdef, nm in ((load, "Grid.load"), (setter, "Grid.data (setter)")):
        paths_ = [p_ for p_ in pq.PEval().run(fdef) if p_.how in ("end", "return")]
        sts = [(p_, e) for p_ in paths_ for e in p_.effects if e.kind == 'attr' and e.target == "self._data"]
        okfl, det = bool(sts), "no store to self._data"
        for p_, e in sts:
            for wc, alt in pq.split_where(e.val):
                conds = pq.flat_conds(list(p_.conds) + wc)
                for cl in pq.find(alt, lambda x: pq.call_named(x, "clip") and len(x[2]) == 3):
                    for b_ in cl[2][1:]:
                        if b_ == ('sym', 'None'):
                            continue
                        finite = pq.cond_truth(conds, ('call', 'isinf', (b_,))) is False or pq.cond_truth(conds, ('call', 'isfinite', (b_,))) is True
                        if not finite:
                            okfl = False
                            det = f"np.clip(.., {_show(cl[2][1])[:40]}, {_show(cl[2][2])[:40]}) with a bound that may be infinite"
        # the stored array has the grid's declared type on every path: the header written by save() takes type and byte order from
        # self.dtype, so an array kept as read (big-endian file, caller's dtype) is dumped with bytes the header does not describe
        untyped = []
        for p_, e in sts:
            for wc, alt in pq.split_where(e.val):
                if not (pq.call_named(alt, "astype") and len(alt[2]) == 2 and pq.same(alt[2][1], "self.dtype")):
                    untyped.append((p_, alt))
        rep.check(bool(sts) and not untyped, "R13.d", rel, nm, "the stored array is converted to the grid's declared dtype (native byte order) on every path",
                  f"{len(untyped)} path(s) store the array as it arrived: {_show(untyped[0][1])[:100]}" if untyped else "", line=fdef.lineno, firm=True)
        rep.check(okfl, "R13.d", rel, nm, "cell values are clipped against finite bounds only (np.clip with an infinite bound turns an integer raster into float64: values beyond 2^53 change)",
                  det if not okfl else "", line=fdef.lineno)

    # ---------------- R13.b dict tables -------------------------------------------------------------------------------------------
    for cls, init_name in (("Grid", "Grid.__init__"), ("Catchment", "Catchment.__init__")):
        td, fd = mod.func(f"{cls}.to_dict"), mod.func(f"{cls}.from_dict")
        init = mod.func(init_name)
        declared = {t.attr for n in ast.walk(init) if isinstance(n, ast.Assign) for t in n.targets
                    if isinstance(t, ast.Attribute) and dotted(t.value) == "self"}
        for pn, pf in mod.funcs.items():
            if pn.startswith(cls + ".") and pn.endswith(".setter"):
                declared.add(pn.split(".")[1])
        wkeys = {}
        for dn in [n for n in ast.walk(td) if isinstance(n, ast.Dict)]:
            for k, v in zip(dn.keys, dn.values):
                if k is not None and isinstance(const_value(k), str):
                    wkeys[const_value(k)] = v
        rkeys = set()
        for n in ast.walk(fd):
            if isinstance(n, ast.Subscript) and isinstance(n.slice, ast.Constant) and isinstance(n.slice.value, str) and \
                    isinstance(n.value, ast.Name) and n.value.id == "dic":
                rkeys.add(n.slice.value)
            if isinstance(n, ast.For) and isinstance(n.iter, (ast.List, ast.Tuple)) and any(
                    isinstance(x, ast.Compare) and isinstance(x.ops[0], ast.In) and ast.unparse(x.comparators[0]) == "dic" for x in ast.walk(n)):
                rkeys |= {const_value(x) for x in n.iter.elts}
            if isinstance(n, ast.comprehension) and any(isinstance(x, ast.Compare) and isinstance(x.ops[0], ast.In) and ast.unparse(x.comparators[0]) == "dic"
                                                        for i_ in n.ifs for x in ast.walk(i_)):
                it = n.iter
                if isinstance(it, ast.Name):
                    # a named constant list defined in the function
                    for m_ in ast.walk(fd):
                        if isinstance(m_, ast.Assign) and isinstance(m_.targets[0], ast.Name) and m_.targets[0].id == it.id and isinstance(m_.value, (ast.List, ast.Tuple)):
                            it = m_.value
                if isinstance(it, (ast.List, ast.Tuple)):
                    rkeys |= {const_value(x) for x in it.elts}
        # numbers come back exactly: a value read from the dictionary is not pushed through float() / int() on its way to the
        # constructor (int64 no-data values beyond 2^53 and the type extremes do not survive a float)
        kpe = pq.PEval()
        kpe.b.keep_casts = True
        lossy = []
        try:
            for p_ in kpe.run(fd):
                pool_ = [v for v in p_.env.values() if isinstance(v, tuple)] + [e.val for e in p_.effects if e.val is not None] + ([p_.value] if isinstance(p_.value, tuple) else [])
                for x in pq.find(('tuple', tuple(pool_)), lambda y: (pq.call_named(y, "py.float") or pq.call_named(y, "float64")) and len(y[2]) == 1 and
                                 pq.call_named(y[2][0], "getitem") and y[2][0][2][1][0] == 'sym' and y[2][0][2][1][1].strip("'\"") in ("nodata",)):
                    lossy.append(_show(x)[:60])
        except Exception:
            lossy = None
        # ... and the writer does not push it through a float either
        wv = wkeys.get("nodata")
        if wv is not None and lossy is not None:
            for c_ in ast.walk(wv):
                if isinstance(c_, ast.Call) and dotted(c_.func) in ("float", "np.float64", "np.float32", "numpy.float64") and "nodata" in ast.unparse(c_):
                    lossy.append("to_dict: " + ast.unparse(wv)[:60])
                    break
        if lossy is None:
            rep.undecided("R13.b", rel, f"{cls}.from_dict", "no-data value restored without a float conversion", "evaluation failed", line=fd.lineno)
        else:
            rep.check(not lossy, "R13.b", rel, f"{cls}.from_dict", "no-data value restored without a float conversion (integers beyond 2^53 survive)",
                      f"{sorted(set(lossy))[:2]}", line=fd.lineno, firm=True)
        # a restored value is not tested for truth: 0 is a legitimate cell number / count / coordinate, and `if dic[key]:` drops it
        try:
            tguards = []
            for p_ in pq.PEval().run(fd):
                for e in p_.effects:
                    if e.kind != 'attr':
                        continue
                    for c_, t_ in e.conds:
                        if t_ and (pq.call_named(c_, "getitem") or pq.call_named(c_, ".get")) and len(c_[2]) >= 2 and c_[2][0] == ('sym', 'dic') and \
                                pq.mentions(e.val, lambda y: y == c_):
                            tguards.append(f"{e.target} <- {_show(c_)[:40]}")
            rep.check(not tguards, "R13.b", rel, f"{cls}.from_dict", "no restored value is guarded by its own truth value (zero is a value, not an absence)",
                      f"{sorted(set(tguards))[:2]}: a stored 0 (cell 0, the top-left cell) is not restored", line=fd.lineno, firm=True)
        except Undecided as ex:
            rep.undecided("R13.b", rel, f"{cls}.from_dict", "no restored value is guarded by its own truth value", str(ex), line=fd.lineno)
        rep.check(rkeys <= set(wkeys), "R13.b", rel, f"{cls}.from_dict", "keys read are written by to_dict",
                  f"read but not written: {sorted(rkeys - set(wkeys))}", line=fd.lineno)
        rep.check(set(wkeys) <= rkeys, "R13.b", rel, f"{cls}.to_dict", "keys written are restored by from_dict",
                  f"written but not read: {sorted(set(wkeys) - rkeys)}", line=td.lineno)
        names = {a.lstrip("_") for a in declared}
        # writer: key <- same-named attribute
        for k, v in sorted(wkeys.items()):
            src = attr_name(v)
            okk = src is None or src not in names or src == k
            rep.check(okk, "R13.b", rel, f"{cls}.to_dict", f"key '{k}' holds the same-named attribute",
                      f"holds `{ast.unparse(v)}`", line=td.lineno)
        # reader: attribute <- same-named key, attribute declared
        for n in ast.walk(fd):
            if isinstance(n, ast.Assign) and isinstance(n.targets[0], ast.Attribute) and isinstance(n.targets[0].value, ast.Name) \
                    and n.targets[0].value.id not in ("self", "cls"):
                attr = n.targets[0].attr
                rep.check(attr in declared, "R13.b", rel, f"{cls}.from_dict", f"restored attribute `{attr}` is declared by __init__",
                          f"`{attr}` is not an attribute of {cls}: the value is stored where nothing reads it", line=n.lineno)
                key = key_of(n.value, fd)
                if key is not None:
                    okk = key not in names or key == attr.lstrip("_")
                    rep.check(okk, "R13.b", rel, f"{cls}.from_dict", f"attribute `{attr}` restored from key '{attr.lstrip('_')}'",
                              f"restored from key '{key}'", line=n.lineno)
    # ---------------- R13.c clone / dtype / clip ---------------------------------------------------------------------------------
    for cls in ("Grid", "Catchment"):
        cl = mod.func(f"{cls}.clone")
        dc = [n for n in ast.walk(cl) if isinstance(n, ast.Call) and dotted(n.func) in ("copy.deepcopy", "deepcopy")]
        ret = [n for n in cl.body if isinstance(n, ast.Return)]
        okc = len(dc) == 1 and ast.unparse(dc[0].args[0]) == "self" and ret and isinstance(ret[-1].value, ast.Name)
        if okc:
            nm = ret[-1].value.id
            okc = any(isinstance(s, ast.Assign) and isinstance(s.targets[0], ast.Name) and s.targets[0].id == nm and s.value is dc[0] for s in cl.body)
        if not okc:
            # alternative: a shallow copy followed, on every path, by an unconditional store of a fresh data buffer
            from ..effects import FnAnalysis as _FA
            sc = [n for n in ast.walk(cl) if isinstance(n, ast.Call) and dotted(n.func) in ("copy.copy",) and ast.unparse(n.args[0]) == "self"]
            if sc and cls == "Grid":
                fa = _FA(cl, {}, attr_roots={"self._data": "_data", "self.data": "_data"})
                for s_ in cl.body:
                    if isinstance(s_, ast.Assign) and isinstance(s_.targets[0], ast.Attribute) and s_.targets[0].attr in ("_data", "data") \
                            and not fa.val(s_.value):
                        okc = True
        rep.check(bool(okc), "R13.c", rel, f"{cls}.clone", "clone is a deep copy (copy.deepcopy(self), or a copy with an unconditional fresh data buffer)",
                  "a shallow copy shares the cell values with the original", line=cl.lineno)
    ds = mod.func("Grid.dtype.setter")
    from ..effects import FnAnalysis
    for s in ast.walk(ds):
        if isinstance(s, ast.Assign) and isinstance(s.targets[0], ast.Attribute) and s.targets[0].attr == "_data":
            fa = FnAnalysis(ds, {}, attr_roots={"self._data": "_data"})
            v = fa.val(s.value)
            rep.check(not v, "R13.c", rel, "Grid.dtype.setter", "dtype conversion stores a new buffer",
                      f"`{ast.unparse(s.value)}` may share the buffer of the old data (clones made through clone(dtype) would alias)", line=s.lineno)
    dset = mod.func("Grid.data.setter")
    for s in ast.walk(dset):
        if isinstance(s, ast.Assign) and isinstance(s.targets[0], ast.Attribute) and s.targets[0].attr == "_data":
            fa = FnAnalysis(dset, {"value": "value"}).run()
            v = fa.val(s.value)
            rep.check(not v, "R13.c", rel, "Grid.data.setter", "data setter stores a copy of the argument",
                      f"`{ast.unparse(s.value)[:60]}` may share the caller's buffer", line=s.lineno)
    cp = mod.func("Grid.clip")
    # on the evaluated paths: the data given to the clipped grid is self._data[r0:r1+1, c0:c1+1] and set_parent_attributes records
    # the same four bounds (compared as expressions, so `r0:r0+nrows` with nrows = r1-r0+1 is the same slice)
    cpaths = [p_ for p_ in pq.PEval().run(cp) if p_.how in ("return", "end")]
    okcl, detcl, undcl = bool(cpaths), "", None
    from ..formula import Canon as _Canon
    for p_ in cpaths:
        dat = [e for e in p_.effects if e.kind == 'attr' and e.target.endswith(".data") and pq.call_named(e.val, "getitem")]
        spa_ = [e for e in p_.effects if e.kind == 'call' and pq.call_named(e.val, ".set_parent_attributes")]
        if len(dat) != 1 or len(spa_) != 1:
            undcl = f"{len(dat)} data assignment(s) from a slice, {len(spa_)} set_parent_attributes call(s)"
            continue
        base, idx = dat[0].val[2]
        if not (pq.same(base, "self._data") or pq.same(base, "self.data")):
            okcl, detcl = False, f"the clipped data are taken from {_show(base)[:40]}"
            continue
        if not (idx[0] == 'tuple' and len(idx[1]) == 2 and all(pq.call_named(x, "slice") and x[2][2] == ('sym', 'None') for x in idx[1])):
            undcl = f"index form {_show(idx)[:80]}"
            continue
        rec = spa_[0].val[2][2:] if len(spa_[0].val[2]) >= 6 else None
        if rec is None or len(rec) != 4:
            undcl = "arguments of set_parent_attributes"
            continue
        cn_ = _Canon()
        try:
            want = [cn_.ratio(idx[1][0][2][0]), cn_.ratio(idx[1][0][2][1]) - 1, cn_.ratio(idx[1][1][2][0]), cn_.ratio(idx[1][1][2][1]) - 1]
            got_ = [cn_.ratio(x) for x in rec]
        except Exception as ex:
            undcl = f"bounds outside the arithmetic vocabulary ({ex})"
            continue
        if want != got_:
            okcl, detcl = False, f"slice rows {want[0]}..{want[1]}, columns {want[2]}..{want[3]}; recorded {[str(x) for x in got_]}"
    # georeferencing of the clipped grid: its lower-left corner is the corner of the parent's cell found by coord2cell (centre from
    # cell2coord minus half a cell); recomputing it with Python's float floor division does not agree with the kernel's
    # floor((x - xll)/csz) on cell boundaries of non-dyadic cell sizes
    for p_ in cpaths:
        pool_ = [v for v in p_.env.values() if isinstance(v, tuple)] + [e.val for e in p_.effects if e.val is not None] + ([p_.value] if isinstance(p_.value, tuple) else [])
        for g_ in pq.find(('tuple', tuple(pool_)), lambda y: pq.call_named(y, "f:Grid")):
            for kw_ in ("xllcorner", "yllcorner"):
                v_ = pq.kw_of(g_, kw_)
                if v_ is None:
                    continue
                from_cell = bool(pq.find(v_, lambda y: pq.call_named(y, ".cell2coord")))
                floored = bool(pq.find(v_, lambda y: pq.call_named(y, "floordiv") or pq.call_named(y, "mod") or pq.call_named(y, "floor") or pq.call_named(y, "py.round") or pq.call_named(y, "round")))
                if floored and not from_cell:
                    rep.violation("R13.c", rel, "Grid.clip", f"`{kw_}` of the clipped grid = corner of the parent's cell returned by coord2cell (cell2coord - cellsize/2)",
                                  f"recomputed as {_show(v_)[:110]}: float floor division / rounding disagrees with the kernel on cell boundaries", line=cp.lineno)
                elif from_cell:
                    rep.proved("R13.c", rel, "Grid.clip", f"`{kw_}` of the clipped grid = corner of the parent's cell returned by coord2cell (cell2coord - cellsize/2)", line=cp.lineno)
                else:
                    rep.undecided("R13.c", rel, "Grid.clip", f"`{kw_}` of the clipped grid = corner of the parent's cell returned by coord2cell (cell2coord - cellsize/2)",
                                  _show(v_)[:110], line=cp.lineno)
        break
    if undcl and okcl:
        rep.undecided("R13.c", rel, "Grid.clip", "parent bookkeeping records the row/column bounds of the slice", undcl, line=cp.lineno)
    else:
        rep.check(okcl, "R13.c", rel, "Grid.clip", "parent bookkeeping records the row/column bounds of the slice [r0:r1+1, c0:c1+1] of self._data", detcl, line=cp.lineno)
    # clip finds its corner cells with coord2cell: the clauses of C07 about that kernel and its wrapper are obligations here too
    from ..core import borrow
    nb_ = borrow(rep, "C07", "R13.e", "Grid.clip's corner lookup: the coord2cell kernel and wrapper clauses decided for C07 (inside test, numbering, -1 outside)",
                 lambda e: (e.func or "") in ("c_coord2cell", "coord2cell", "Grid.coord2cell") or "coord2cell" in (e.construct or ""))
    rep.floor("coord2cell clauses taken over from C07", nb_, 8)
    return EXPLANATION


def raises_in(ifnode):
    return any(isinstance(x, ast.Raise) for x in ast.walk(ifnode))


def attr_name(v):
    """self.name / self._name / list(self._name) / self.flowdir.to_dict() -> 'name'"""
    if isinstance(v, ast.Call) and v.args and dotted(v.func) in ("list", "str", "int", "float", "np.array"):
        return attr_name(v.args[0])
    if isinstance(v, ast.Call) and isinstance(v.func, ast.Attribute) and v.func.attr in ("to_dict", "tolist", "copy"):
        return attr_name(v.func.value)
    d = dotted(v)
    if d and d.startswith("self.") and d.count(".") == 1:
        return d.split(".")[1].lstrip("_")
    return None


def key_of(v, fdef):
    """dic["key"] possibly wrapped, or a local name assigned from such an expression"""
    for n in ast.walk(v):
        if isinstance(n, ast.Subscript) and isinstance(n.slice, ast.Constant) and isinstance(n.slice.value, str) and \
                isinstance(n.value, ast.Name) and n.value.id == "dic":
            return n.slice.value
    if isinstance(v, ast.Name):
        for s in ast.walk(fdef):
            if isinstance(s, ast.Assign) and isinstance(s.targets[0], ast.Name) and s.targets[0].id == v.id:
                return key_of(s.value, fdef) if not isinstance(s.value, ast.Name) else None
    return None
