"""C01 -- every transform is invertible on its domain (structural clauses, DESIGN.md section 5/C01).
C02 shares the extraction (see c02.py)."""
import ast
import json
import os
import subprocess

from ..core import AnalysisError
from ..pyfront import Mod, dotted, const_value
from .. import tmethods, formula as F
from ..formula import Ratio, Undecided

EXPLANATION = (
    "Each Transform class of stat/transform.py is abstractly evaluated into guarded closed forms (parameter "
    "predicates, mask side, expression of the data variable).  Decided for every parameter value and every x: "
    "sibling methods select the same branches, parameter-only divisors cannot vanish on the declared bounds "
    "refined by the branch predicate, every name is bound, the inner BoxCox2 of delegating classes is "
    "re-synchronised with the right parameter order before use, and the normalised operation chain of _backward "
    "is the exact inverse of the chain of _forward (affine maps, powers, log/exp, sinh/arcsinh, odd extension). "
    "Floating-point accuracy (the 1e-6 of the property) is not decided.")

CATALOGUE = ["Identity", "Logit", "Log", "BoxCox2", "BoxCox1lam", "BoxCox1nu", "BoxCox2sym", "YeoJohnson",
             "Reciprocal", "Softmax", "Sinh", "LogSinh", "Manly"]
# classes whose formulas are outside the Chain vocabulary (x occurs twice / row sums): only R01.a-d,f apply
OUTSIDE_CHAIN = {"LogSinh": "the data variable occurs twice (w + log((1-exp(-2w))/2))", "Softmax": "row sums"}
# symbols known to be positive / non-zero, with the reason (reviewed)
POSITIVE_SYMS = {
    "EPS": "module constant 1e-10",
}
METHODS = ("_forward", "_backward", "_jacobian")


def bounds_of(tc, classes):
    """symbol -> (min Expr-ish number or None, max ...) from the Vector literals of the constructor"""
    out = {}
    for decl in (tc.params, tc.constants):
        for i, n in enumerate(decl.names):
            lo = const_num(decl.mins[i]) if i < len(decl.mins) else None
            hi = const_num(decl.maxs[i]) if i < len(decl.maxs) else None
            lo_sym = sym_name(decl.mins[i]) if i < len(decl.mins) else None
            out[n] = (lo, hi, lo_sym)
    return out


def const_num(node):
    v = const_value(node)
    if isinstance(v, (int, float)):
        return float(v)
    d = dotted(node)
    if d in ("np.inf", "math.inf"):
        return float("inf")
    if isinstance(node, ast.UnaryOp) and isinstance(node.op, ast.USub):
        d = dotted(node.operand)
        if d in ("np.inf", "math.inf"):
            return float("-inf")
    if d == "EPS":
        return 1e-10
    return None


def sym_name(node):
    return node.id if isinstance(node, ast.Name) else None


def param_divisors(e, acc):
    """collect parameter-only divisors: ('div', a, b) with b free of x, and negative literal powers"""
    if not isinstance(e, tuple) or not e:
        return acc
    if e[0] == 'div' and not F.contains_x(e[2]):
        acc.append(e[2])
    if e[0] == 'pow' and not F.contains_x(e[1]) and e[2][0] in ('num', 'neg'):
        try:
            c = F.to_ratio(e[2])
            if c.is_const() and c.cval() < 0:
                acc.append(e[1])
        except Undecided:
            pass
    for c in F.kids(e):
        param_divisors(c, acc)
    return acc


def nonzero(div, conds, bounds, ctor_defaults):
    """(ok, why) : the parameter-only divisor cannot be zero"""
    try:
        r = F.to_ratio(div)
    except Undecided as ex:
        return None, f"outside vocabulary: {ex}"
    n = r.n
    syms = sorted(n.symbols())
    if not syms:
        return (n.cval() != 0), "numeric constant"
    # product of single symbols / atoms: each factor must be non-zero
    if len(n.t) == 1:
        (m, c), = n.t.items()
        why = []
        for s_, e_ in m:
            ok, w = sym_nonzero(s_, conds, bounds, ctor_defaults)
            if not ok:
                return False, w
            why.append(w)
        return True, "; ".join(why)
    # affine in one symbol p:  a*p + c
    if len(syms) == 1 or all(s_.startswith("⟨") for s_ in syms[1:]):
        pass
    for p_ in syms:
        sp = n.split_linear(p_)
        if sp is None:
            continue
        A, B = sp
        if not A.is_const() or A.cval() == 0:
            continue
        # guards of the form |inner| > t or not close(inner, 0) with inner proportional to n
        for cnd in conds:
            inner = None
            if cnd[0] in ('absgt', 'absge'):
                t = cnd[2]
                tpos = (t.is_const() and t.cval() >= 0 and (cnd[0] == 'absgt' or t.cval() > 0)) or \
                    (not t.is_const() and all(x in POSITIVE_SYMS for x in t.symbols()) and len(t.n.t) == 1)
                if tpos:
                    inner = cnd[1]
            elif cnd[0] == 'not' and cnd[1][0] == 'close':
                inner = cnd[1][1]
            elif cnd[0] == 'not' and cnd[1][0] == 'eq':
                inner = cnd[1][1]
            if inner is not None and proportional(inner, Ratio(n)):
                return True, f"excluded by the branch predicate {tmethods.pred_text(cnd)}"
        if B.is_const():
            root = -B.cval() / A.cval()
            lo, hi, _ = bounds.get(p_, (None, None, None))
            if lo is not None and float(root) < lo:
                return True, f"root {p_}={root} below the declared minimum {lo}"
            if hi is not None and float(root) > hi:
                return True, f"root {p_}={root} above the declared maximum {hi}"
            return False, f"vanishes at {p_} = {root}, inside the declared bounds [{lo}, {hi}] and not excluded by the branch predicate"
    return None, "divisor form outside vocabulary"


def proportional(a, b):
    """ratio a = k * ratio b for a non-zero constant k"""
    if b.is_zero() or a.is_zero():
        return False
    P, Q = a.n * b.d, b.n * a.d          # a = k b  <=>  P = k Q
    if set(P.t) != set(Q.t):
        return False
    ks = {P.t[m] / Q.t[m] for m in P.t}
    return len(ks) == 1 and next(iter(ks)) != 0


def sym_nonzero(s_, conds, bounds, ctor_defaults):
    if s_.startswith("⟨exp("):
        return True, f"{s_} is an exponential (> 0)"
    if s_ in POSITIVE_SYMS:
        return True, f"{s_}: {POSITIVE_SYMS[s_]}"
    if s_ in bounds:
        lo, hi, losym = bounds[s_]
        if lo is not None and lo > 0:
            return True, f"{s_} >= {lo} > 0 (declared minimum)"
        if hi is not None and hi < 0:
            return True, f"{s_} <= {hi} < 0"
        if losym is not None and ctor_defaults.get(losym) is not None and ctor_defaults[losym] > 0:
            return True, f"{s_} >= {losym} (constructor argument, default {ctor_defaults[losym]} > 0)"
        for cnd in conds:
            if cnd[0] in ('absgt', 'absge') and proportional(cnd[1], Ratio.sym(s_)):
                return True, f"excluded by {tmethods.pred_text(cnd)}"
            if cnd[0] == 'not' and cnd[1][0] in ('close', 'eq') and proportional(cnd[1][1], Ratio.sym(s_)):
                return True, f"excluded by {tmethods.pred_text(cnd)}"
        return False, f"{s_} may be 0: declared bounds [{lo}, {hi}] contain 0 and no branch predicate excludes it"
    if s_ == "basefactor":
        return True, "basefactor = log(base) or 1: non-zero for any base other than 1 (reviewed)"
    return False, f"nothing known about {s_}"


def ctor_defaults_of(tc):
    init = tc.methods.get("__init__")
    out = {}
    if init is None:
        return out
    a = init.args
    pos = a.args
    for x, d in zip(pos[len(pos) - len(a.defaults):], a.defaults):
        out[x.arg] = const_num(d)
    return out


def numpy_names(rep):
    """names exported by the repository interpreter's numpy / math (library introspection, no repository code)"""
    cache = os.path.join(os.path.dirname(os.path.dirname(os.path.abspath(__file__))), "..", ".cache", "npnames.json")
    cache = os.path.abspath(cache)
    if os.path.exists(cache):
        try:
            return json.load(open(cache))
        except Exception:
            pass
    for py in ("/venv/bin/python", "python3"):
        try:
            out = subprocess.run([py, "-c", "import numpy, math, json; print(json.dumps({'np': dir(numpy), 'math': dir(math)}))"],
                                 capture_output=True, text=True, timeout=60)
            if out.returncode == 0:
                d = json.loads(out.stdout)
                try:
                    os.makedirs(os.path.dirname(cache), exist_ok=True)
                    json.dump(d, open(cache, "w"))
                except Exception:
                    pass
                return d
        except Exception:
            continue
    rep.notes.append("numpy not importable by any interpreter: attribute-existence rule skipped")
    return None


def extract(rep, want=METHODS):
    """-> (mod, classes, table: class -> method -> (cases | Undecided message, issues))"""
    mod = Mod(rep.repo, "stat/transform.py")
    classes = tmethods.load_classes(mod)
    table = {}
    for name in CATALOGUE:
        if name not in classes:
            raise AnalysisError(f"stat/transform.py: class {name} of the catalogue not found")
        tc = classes[name]
        table[name] = {}
        for m in want:
            if m not in tc.methods:
                raise AnalysisError(f"stat/transform.py: {name}.{m} not found")
            ev = tmethods.MethodEval(classes, tc)
            try:
                cs = ev.cases(m)
                table[name][m] = ([c for c in cs if c.shortcut is None], ev.issues, None)
                table[name]["shortcuts:" + m] = [c for c in cs if c.shortcut is not None]
            except Undecided as ex:
                table[name][m] = (None, ev.issues, str(ex))
    return mod, classes, table


def shortcut_agreement(rep, rule, name, file, m, general, shorts, line):
    """a value returned early under `if mask.all()` equals what the general program computes for an element under that mask"""
    for sc in shorts:
        pol, mexpr, sline = sc.shortcut
        for g in general:
            if not tmethods.consistent(list(sc.conds) + list(g.conds)):
                continue
            if any(tmethods.mask_equal(m1, m2) and p1 != p2 for p1, m1 in sc.masks for p2, m2 in g.masks if m1 is not None and m2 is not None):
                continue
            cons = f"{name}.{m}: early return under an all-elements test [{case_text(sc)}] agrees with the general branch [{case_text(g)}]"
            same = None
            for cmp_ in (lambda a, b: F.to_ratio(a) == F.to_ratio(b), lambda a, b: F.to_mono(a).equal(F.to_mono(b)), lambda a, b: F.to_chain(a) == F.to_chain(b)):
                try:
                    same = bool(cmp_(sc.expr, g.expr))
                    break
                except Undecided:
                    continue
            if same is None and sc.expr == g.expr:
                same = True
            if same is None:
                rep.undecided(rule, file, f"{name}.{m}", cons, "the two expressions could not be compared", line=sline)
            else:
                rep.check(same, rule, file, f"{name}.{m}", cons, f"early: {F.show(sc.expr)[:100]} ; general: {F.show(g.expr)[:100]}", line=sline, firm=True)


def same_case(a, b):
    if len(a.conds) != len(b.conds) or tuple(p for p, _ in a.masks) != tuple(p for p, _ in b.masks):
        return False
    return all(any(tmethods.pred_equal(x, y) for y in b.conds) for x in a.conds)


def branch_agreement(rep, rule, name, file, ma, ca, mb, cb, line):
    """every case of method a has exactly one partner in method b and vice versa"""
    ok = True
    for x in ca:
        hits = [y for y in cb if same_case(x, y)]
        if len(hits) != 1:
            ok = False
            rep.violation(rule, file, f"{name}.{mb}", f"{name}: branch [{case_text(x)}] of {ma}",
                          f"{mb} has {len(hits)} branch(es) with the same predicate; its branches are: " +
                          " | ".join(case_text(y) for y in cb), line=line)
    for y in cb:
        if not any(same_case(x, y) for x in ca):
            ok = False
            rep.violation(rule, file, f"{name}.{mb}", f"{name}: branch [{case_text(y)}] of {mb}",
                          f"no branch of {ma} has this predicate; {ma} has: " + " | ".join(case_text(x) for x in ca), line=line)
    if ok:
        rep.proved(rule, file, f"{name}.{mb}", f"{name}: {ma} and {mb} select the same {len(ca)} branch(es)", line=line)
    return ok


def case_text(c):
    t = " & ".join(tmethods.pred_text(p) for p in c.conds) or "always"
    if c.masks:
        t += " ; mask " + ",".join("+" if p else "-" for p, _ in c.masks)
    return t


def run(rep):
    file = "stat/transform.py"
    rep.rule("R01.a", "_forward and _backward select the same branches from the same parameter predicates")
    rep.rule("R01.b", "parameter-only divisors cannot vanish on the declared bounds refined by the branch predicate")
    rep.rule("R01.c", "every name read in a transform method is bound; every np./math. attribute exists")
    rep.rule("R01.d", "delegating classes re-synchronise the inner BoxCox2 (right order) before every use")
    rep.rule("R01.e", "normalised chain of _backward == inverse of the normalised chain of _forward, branch by branch")
    rep.rule("R01.f", "public forward/backward/jacobian only cast the result of the same-named internal method")
    rep.rule("R01.g", "transforms outside the chain vocabulary (LogSinh, Softmax): round-trip identities of the extracted formulas by computer algebra")
    rep.rule("R01.h", "no avoidable overflow: an exp / sinh / cosh intermediate whose argument grows without bound is accepted only when the result overflows with it or the infinity propagates to the right limit")
    rep.assume("exact real arithmetic: floating-point accuracy of the round trip is not decided (except the overflow clause R01.h)")
    mod, classes, table = extract(rep)
    rep.unit(f"{file}: {len(CATALOGUE)} transform classes x {len(METHODS)} methods")
    npn = numpy_names(rep)
    npairs = 0
    # parameter / constant vectors are per-instance state: a module-level Vector handed to the base constructor is one object shared by
    # every instance, so configuring one transform silently reconfigures the others (forward on A, set B, backward on A is no inverse)
    modvecs = {}
    for st in mod.tree.body:
        if isinstance(st, ast.Assign) and len(st.targets) == 1 and isinstance(st.targets[0], ast.Name) and isinstance(st.value, ast.Call) and \
                dotted(st.value.func) in ("Vector", "containers.Vector"):
            modvecs[st.targets[0].id] = st.lineno
    base_init = classes["Transform"].methods.get("__init__") if "Transform" in classes else None
    kept_as_given = set()
    if base_init is not None:
        for a_ in ast.walk(base_init):
            if isinstance(a_, ast.Assign) and len(a_.targets) == 1 and dotted(a_.targets[0]) in ("self._params", "self._constants", "self.params", "self.constants") and \
                    isinstance(a_.value, ast.Name) and a_.value.id in ("params", "constants"):
                kept_as_given.add(a_.value.id)
    for name in CATALOGUE:
        tc = classes[name]
        for slot in ("params", "constants"):
            if slot not in kept_as_given:
                continue                 # the base constructor copies what it is given: sharing the argument is harmless
            decl = getattr(tc, slot)
            node = getattr(decl, "node", None)
            src = node
            if isinstance(node, ast.Name):
                init = tc.methods.get("__init__")
                local = [a_ for a_ in ast.walk(init) if isinstance(a_, ast.Assign) and len(a_.targets) == 1 and isinstance(a_.targets[0], ast.Name) and a_.targets[0].id == node.id] if init else []
                src = local[-1].value if local else node
            if isinstance(src, ast.Name) and src.id in modvecs:
                rep.violation("R01.d", file, f"{name}.__init__", f"{name}: `{slot}` vector is created per instance",
                              f"the module-level vector `{src.id}` (line {modvecs[src.id]}) is handed to the base constructor uncopied: all instances of the classes using it share "
                              "one object, and setting it on one transform changes the formulas of the others", line=tc.cdef.lineno, firm=True)
            elif decl.known:
                rep.proved("R01.d", file, f"{name}.__init__", f"{name}: `{slot}` vector is created per instance", line=tc.cdef.lineno)
    for name in CATALOGUE:
        tc = classes[name]
        line = tc.cdef.lineno
        bounds = bounds_of(tc, classes)
        cdef = ctor_defaults_of(tc)
        res = table[name]
        # R01.c names
        for m in METHODS:
            cs, issues, und = res[m]
            mline = tc.methods[m].lineno
            for i in issues:
                if i.rule == "R01.d":
                    rep.violation("R01.d", file, f"{name}.{m}", i.construct, i.detail, line=i.line)
            if und and und.startswith("free name"):
                rep.violation("R01.c", file, f"{name}.{m}", f"{name}.{m}: {und}",
                              "a local name is read on a path where it was never assigned", line=mline)
            elif und and und.startswith("call np.") or (und and und.startswith("attribute np.")):
                rep.violation("R01.c", file, f"{name}.{m}", f"{name}.{m}: {und}", "unknown numpy function", line=mline)
            if npn is not None:
                for n in ast.walk(tc.methods[m]):
                    if isinstance(n, ast.Attribute) and isinstance(n.value, ast.Name) and n.value.id in ("np", "math"):
                        if n.attr not in npn[n.value.id]:
                            rep.violation("R01.c", file, f"{name}.{m}", f"{name}.{m}: {n.value.id}.{n.attr}",
                                          f"{n.value.id} has no attribute `{n.attr}`", line=n.lineno)
                        else:
                            rep.proved("R01.c", file, f"{name}.{m}", f"{name}.{m}: {n.value.id}.{n.attr}", line=n.lineno)
        fw, bw = res["_forward"], res["_backward"]
        if fw[0] is None or bw[0] is None:
            if name in OUTSIDE_CHAIN:
                rep.notes.append(f"{name}: formulas outside the chain vocabulary ({OUTSIDE_CHAIN[name]}); R01.a/b/e not applied")
            else:
                und = fw[2] or bw[2]
                if not (und.startswith("free name") or und.startswith("call np.")):
                    rep.undecided("R01.e", file, name, f"{name}: extraction", und, line=line)
            continue
        # R01.a
        branch_agreement(rep, "R01.a", name, file, "_forward", fw[0], "_backward", bw[0], line)
        # a nan-mask inside _forward may only cut where the formula itself is undefined: its threshold is the boundary of the first log / power
        # argument, up to the EPS constant - a mask at a constructor option (mininu) returns NaN on points the inverse would recover
        for c in (fw[0] if name not in OUTSIDE_CHAIN else []):          # (the transforms outside the chain vocabulary are modelled by computer algebra, R01.g)
            for dcond in c.domains:
                cons = f"{name}._forward [{case_text(c)}]: nan-mask {F.show(dcond)} cuts only where the formula is undefined"
                try:
                    from . import c02 as _c02
                    okd, detd = _c02.domain_ok(dcond, F.to_chain(c.expr), None, tol={"EPS"})
                except Undecided as ex:
                    okd, detd = None, str(ex)
                if okd is None:
                    rep.undecided("R01.e", file, f"{name}._forward", cons, detd, line=tc.methods["_forward"].lineno)
                else:
                    rep.check(okd, "R01.e", file, f"{name}._forward", cons, detd + ("" if okd else ": forward is NaN on a band of its domain while _backward still inverts the unmasked formula"),
                              line=tc.methods["_forward"].lineno)
        for m_ in ("_forward", "_backward"):
            shortcut_agreement(rep, "R01.a", name, file, m_, res[m_][0], res.get("shortcuts:" + m_, []), line)
        # R01.b
        for m in METHODS:
            cs = res[m][0]
            if cs is None:
                continue
            for c in cs:
                for dv in param_divisors(c.expr, []):
                    ok, why = nonzero(dv, c.conds, bounds, cdef)
                    cons = f"{name}.{m} [{case_text(c)}]: / {F.show(dv)}"
                    if ok is None:
                        rep.undecided("R01.b", file, f"{name}.{m}", cons, why, line=tc.methods[m].lineno)
                    else:
                        rep.check(ok, "R01.b", file, f"{name}.{m}", cons, why, line=tc.methods[m].lineno)
        # R01.d binding order of the sync list
        for m in METHODS:
            for st in ast.walk(tc.methods[m]):
                if isinstance(st, ast.Assign) and len(st.targets) == 1:
                    d = dotted(st.targets[0])
                    if d and d.startswith("self.") and d.endswith(".params.values"):
                        attr = d.split(".")[1]
                        inner = tc.inner.get(attr)
                        if inner not in classes:
                            continue
                        ev = tmethods.MethodEval(classes, tc)
                        env0 = {}
                        for prev in tc.methods[m].body:        # local definitions preceding the store (top level of the method)
                            if prev is st:
                                break
                            if isinstance(prev, ast.Assign) and len(prev.targets) == 1 and isinstance(prev.targets[0], ast.Name):
                                try:
                                    env0[prev.targets[0].id] = ev.builder.build(prev.value, env0)
                                except Undecided:
                                    pass
                        try:
                            v = ev.builder.build(st.value, env0)
                        except Undecided as ex:
                            rep.undecided("R01.d", file, f"{name}.{m}", f"{name}.{m}: sync list", str(ex), line=st.lineno)
                            continue
                        want = classes[inner].params.names
                        got = [x[1] if x[0] == 'sym' else F.show(x) for x in v[1]] if v[0] == 'tuple' else None
                        rep.check(got == want, "R01.d", file, f"{name}.{m}",
                                  f"{name}.{m}: self.{attr}.params.values = [{', '.join(got or ['?'])}]",
                                  f"inner {inner} declares parameters {want}", line=st.lineno)
        # R01.e
        if name in OUTSIDE_CHAIN:
            continue
        for c in fw[0]:
            partner = [y for y in bw[0] if same_case(c, y)]
            if len(partner) != 1:
                continue
            cons = f"{name} [{case_text(c)}]: backward∘forward"
            try:
                fc = F.to_chain(c.expr)
                bc = F.to_chain(partner[0].expr)
                inv = F.inverse(fc)
            except Undecided as ex:
                rep.undecided("R01.e", file, name, cons, str(ex), line=line)
                continue
            npairs += 1
            ok = F.ops_equal(bc, inv)
            rep.check(ok, "R01.e", file, name, cons,
                      f"forward {F.show_chain(fc)}; inverse {F.show_chain(inv)}; backward {F.show_chain(bc)}", line=line)
    rep.floor("inverse pairings decided", npairs, 23)
    # R01.g
    from .. import symx, pq
    nalg = 0
    for name in OUTSIDE_CHAIN:
        tc = classes[name]
        line = tc.methods["_forward"].lineno
        try:
            clauses = symx.class_model((rep.repo, name), tc.methods, pq)
        except Undecided as ex:
            rep.undecided("R01.g", file, name, f"{name}: computer-algebra model", str(ex), line=line)
            continue
        for clause, ok, det in clauses:
            if "jacobian" in clause.lower():
                continue
            nalg += 1
            cons = f"{name}: {clause}"
            if ok is None:
                rep.undecided("R01.g", file, name, cons, det, line=line)
            else:
                rep.check(ok, "R01.g", file, name, cons, det, line=line)
    rep.floor("computer-algebra round-trip clauses", nalg, 14)
    # R01.h
    nov = 0
    for name in CATALOGUE:
        tc = classes[name]
        line = tc.methods["_forward"].lineno
        try:
            clauses = list(symx.overflow_clauses(tc.methods["_forward"], tc.methods["_backward"], pq))
        except Undecided as ex:
            rep.notes.append(f"R01.h: {name} not modelled ({str(ex)[:60]})")
            continue
        nov += 1
        if not clauses:
            rep.proved("R01.h", file, name, f"{name}: no exponential intermediate with an argument unbounded above on the domain", line=line)
        for clause, ok, det in clauses:
            rep.check(ok, "R01.h", file, name, f"{name}: {clause}", det, line=line)
    rep.floor("classes modelled for overflow", nov, 5)
    # R01.f public wrappers
    base = mod.klass("Transform")
    for pub in ("forward", "backward", "jacobian"):
        f = mod.func(f"Transform.{pub}")
        ok, det = False, "body is not `return dutils.cast(arg, self._%s(arg))`" % pub
        argn = f.args.args[1].arg if len(f.args.args) > 1 else None
        # decided on the evaluated return value (a named intermediate is the same wrapper)
        wpaths_ = [p_ for p_ in pq.PEval().run(f) if p_.how == "return"]
        want_ = ('call', '.cast', (('sym', 'dutils'), ('sym', argn), ('call', '._' + pub, (('sym', 'self'), ('sym', argn)))))
        want2_ = ('call', 'f:cast', (('sym', argn), ('call', '._' + pub, (('sym', 'self'), ('sym', argn)))))
        if argn and wpaths_ and all(pq.same(p_.value, want_) or pq.same(p_.value, want2_) for p_ in wpaths_):
            ok, det = True, ""
        elif wpaths_:
            det += f"; returns {F.show(wpaths_[0].value)[:80]}" if isinstance(wpaths_[0].value, tuple) else ""
        rep.check(ok, "R01.f", file, f"Transform.{pub}", f"Transform.{pub} wrapper", det, line=f.lineno)
    # dutils.cast: for an array input the result is the transformed array converted to the input's dtype, shape untouched
    dm = Mod(rep.repo, "data/dutils.py")
    cf = dm.funcs.get("cast")
    if cf is None:
        raise AnalysisError("data/dutils.py: cast not found")
    cpaths_ = [p_ for p_ in pq.PEval().run(cf) if p_.how == "return"]
    SHAPERS = ("squeeze", "ravel", "flatten", ".flatten", "reshape", ".reshape", "atleast_1d", "atleast_2d", "atleast_3d", "transpose", "attr:T", "getitem", "expand_dims")
    arr_paths, okc_, detc_ = 0, True, ""
    for p_ in cpaths_:
        v = p_.value
        if not pq.call_named(v, "astype"):
            continue
        arr_paths += 1
        inner = v[2][0]
        while pq.call_named(inner, "copy") or pq.call_named(inner, "array") or pq.call_named(inner, "asarray"):
            inner = inner[2][0]
        if inner != ('sym', cf.args.args[1].arg):
            bad_ = pq.find(v, lambda x: x[0] == 'call' and x[1] in SHAPERS)
            if bad_:
                okc_, detc_ = False, f"the array result passes through {bad_[0][1]}(): its shape is not the shape of the transformed array"
            else:
                okc_, detc_ = None, show(v)[:100]
    if okc_ is None or not arr_paths:
        rep.undecided("R01.f", "data/dutils.py", "cast", "array branch returns np.array(y).astype(dtype of x): shape untouched", detc_ or "array branch not found", line=cf.lineno)
    else:
        rep.check(okc_, "R01.f", "data/dutils.py", "cast", "array branch returns np.array(y).astype(dtype of x): shape untouched", detc_, line=cf.lineno, firm=True)
    return EXPLANATION
