"""C10 -- rank- and PIT-based forecast diagnostics depend only on ranks and stay in range (structural clauses)."""
import ast
import itertools

from ..core import AnalysisError
from ..cfront import strip, text
from .. import cq, pq, cnorm, ckern, ceval, xlayer, pyxread
from ..ceval import CEval, find_all, loop_parts, body_stmts, loop_var, stores_to
from ..formula import Canon, Ratio, Undecided, show, num, ExprBuilder
from ..fneval import FnEval
from ..pyfront import Mod, dotted, const_value
from .c04 import positive_ratio

EXPLANATION = (
    "c_ensrank's pooled-sort scan is treated as a finite-state transducer: for all 16 truth assignments of its four "
    "predicates (member of the first ensemble, new value, last of its tie block, block open) the symbolic update of "
    "(start, end, nties, sumrank) must equal the mid-rank reference of Weigel and Mason (2011) written in the "
    "checker; the pooled block is filled from both ensembles with exact index identities and sorted before the scan; "
    "F, the 0/0.5/1 mapping, the rank accumulation and the Python score (corr+1)/2 on argsort ranks are compared with "
    "their definitions; data values reach the outputs only through comparisons (explicit-flow check); the kernel's "
    "error code is tested.  PIT: closed form compared with (count + 1/2 - cst)/(nens + 1 - cst), a sign proof of "
    "0 <= PIT <= 1 for cst <= 1/2, strict increase in the count, and the pseudo flag equals its definition.  "
    "Cramer-von Mises: formula identity; Anderson-Darling: range/NaN/order checks dominate the logarithm, data are "
    "sorted first and copied by the wrapper, statistic assembled as -n + z/n.  qsort's tie placement and p-value "
    "tables are not decided.")


def run(rep):
    rep.rule("R10.a", "kernel error codes of ensrank / ad_test are tested and raised")
    rep.rule("R10.b", "ensrank: pooled fill indices, sort before scan, tie-block transducer == mid-rank reference, F / u / ranks formulas, data reach outputs only through comparisons")
    rep.rule("R10.c", "PIT closed form, 0 <= PIT <= 1 (sign proof), strictly increasing in the member count, pseudo flag predicate")
    rep.rule("R10.d", "Cramer-von Mises formula; Anderson-Darling guards dominate log, sorted and copied input, statistic -n + z/n")
    rep.rule("R10.e", "dscore = (corrcoef(rank(obs), rank(forecast))[0,1] + 1) / 2 with argsort ranks")
    rep.assume("qsort places tied members of the two ensembles in an unspecified order (run-time behaviour of libc): mid-rank under ties is decided for the scan logic only")
    K = ckern.analyze(rep.repo)
    if K["fns"].get("c_ensrank") is None:
        raise AnalysisError("stat/c_dscore.c: c_ensrank not found")
    fn = ckern.normalised(K, "c_ensrank", rep.repo)
    file = fn["file"]
    top = body_stmts(fn["body"])
    outer = [s_ for s_ in top if s_.get("kind") == "ForStmt" and stores_to(s_, "fmat")]
    if len(outer) != 1:
        raise AnalysisError(f"{file}: c_ensrank pair loop not found")
    outer = outer[0]
    r1 = cq.loop_range(outer, cq.preceding(top, outer))
    ostm = body_stmts(loop_parts(outer)[3])
    l2 = [s_ for s_ in ostm if s_.get("kind") == "ForStmt"]
    if len(l2) != 1 or r1 is None:
        raise AnalysisError(f"{file}: c_ensrank inner pair loop not found")
    l2 = l2[0]
    r2 = cq.loop_range(l2, cq.preceding(ostm, l2))
    if r2 is None:
        raise AnalysisError(f"{file}: c_ensrank inner pair loop bounds not recognised")
    i1, i2 = r1["var"], r2["var"]
    rep.check(cq.range_is(r1, "0", "nval-1") and cq.same_expr(r2["lo"], f"{i1}+1") and cq.same_expr(r2["hi"], "nval-1"), "R10.b", file, "c_ensrank",
              "pairs (i1, i2) with i2 > i1: each pair compared once", "", line=l2.get("_line"))
    pstm = body_stmts(loop_parts(l2)[3])
    qs = [s_ for s_ in pstm if s_.get("kind") == "CallExpr" and text(s_["inner"][0]) == "qsort"]
    if len(qs) != 1:
        raise AnalysisError(f"{file}: c_ensrank: qsort of the pooled block not found")
    qs = qs[0]
    pool = text(qs["inner"][1]).replace(" ", "")
    pre_sort, post_sort = pstm[:pstm.index(qs)], pstm[pstm.index(qs) + 1:]
    scan = [l for l in post_sort if l.get("kind") == "ForStmt" and find_all(l, lambda n: n.get("kind") == "CompoundAssignOperator")]
    if len(scan) != 1:
        raise AnalysisError(f"{file}: c_ensrank scan loop not found")
    scan = scan[0]
    rep.unit(f"{file}: c_ensrank (normalised: pair loops, pooled fill, qsort, tie-block scan, F/u/ranks tail)")

    # ---- pooled fill: every position p of the block holds member p of ensemble i1 (p < ncol) or member p - ncol of ensemble i2, tagged p
    fce = cq.evaluate(pre_sort)
    vals = [e for e in cq.stores(fce, pool) if e.op == "=" and e.idx[0] == 'tuple' and cq.same_expr(e.idx[1][1], "0")]
    tags = [e for e in cq.stores(fce, pool) if e.op == "=" and e.idx[0] == 'tuple' and cq.same_expr(e.idx[1][1], "1")]
    ranges = {}
    for l in [x for x in pre_sort if x.get("kind") == "ForStmt"]:
        lr_ = cq.loop_range(l, cq.preceding(pre_sort, l))
        if lr_:
            ranges[lr_["var"]] = lr_
    halves = {}
    det = []
    for e in vals:
        P = e.idx[1][0]
        v = e.loops[-1] if e.loops else None
        lr_ = ranges.get(v)
        half = None
        if cq.holds(e.conds, ('cmp', '<', P, ('sym', 'ncol')), True):
            half = "first"
        elif cq.excluded(e.conds, ('cmp', '<', P, ('sym', 'ncol')), True):
            half = "second"
        elif lr_ is not None and cq.range_is(lr_, "0", "ncol-1") and cq.same_expr(P, v):
            half = "first"
        elif lr_ is not None and cq.range_is(lr_, "0", "ncol-1") and cq.same_expr(P, f"ncol + {v}"):
            half = "second"
        if half is None or lr_ is None:
            det.append(f"store at position {show(P)} not classified")
            continue
        want = ('call', 'A:sim', (cq.parse(f"ncol*{i1} + PP", {"PP": P}),)) if half == "first" else ('call', 'A:sim', (cq.parse(f"ncol*{i2} + PP - ncol", {"PP": P}),))
        okv = cq.same_expr(e.val, want)
        tg = [t for t in tags if cq.same_expr(t.idx[1][0], P) and [(show(c), tt) for c, tt in t.conds] == [(show(c), tt) for c, tt in e.conds][:len(t.conds)]]
        okt = len(tg) >= 1 and all(cq.same_expr(t.val, P) for t in tg)
        # coverage of the half by the loop range
        if cq.same_expr(P, v):
            cover = cq.range_is(lr_, "0", "2*ncol-1") or (half == "first" and cq.range_is(lr_, "0", "ncol-1"))
        else:
            cover = cq.range_is(lr_, "0", "ncol-1")
        halves[half] = okv and okt and cover
        det.append(f"{half}: value {'ok' if okv else show(e.val)[:60]}, tag {'ok' if okt else 'differs'}, coverage {cover}")
    for half in ("first", "second"):
        rep.check(halves.get(half, False), "R10.b", file, "c_ensrank", f"pooled block, {half} half holds ensemble {'i1' if half == 'first' else 'i2'} member by member, tagged with its position (first ensemble iff tag < ncol)",
                  "; ".join(det)[:300], line=l2.get("_line"))
    qa = qs["inner"][1:]
    rep.check(cq.same_expr(qa[1], "2*ncol") and bool(vals), "R10.b", file, "c_ensrank", "pooled block of 2*ncol values sorted after the fill and before the scan", text(qa[1]), line=qs.get("_line"))

    # ---- scan transducer: state (start, end, nties, sumrank), predicates P1 first-ensemble, P2 new value, P3 last of block, P4 block open
    slr = cq.loop_range(scan, cq.preceding(post_sort, scan))
    sv = slr["var"] if slr else loop_var(scan)
    rep.check(cq.range_is(slr, "0", "2*ncol-1"), "R10.b", file, "c_ensrank", "scan visits the 2*ncol sorted values once", "", line=scan.get("_line"))
    sstm = body_stmts(loop_parts(scan)[3])
    V = ('call', 'A:' + pool, (('tuple', (('sym', sv), num(0))),))
    TAG = ('call', 'A:' + pool, (('tuple', (('sym', sv), num(1))),))
    STATE = ("start", "end", "nties", "sumrank")
    # the carried previous value: the scalar assigned the current value at the end of the body
    plain = cq.evaluate(sstm, oracle=lambda c: True if "ncol" in show(c) and sv in show(c) and "A:" not in show(c) else None)
    carried = set()
    for env_, _c, how in plain.finals:
        for k_, v_ in env_.items():
            if "[" not in k_ and k_ not in STATE and cq.same_expr(v_, V):
                carried.add(k_)
    if len(carried) != 1:
        raise AnalysisError(f"{file}: c_ensrank: previous-value variable of the scan not recognised ({sorted(carried)})")
    VP = carried.pop()

    def is_absdiff_with(e, other_is_prev):
        if not (e[0] == 'call' and e[1] == 'abs' and len(e[2]) == 1 and e[2][0][0] == 'sub'):
            return False
        a, b = e[2][0][1], e[2][0][2]
        for x, y in ((a, b), (b, a)):
            if cq.same_expr(x, V):
                isprev = y == ('sym', 'VP0')
                return isprev if other_is_prev else (not isprev and not cq.same_expr(y, V))
        return False
    nbad, ncomb = [], 0
    nund = []
    for P1, P2, P3, P4 in itertools.product([True, False], repeat=4):
        ncomb += 1

        def oracle(c, P1=P1, P2=P2, P3=P3, P4=P4):
            if c[0] in ('and', 'or', 'not'):
                from .c03 import _bool
                return _bool(c, oracle)
            if c[0] != 'cmp':
                return None
            op, a, b = c[1], c[2], c[3]
            if op in ('>', '>=') and not (a[0] == 'call' and a[1] == 'abs') and (b[0] == 'call' and b[1] == 'abs'):
                pass
            if cq.same_expr(a, TAG) and cq.same_expr(b, "ncol"):
                return {"<": P1, ">=": not P1}.get(op)
            if cq.same_expr(b, TAG) and cq.same_expr(a, "ncol"):
                return {">": P1, "<=": not P1}.get(op)
            if is_absdiff_with(a, True) and cq.same_expr(b, "eps"):
                return {">=": P2, "<": not P2}.get(op)
            if is_absdiff_with(b, True) and cq.same_expr(a, "eps"):
                return {"<=": P2, ">": not P2}.get(op)
            if is_absdiff_with(a, False) and cq.same_expr(b, "eps"):
                return {">=": P3, "<": not P3}.get(op)
            if is_absdiff_with(b, False) and cq.same_expr(a, "eps"):
                return {"<=": P3, ">": not P3}.get(op)
            sa, sb = show(a), show(b)
            if sb in ("0",) and op == ">=":
                if sa == "S0":
                    return P4
                if sa == sv:
                    return True          # start = j >= 0
                if sa in ("-1", "-(1)"):
                    return False
            if sb in ("0",) and op == "<" and sa == "S0":
                return not P4
            if sv in sa + sb and "ncol" in sa + sb and "A:" not in sa + sb:
                return True              # not the last element: the next value exists
            return None
        ce = CEval(oracle)
        ce.summarise_loops = True
        env = {"start": ('sym', 'S0'), "end": ('sym', 'E0'), "nties": ('sym', 'N0'), "sumrank": ('sym', 'R0'), VP: ('sym', 'VP0')}
        try:
            ce.run(sstm, env)
        except Undecided as ex:
            rep.undecided("R10.b", file, "c_ensrank", f"scan transducer {P1, P2, P3, P4}", str(ex), line=scan.get("_line"))
            continue
        fins = [f_ for f_ in ce.finals if f_[2] in ("end", "ContinueStmt")]
        if len(fins) != 1 or fins[0][1]:
            nund.append(f"{P1, P2, P3, P4}: undecided test {show(fins[0][1][0][0])[:80] if fins and fins[0][1] else len(fins)}")
            continue
        fenv = fins[0][0]
        S, E, N, R = (('sym', x) for x in ("S0", "E0", "N0", "R0"))
        J = ('sym', sv)
        open_ = P4
        if P1 and P2:
            S, E, N = J, J, num(1)
            open_ = True
        if open_ and not P2:
            E = ('add', E, num(1))
            if P1:
                N = ('add', N, num(1))
        if open_ and P3:
            R = ('add', R, ('mul', ('add', num(1), ('div', ('add', S, E), num(2))), N))
            S = num(-1)
        same = all(cq.same_expr(fenv.get(k_, ('sym', {"start": "S0", "end": "E0", "nties": "N0", "sumrank": "R0"}[k_])), w) for k_, w in (("start", S), ("end", E), ("nties", N), ("sumrank", R)))
        same = same and cq.same_expr(fenv.get(VP, num(0)), V)
        if not same:
            nbad.append(f"first-ensemble={P1}, new-value={P2}, last-of-block={P3}, block-open={P4}: "
                        f"start={show(fenv.get('start', S))}, end={show(fenv.get('end', E))}, nties={show(fenv.get('nties', N))}, sumrank={show(fenv.get('sumrank', R))[:60]}")
    if nund and not nbad:
        # a test the oracle cannot decide is "not understood", never a wrong rank
        rep.undecided("R10.b", file, "c_ensrank", f"tie-block scan equals the mid-rank reference for all {ncomb} predicate assignments (tests compare |value - neighbour| with eps; the previous value is carried)",
                      " | ".join(nund[:3]), line=scan.get("_line"))
    else:
        rep.check(not nbad, "R10.b", file, "c_ensrank", f"tie-block scan equals the mid-rank reference for all {ncomb} predicate assignments (tests compare |value - neighbour| with eps; the previous value is carried)",
                  " | ".join(nbad[:3]), line=scan.get("_line"))
    # state before the scan
    ice = cq.evaluate(cq.preceding(post_sort, scan))
    ienv = ice.finals[-1][0] if ice.finals else {}
    rep.check(all(k_ in ienv for k_ in STATE) and cq.same_expr(ienv["sumrank"], "0") and cq.same_expr(ienv["start"], "-1") and cq.same_expr(ienv["nties"], "0"), "R10.b", file, "c_ensrank",
              "scan starts with no open block and a zero rank sum", "", line=scan.get("_line"))
    # ---- tail: F, u, ranks
    tail = post_sort[post_sort.index(scan) + 1:]
    n_ = "ncol"
    FEXPR = f"(SR - ({n_} + 1)*{n_}/2)/({n_}*{n_})"
    res = {}
    for lab, lowt, hight in (("low", True, False), ("mid", False, False), ("high", False, True)):
        def oracle(c, lowt=lowt, hight=hight):
            if c[0] == 'cmp' and c[1] in ('<', '<=', '>', '>='):
                a, b, op = c[2], c[3], c[1]
                try:
                    cn_ = Canon()
                    fa = cn_.ratio(a) == cn_.ratio(cq.parse(FEXPR))
                    fb = cn_.ratio(b) == cn_.ratio(cq.parse(FEXPR))
                    other = b if fa else a if fb else None
                    if other is None:
                        return None
                    thr = cn_.ratio(other)
                    if not thr.is_const():
                        return None
                    if fb:
                        op = {"<": ">", "<=": ">=", ">": "<", ">=": "<="}[op]
                    t = float(thr.cval())
                    if op in ('<', '<=') and t <= 0.5:
                        return lowt
                    if op in ('>', '>=') and t >= 0.5:
                        return hight
                    if op in ('>=',) and t <= 0.5:
                        return not lowt
                    if op in ('<=',) and t >= 0.5:
                        return not hight
                except Undecided:
                    return None
            if c[0] in ('and', 'or', 'not'):
                from .c03 import _bool
                return _bool(c, oracle)
            return None
        tce = CEval(oracle)
        tce.summarise_loops = True
        try:
            tce.run(tail, {"sumrank": ('sym', 'SR')})
        except Undecided as ex:
            rep.undecided("R10.b", file, "c_ensrank", "tail", str(ex), line=scan.get("_line"))
            continue
        fins = [f_ for f_ in tce.finals if f_[2] == "end" and not f_[1]]
        res[lab] = (tce, fins)
    okF = oku = okr = len(res) == 3
    for lab, want_u in (("low", "0"), ("mid", "0.5"), ("high", "1")):
        if lab not in res:
            continue
        tce, fins = res[lab]
        gotF = [e for e in tce.effects if e.arr == "fmat"]
        okF = okF and len(gotF) == 1 and cq.same_expr(gotF[0].val, FEXPR) and cq.same_expr(gotF[0].idx, f"{i1}*nval + {i2}")
        rk = {show(e.idx): e for e in tce.effects if e.arr == "ranks" and e.op == "+="}
        okr = okr and set(rk) == {i1, i2} and cq.same_expr(rk[i1].val, want_u) and cq.same_expr(rk[i2].val, f"1 - {want_u}")
        oku = oku and bool(fins)
    rep.check(okF, "R10.b", file, "c_ensrank", "F = (sumrank - n(n+1)/2) / n^2 (Weigel and Mason Eq 1), stored at fmat[i1, i2]", "", line=scan.get("_line"))
    rep.check(okr and oku, "R10.b", file, "c_ensrank", "u = 0 / 0.5 / 1 for F below / at / above one half; ranks[i1] += u, ranks[i2] += 1 - u", "", line=scan.get("_line"))
    inice = cq.evaluate(cq.preceding(top, outer), oracle=lambda c: True if "nval" in show(c) and "ncol" not in show(c) else None)
    r1s = [e for e in cq.stores(inice, "ranks") if e.op == "=" and cq.same_expr(e.val, "1") and e.loops]
    ok1 = False
    for e in r1s:
        l_ = [x for x in cq.preceding(top, outer) if x.get("kind") == "ForStmt" and loop_var(x) == e.loops[-1]]
        lr_ = cq.loop_range(l_[0], ()) if l_ else None
        if lr_ and cq.same_expr(e.idx, lr_["var"]) and cq.same_expr(lr_["lo"], "0"):
            ok1 = True
    rep.check(ok1, "R10.b", file, "c_ensrank", "ranks start at 1", "", line=fn["line"])
    # ---- explicit flow: forecast values reach stores other than the pooled block only through comparisons
    leaks = []
    for e in cq.evaluate(pstm).effects:
        if e.arr == pool or e.arr.startswith("call:"):
            continue
        if e.val is not None and isinstance(e.val, tuple) and (pq.mentions(e.val, lambda x: x[0] == 'call' and x[1] in ('A:sim',)) or
                                                                pq.mentions(e.val, lambda x: x[0] == 'call' and x[1] == 'A:' + pool and x[2][0][0] == 'tuple' and cq.same_expr(x[2][0][1][1], "0"))):
            leaks.append(f"line {e.line}: {e.arr}[{show(e.idx)}] {e.op} {show(e.val)[:50]}")
    rep.check(not leaks, "R10.b", file, "c_ensrank", "forecast values flow into ranks / F only through comparisons (invariance under increasing re-scaling)",
              "; ".join(leaks), line=outer.get("_line"))

    # ---------------- wrapper: dscore ----------------------------------------------------------------------------------------
    P = pyxread.load_all(rep.repo)
    shims = {cm: {sh.name: sh for sh in d["shims"]} for cm, d in P.items()}
    sites, _ = xlayer.find_sites(rep.repo, shims)
    ens_site = None
    for shim, fname in (("ensrank", "dscore"), ("ad_test", "anderson_darling_test")):
        st = [s_ for s_ in sites if s_.shim.name == shim and s_.func.name == fname]
        if len(st) != 1:
            raise AnalysisError(f"stat/metrics.py: call site of {shim} in {fname} not found")
        ok, how, _ = xlayer.error_discipline(st[0])
        rep.check(ok, "R10.a", "stat/metrics.py", fname, f"{shim} return code tested and raised", how, line=st[0].call.lineno)
        if shim == "ensrank":
            ens_site = st[0]
            for pn in ("fmat", "ranks"):
                v = st[0].args.get(pn)
                xlayer.check_init(rep, v, ("zeros",), "R10.b", "stat/metrics.py", fname, f"`{pn}` is a fresh zero array", st[0].call.lineno)
        else:
            v = st[0].args.get("unifdata")
            rep.check(v is not None and v[1].fresh, "R10.d", "stat/metrics.py", fname, "the kernel sorts in place: it receives a copy of the caller's data",
                      f"argument `{ast.unparse(v[0]) if v else '?'}` is not a fresh buffer", line=st[0].call.lineno)
    mod = Mod(rep.repo, "stat/metrics.py")
    ds = mod.func("dscore")
    dpaths, _b = pq.site_paths(ens_site)
    nd = 0
    for p_ in dpaths:
        if p_.how != "return":
            continue
        v = p_.value
        nd += 1
        ok, kind = False, "?"
        if v[0] == 'div' and pq.same(v[2], "2") and v[1][0] == 'add':
            parts = [v[1][1], v[1][2]]
            cc = [x for x in parts if pq.call_named(x, "getitem") and pq.call_named(x[2][0], "corrcoef")]
            one = [x for x in parts if pq.same(x, "1")]
            if len(cc) == 1 and len(one) == 1 and pq.same(cc[0][2][1], "(0, 1)"):
                a_, b_ = cc[0][2][0][2][0], cc[0][2][0][2][1]
                def is_rank_of(e, name):
                    return pq.call_named(e, "argsort") and pq.call_named(e[2][0], "argsort") and pq.mentions(e[2][0][2][0], lambda x: x == ('sym', name))
                okobs = is_rank_of(a_, "obs") and not pq.mentions(a_, lambda x: x == ('sym', 'sim'))
                if b_ == ('sym', 'K.ranks'):
                    kind, ok = "ensemble", okobs
                else:
                    kind = "single member"
                    ok = okobs and is_rank_of(b_, "sim") and pq.mentions(b_, lambda x: pq.call_named(x, "getitem") and isinstance(x[2][1], tuple) and x[2][1][0] == 'tuple' and pq.same(x[2][1][1][1], "0"))
        rep.check(ok, "R10.e", "stat/metrics.py", "dscore", f"D = (corrcoef(rank(obs), rank(forecast))[0,1] + 1)/2 with argsort(argsort(.)) ranks [{kind}]", show(v)[:140], line=p_.line)
    rep.floor("dscore return paths", nd, 2)

    # ---------------- PIT -----------------------------------------------------------------------------------------------------------------
    pf = mod.func("pit")

    def resolve(e, env, b):
        d = dotted(e.func)
        if d in ("__check_ensemble_data",) and len(e.args) == 2:
            return ('tuple', (('sym', 'OBS'), ('sym', 'ENS'), ('sym', 'nforc'), ('sym', 'nens')))
        return None
    ppaths = [p_ for p_ in pq.PEval(resolve).run(pf) if p_.how == "return"]
    rnd = [p_ for p_ in ppaths if pq.cond_truth(pq.flat_conds(p_.conds), ('sym', 'random')) is True]
    okp, det = False, "random-branch path not found"
    CST = "min(0.5, cst)"
    if len(rnd) == 1 and rnd[0].value[0] == 'tuple':
        pits = rnd[0].value[1][0]
        cnts = pq.find(pits, lambda e: pq.call_named(e, "sum") and pq.mentions(e, lambda x: x[0] == 'cmp'))
        if cnts:
            CNT = cnts[0]
            want = ('div', ('sub', ('add', CNT, num(0.5)), pq.parse(CST)), pq.parse(f"1 - {CST} + nens"))
            okp = pq.same(pits, want)
            det = show(pits)[:160]
            cnt_arg = CNT[2][0]
            while pq.call_named(cnt_arg, "astype"):
                cnt_arg = cnt_arg[2][0]
            okc = cnt_arg[0] == 'cmp' and cnt_arg[1] == '<' and pq.same(cnt_arg[3], "0")
            if okc:
                d_ = cnt_arg[2]
                okc = d_[0] == 'sub' and pq.mentions(d_[1], lambda x: x == ('sym', 'ENS')) and pq.mentions(d_[2], lambda x: x == ('sym', 'OBS')) and \
                    not pq.mentions(d_[1], lambda x: x == ('sym', 'OBS')) and pq.kw_of(CNT, "axis") is not None and pq.same(pq.kw_of(CNT, "axis"), "1")
            rep.check(bool(okc), "R10.c", "stat/metrics.py", "pit", "count = number of (jittered) members strictly below the (jittered) observation, per forecast", show(cnt_arg)[:140], line=pf.lineno)
            # range / monotonicity on the closed form (k = count, m = nens - count >= 0, cst = 1/2 - d with d >= 0 after the cap)
            k, m, d = Ratio.sym('k'), Ratio.sym('m'), Ratio.sym('d')
            cst = Ratio.const(0.5) - d
            form = lambda kk: (kk + Ratio.const(0.5) - cst) / (Ratio.const(1) - cst + kk + m)
            lo_ok = nonneg_ratio(form(k), {"k", "d", "m"})
            hi_ok = nonneg_ratio(Ratio.const(1) - form(k), {"k", "d", "m"})
            rep.check(okp and lo_ok and hi_ok, "R10.c", "stat/metrics.py", "pit", "0 <= PIT <= 1 for every count in [0, nens] and cst <= 1/2",
                      f"PIT = {form(k)}, 1 - PIT = {Ratio.const(1) - form(k)}", line=pf.lineno)
            nd_ = Ratio.sym('N')        # nens fixed: increment in the count
            inc = (k + 1 + Ratio.const(0.5) - cst) / (Ratio.const(1) - cst + nd_) - (k + Ratio.const(0.5) - cst) / (Ratio.const(1) - cst + nd_)
            rep.check(okp and positive_ratio(inc, {"k", "d", "N"}), "R10.c", "stat/metrics.py", "pit", "PIT strictly increasing in the number of members below the observation", f"increment {inc}", line=pf.lineno)
    rep.check(okp, "R10.c", "stat/metrics.py", "pit", "PIT = (count + 1/2 - cst) / (nens + 1 - cst) with cst capped at 1/2", det, line=pf.lineno)
    okf = bool(ppaths)
    MASK = "(OBS < censor + EPS) & np.any(ENS < censor + EPS, axis=1)"
    for p_ in ppaths:
        fl = p_.value[1][1] if p_.value[0] == 'tuple' and len(p_.value[1]) == 2 else None
        if fl is not None and pq.same(fl, MASK):
            continue                      # the flag vector is the mask itself
        ok1 = fl is not None and pq.call_named(fl, "setitem") and pq.same(fl[2][1], MASK) and pq.same(fl[2][2], "True") and \
            (pq.call_named(fl[2][0], "zeros") or (pq.call_named(fl[2][0], "astype") and pq.call_named(fl[2][0][2][0], "zeros")) or
             (pq.call_named(fl[2][0], "full") and pq.same(fl[2][0][2][1], "False")))
        okf = okf and ok1
    rep.check(okf, "R10.c", "stat/metrics.py", "pit", "pseudo flag = (obs < censor+EPS) & (at least one member < censor+EPS), raised exactly on that mask (zeros elsewhere)", "", line=pf.lineno)

    # ---------------- Cramer-von Mises / Anderson-Darling -------------------------------------------------------------------------------------
    cv = mod.func("cramer_von_mises_test")
    cr = [p_ for p_ in pq.PEval().run(cv) if p_.how == "return"]
    okcv = bool(cr)
    for p_ in cr:
        st = p_.value[1][0] if p_.value[0] == 'tuple' else p_.value
        okcv = okcv and pq.same(st, "1/(12*len(data)) + np.sum(((2*np.arange(1, len(data)+1) - 1)/(2*len(data)) - np.sort(data))**2)", values=True)
    rep.check(okcv, "R10.d", "stat/metrics.py", "cramer_von_mises_test", "W2 = 1/(12n) + sum(((2i-1)/(2n) - x_(i))^2) on the sorted sample, n = sample size",
              show(cr[0].value)[:160] if cr else "", line=cv.lineno)
    if K["fns"].get("ADtest") is None or K["fns"].get("c_ad_test") is None:
        raise AnalysisError("stat/AnDarl.c / c_andersondarling.c: ADtest / c_ad_test not found")
    ad = ckern.normalised(K, "ADtest", rep.repo)
    atop = body_stmts(ad["body"])
    lp = [s_ for s_ in atop if s_.get("kind") == "ForStmt"]
    if len(lp) != 1:
        raise AnalysisError("stat/AnDarl.c: ADtest loop not found")
    alr = cq.loop_range(lp[0], cq.preceding(atop, lp[0]))
    av = alr["var"] if alr else loop_var(lp[0])
    astm = body_stmts(loop_parts(lp[0])[3])
    ace = cq.evaluate(astm)
    errs = [r for r in ace.returns if isinstance(r[0], tuple) and not cq.same_expr(r[0], "0")]
    X = f"x[{av}]"
    zs = [(env_, conds) for env_, conds, how in ace.finals if how == "end"]
    # the accumulator: the scalar whose update contains the logarithm
    acc = None
    for env_, conds in zs:
        for k_, v_ in env_.items():
            if "[" not in k_ and pq.mentions(v_, lambda e: e[0] == 'call' and e[1] == 'log'):
                acc = k_
    okguard = acc is not None and all(cq.excluded(c_, f"{X} < 0 || {X} > 1", False) and any((not t) and cq.cond_atoms(c, False) == ('isnan', repr(Canon().ratio(cq.parse(X)))) for c, t in c_)
                                      for _e, c_ in zs)
    prevs = set()
    for env_, conds in zs:
        for k_, v_ in env_.items():
            if "[" not in k_ and k_ != acc and cq.same_expr(v_, X):
                prevs.add(k_)
    okorder = len(prevs) == 1 and all(cq.excluded(c_, f"{X} < {list(prevs)[0]}", False) for _e, c_ in zs) if prevs else False
    rep.check(okguard and len(errs) >= 2, "R10.d", ad["file"], "ADtest", "values outside [0, 1] and NaN rejected before the logarithm", f"{len(errs)} error returns", line=lp[0].get("_line"))
    rep.check(okorder, "R10.d", ad["file"], "ADtest", "unsorted data rejected", "", line=lp[0].get("_line"))
    okz = False
    if acc is not None:
        ce2 = CEval(lambda c: False)
        ce2.summarise_loops = True
        ce2.run(astm, {acc: ('sym', 'Z0')})
        fin = [f_ for f_ in ce2.finals if f_[2] == "end"]
        okz = bool(fin) and cq.same_expr(fin[-1][0].get(acc, num(0)), f"Z0 - (2*{av} + 1)*log({X}*(1 - x[n - 1 - {av}]))")
    rep.check(okz and cq.range_is(alr, "0", "n-1"), "R10.d", ad["file"], "ADtest", "z -= (2i+1) log(x_i (1 - x_{n-1-i})) for i = 0..n-1", "", line=lp[0].get("_line"))
    post = cq.evaluate(atop[atop.index(lp[0]) + 1:])
    o0 = [e for e in cq.stores(post, "outputs") if cq.same_expr(e.idx, "0")]
    rep.check(acc is not None and len(o0) == 1 and cq.same_expr(o0[0].val, f"-n + {acc}/n"), "R10.d", ad["file"], "ADtest", "A2 = -n + z/n", show(o0[0].val) if o0 else "", line=ad["line"])
    adt = ckern.normalised(K, "c_ad_test", rep.repo)
    tce = cq.evaluate(body_stmts(adt["body"]))
    qcall = cq.calls(tce, "qsort")
    okq = len(qcall) == 1 and cq.same_expr(qcall[0].val[0], "unifdata") and cq.same_expr(qcall[0].val[1], "nval") and \
        any(isinstance(r[0], tuple) and "ADtest" in show(r[0]) for r in tce.returns) or bool(cq.calls(tce, "ADtest"))
    # the statistic is computed after the sort: the call of ADtest comes later in the statement order
    body = body_stmts(adt["body"])
    qpos = [k_ for k_, s_ in enumerate(body) if find_all(s_, lambda n: n.get("kind") == "CallExpr" and text(n["inner"][0]) == "qsort")]
    cpos = [k_ for k_, s_ in enumerate(body) if find_all(s_, lambda n: n.get("kind") == "CallExpr" and text(n["inner"][0]) == "ADtest")]
    rep.check(bool(okq) and bool(qpos) and bool(cpos) and qpos[0] < cpos[0], "R10.d", adt["file"], "c_ad_test", "data sorted before the statistic is computed (result independent of the input order)", "", line=adt["line"])
    # alpha(): (statistic, p-value) taken from each test in the order that test returns them
    mm = Mod(rep.repo, "stat/metrics.py")
    adw = mm.func("anderson_darling_test")
    # kernel slot of the p-value: the output that is a function of AD(n, .)
    oall = cq.stores(post, "outputs")
    pslot = [e for e in oall if "AD" in show(e.val) and not cq.same_expr(e.idx, "0")]
    kp = int(Canon().ratio(pslot[0].idx).cval()) if len(pslot) == 1 and Canon().ratio(pslot[0].idx).is_const() else None
    wret = [p_ for p_ in pq.PEval().run(adw) if p_.how == "return"]
    wk = None
    if kp is not None and len(wret) == 1 and wret[0].value[0] == 'tuple':
        for k_, x in enumerate(wret[0].value[1]):
            if pq.call_named(x, "getitem") and x[2][1][0] == 'num' and int(x[2][1][1]) == kp:
                wk = k_
    alf = mm.func("alpha")
    aret = [p_ for p_ in pq.PEval().run(alf) if p_.how == "return" and any(t and c[0] == 'cmp' and c[1] == '==' and c[3] == ('sym', "'AD'") for c, t in pq.flat_conds(p_.conds))]
    if wk is None or not aret:
        rep.undecided("R10.d", "stat/metrics.py", "alpha", "Anderson-Darling branch returns the p-value of the test", f"p-value slot kernel {kp}, wrapper {wk}, {len(aret)} AD path(s)", line=alf.lineno)
    else:
        okad = True
        det = ""
        for p_ in aret:
            v = p_.value
            if not (v[0] == 'tuple' and len(v[1]) >= 2 and all(pq.call_named(x, "getitem") and pq.call_named(x[2][0], "f:anderson_darling_test") for x in v[1][:2])):
                okad, det = None, show(v)[:120]
                break
            ks = [int(x[2][1][1]) for x in v[1][:2]]
            if ks != [1 - wk, wk]:
                okad, det = False, f"alpha returns elements {ks} of the test's result as (statistic, p-value); the test returns the p-value at position {wk}"
        if okad is None:
            rep.undecided("R10.d", "stat/metrics.py", "alpha", "Anderson-Darling branch returns the p-value of the test", det, line=alf.lineno)
        else:
            rep.check(okad, "R10.d", "stat/metrics.py", "alpha", "Anderson-Darling branch returns (statistic, p-value) in the order anderson_darling_test returns them", det, line=alf.lineno)
    return EXPLANATION


def nonneg_ratio(r, possyms):
    """numerator and denominator polynomials have coefficients of one sign each and the ratio is >= 0"""
    def sign(poly):
        if not poly.t:
            return 0
        if not poly.symbols() <= possyms:
            return None
        cs = list(poly.t.values())
        if all(c > 0 for c in cs):
            return 1
        if all(c < 0 for c in cs):
            return -1
        return None
    sn, sd = sign(r.n), sign(r.d)
    if sn is None or sd is None or sd == 0:
        return False
    return sn == 0 or sn == sd
