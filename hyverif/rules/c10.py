"""C10 -- rank- and PIT-based forecast diagnostics depend only on ranks and stay in range (structural clauses)."""
import ast
import itertools

from ..core import AnalysisError
from ..cfront import strip, text
from .. import ckern, ceval, xlayer, pyxread
from ..ceval import CEval, find_all, loop_parts, body_stmts, loop_var, stores_to
from ..formula import Canon, Ratio, Undecided, show, num, ExprBuilder
from ..fneval import FnEval
from ..pyfront import Mod, dotted, const_value
from .c04 import positive_ratio

EXPLANATION = (
    "c_ensrank's pooled-sort scan is treated as a finite-state transducer: for all 16 truth assignments of its four "
    "predicates (member of the first ensemble, new value, last of its tie block, block open) the symbolic update of "
    "(start, end, nties, sumrank) must equal the mid-rank reference of Weigel and Mason (2011) written in the "
    "checker; the pooled block is filled from both ensembles with exact index identities and sorted before the scan; "
    "F, the 0/0.5/1 mapping, the rank accumulation and the Python score (corr+1)/2 on argsort ranks are compared with "
    "their definitions; data values reach the outputs only through comparisons (explicit-flow check); the kernel's "
    "error code is tested.  PIT: closed form compared with (count + 1/2 - cst)/(nens + 1 - cst), a sign proof of "
    "0 <= PIT <= 1 for cst <= 1/2, strict increase in the count, and the pseudo flag equals its definition.  "
    "Cramer-von Mises: formula identity; Anderson-Darling: range/NaN/order checks dominate the logarithm, data are "
    "sorted first and copied by the wrapper, statistic assembled as -n + z/n.  qsort's tie placement and p-value "
    "tables are not decided.")


def run(rep):
    rep.rule("R10.a", "kernel error codes of ensrank / ad_test are tested and raised")
    rep.rule("R10.b", "ensrank: pooled fill indices, sort before scan, tie-block transducer == mid-rank reference, F / u / ranks formulas, data reach outputs only through comparisons")
    rep.rule("R10.c", "PIT closed form, 0 <= PIT <= 1 (sign proof), strictly increasing in the member count, pseudo flag predicate")
    rep.rule("R10.d", "Cramer-von Mises formula; Anderson-Darling guards dominate log, sorted and copied input, statistic -n + z/n")
    rep.rule("R10.e", "dscore = (corrcoef(rank(obs), rank(forecast))[0,1] + 1) / 2 with argsort ranks")
    rep.assume("qsort places tied members of the two ensembles in an unspecified order (run-time behaviour of libc): mid-rank under ties is decided for the scan logic only")
    K = ckern.analyze(rep.repo)
    fn = K["fns"].get("c_ensrank")
    if fn is None:
        raise AnalysisError("stat/c_dscore.c: c_ensrank not found")
    file = fn["file"]
    top = [s for s in fn["body"].get("inner", []) if s.get("kind")]
    outer = [s for s in top if s.get("kind") == "ForStmt" and stores_to(s, "fmat")]
    if len(outer) != 1:
        raise AnalysisError(f"{file}: c_ensrank pair loop not found")
    i1 = loop_var(outer[0])
    l2 = [s for s in body_stmts(loop_parts(outer[0])[3]) if s.get("kind") == "ForStmt"]
    if len(l2) != 1:
        raise AnalysisError(f"{file}: c_ensrank inner pair loop not found")
    i2 = loop_var(l2[0])
    init2 = text(loop_parts(l2[0])[0]).replace(" ", "")
    rep.check(init2 == f"{i2}={i1}+1", "R10.b", file, "c_ensrank", "pairs (i1, i2) with i2 > i1: each pair compared once", f"inner loop starts `{init2}`", line=l2[0].get("_line"))
    pstm = body_stmts(loop_parts(l2[0])[3])
    inner = [s for s in pstm if s.get("kind") == "ForStmt"]
    fill = [l for l in inner if stores_to(l, "ensemb") and not find_all(l, lambda n: n.get("kind") == "CompoundAssignOperator")]
    scan = [l for l in inner if find_all(l, lambda n: n.get("kind") == "CompoundAssignOperator" and text(n["inner"][0]) == "sumrank")]
    qs = [s for s in pstm if s.get("kind") == "CallExpr" and text(s["inner"][0]) == "qsort"]
    if len(fill) != 1 or len(scan) != 1 or len(qs) != 1:
        raise AnalysisError(f"{file}: c_ensrank pair body not recognised (fill {len(fill)}, scan {len(scan)}, qsort {len(qs)})")
    fill, scan, qs = fill[0], scan[0], qs[0]
    rep.unit(f"{file}: c_ensrank (pair loops, pooled fill, qsort, tie-block scan, F/u/ranks tail)")

    # ---- pooled fill
    jv = loop_var(fill)
    cn = Canon()
    fcond = text(loop_parts(fill)[1]).replace(" ", "")
    okf = fcond in (f"{jv}<2*ncol", f"{jv}<ncol*2")
    for half, truth in (("first", True), ("second", False)):
        ce = CEval(lambda c, truth=truth: truth if (c[0] == 'cmp' and show(c[2]) == jv and show(c[3]) == 'ncol' and c[1] == '<') else None)
        ce.run(body_stmts(loop_parts(fill)[3]), {})
        vals = [e for e in ce.effects if e.arr == "ensemb" and e.op == "=" and e.idx[0] == 'tuple' and e.idx[1][1] == num(0)]
        ok = False
        det = "no store to ensemb[j][0]"
        if len(vals) == 1 and vals[0].val[0] == 'call' and vals[0].val[1] == 'A:sim':
            got = cn.ratio(vals[0].val[2][0])
            if truth:
                want = cn.ratio(('add', ('mul', ('sym', 'ncol'), ('sym', i1)), ('sym', jv)))
            else:   # member j - ncol of ensemble i2
                want = cn.ratio(('add', ('mul', ('sym', 'ncol'), ('sym', i2)), ('sub', ('sym', jv), ('sym', 'ncol'))))
            ok = got == want
            det = f"reads sim[{got}], expected sim[{want}]"
        rep.check(ok and okf, "R10.b", file, "c_ensrank", f"pooled block, {half} half holds ensemble {'i1' if truth else 'i2'} member by member", det, line=fill.get("_line"))
        idxs = [e for e in ce.effects if e.arr == "ensemb" and e.idx[0] == 'tuple' and e.idx[1][1] == num(1)]
        rep.check(len(idxs) == 1 and idxs[0].val == ('sym', jv), "R10.b", file, "c_ensrank", f"pooled block, {half} half: position tag = j (first ensemble iff tag < ncol)", "", line=fill.get("_line"))
    qa = [text(a).replace(" ", "") for a in qs["inner"][1:]]
    rep.check(qa[0] == "ensemb" and qa[1] in ("2*ncol", "ncol*2") and pstm.index(fill) < pstm.index(qs) < pstm.index(scan), "R10.b", file, "c_ensrank",
              "pooled block of 2*ncol values sorted after the fill and before the scan", f"qsort({qa[0]}, {qa[1]}, ..)", line=qs.get("_line"))

    # ---- scan transducer
    sv = loop_var(scan)
    sstm = body_stmts(loop_parts(scan)[3])
    nbad, ncomb = [], 0
    for P1, P2, P3, P4 in itertools.product([True, False], repeat=4):
        ncomb += 1

        def oracle(c, P1=P1, P2=P2, P3=P3, P4=P4):
            if c[0] in ('and', 'or', 'not'):
                from .c03 import _bool
                return _bool(c, oracle)
            if c[0] != 'cmp':
                return None
            op, a, b = c[1], show(c[2]), show(c[3])
            if a == "index" and b == "ncol":
                return {"<": P1, ">=": not P1}.get(op)
            if a == "DIFF" and b == "eps":
                return {">=": P2, "<": not P2}.get(op)
            if a == "DIFFNEXT" and b == "eps":
                return {">=": P3, "<": not P3}.get(op)
            if b in ("0", "0.0") and op == ">=":
                if a == "S0":
                    return P4
                if a == sv:
                    return True          # start = j >= 0
                if a == "-1" or a == "-(1)":
                    return False
            # value bookkeeping comparisons (j < 2*ncol-1) do not matter for the state
            return None
        arrays = {"ensemb": lambda idx: ('sym', 'V' + show(idx))}
        ce = CEval(oracle, arrays)
        env = {"start": ('sym', 'S0'), "end": ('sym', 'E0'), "nties": ('sym', 'N0'), "sumrank": ('sym', 'R0'), "index": ('sym', 'index')}
        # diff / diffnext are defined from |value - valueprev|: abstract them to symbols at their definition
        BOOK = ("diff", "diffnext", "value", "valuenext", "valueprev", "index")
        stm2 = []
        for s in sstm:
            asg = find_all(s, lambda n: n.get("kind") in ("BinaryOperator", "CompoundAssignOperator") and n.get("opcode") in ("=", "+=", "-=", "*=", "/="))
            if asg and all(text(x["inner"][0]) in BOOK for x in asg):
                continue          # value bookkeeping (abstracted by the predicates)
            stm2.append(s)
        env.update({"diff": ('sym', 'DIFF'), "diffnext": ('sym', 'DIFFNEXT')})
        try:
            ce._walk(stm2, env, [])
        except Undecided as ex:
            rep.undecided("R10.b", file, "c_ensrank", f"scan transducer {P1, P2, P3, P4}", str(ex), line=scan.get("_line"))
            continue
        # reference
        S, E, N, R = (('sym', x) for x in ("S0", "E0", "N0", "R0"))
        J = ('sym', sv)
        open_ = P4
        if P1 and P2:
            S, E, N = J, J, num(1)
            open_ = True
        if open_ and not P2:
            E = ('add', E, num(1))
            if P1:
                N = ('add', N, num(1))
        if open_ and P3:
            R = ('add', R, ('mul', ('add', num(1), ('div', ('add', S, E), num(2))), N))
            S = num(-1)
        c2 = Canon()
        same = all(c2.ratio(env[k]) == c2.ratio(w) for k, w in (("start", S), ("end", E), ("nties", N), ("sumrank", R)))
        if not same:
            nbad.append(f"first-ensemble={P1}, new-value={P2}, last-of-block={P3}, block-open={P4}: "
                        f"start={show(env['start'])}, end={show(env['end'])}, nties={show(env['nties'])}, sumrank={show(env['sumrank'])[:60]}")
    rep.check(not nbad, "R10.b", file, "c_ensrank", f"tie-block scan equals the mid-rank reference for all {ncomb} predicate assignments",
              " | ".join(nbad[:3]), line=scan.get("_line"))
    # definitions of diff / diffnext / index
    defs = {}
    for s in sstm:
        if s.get("kind") == "BinaryOperator" and s.get("opcode") == "=":
            defs[text(s["inner"][0])] = text(s["inner"][1]).replace(" ", "")
    rep.check(defs.get("diff") == "fabs(value-valueprev)" and defs.get("diffnext") == "fabs(value-valuenext)", "R10.b", file, "c_ensrank",
              "new-value / last-of-block tests compare |value - neighbour| with eps", f"diff={defs.get('diff')}, diffnext={defs.get('diffnext')}", line=scan.get("_line"))
    rep.check(defs.get("index") == f"ensemb[{sv}][1]" and defs.get("value") == f"ensemb[{sv}][0]" and defs.get("valueprev") == "value", "R10.b", file, "c_ensrank",
              "scan reads value and tag of pooled member j and remembers the previous value", str({k: defs.get(k) for k in ('index', 'value', 'valueprev')}), line=scan.get("_line"))
    # ---- tail: F, u, ranks
    tail = pstm[pstm.index(scan) + 1:]
    tce = CEval()
    tenv = {"sumrank": ('sym', 'SR'), "ncold": ('sym', 'n')}
    try:
        tce._walk(tail, tenv, [])
    except Undecided as ex:
        rep.undecided("R10.b", file, "c_ensrank", "tail", str(ex), line=scan.get("_line"))
    c3 = Canon()
    wantF = c3.ratio(('div', ('sub', ('sym', 'SR'), ('div', ('mul', ('add', ('sym', 'n'), num(1)), ('sym', 'n')), num(2))), ('mul', ('sym', 'n'), ('sym', 'n'))))
    gotF = [e for e in tce.effects if e.arr == "fmat"]
    rep.check(len(gotF) == 1 and c3.ratio(gotF[0].val) == wantF, "R10.b", file, "c_ensrank", "F = (sumrank - n(n+1)/2) / n^2 (Weigel and Mason Eq 1)",
              show(gotF[0].val)[:80] if gotF else "no store to fmat", line=scan.get("_line"))
    if gotF:
        rep.check(c3.ratio(gotF[0].idx) == c3.ratio(('add', ('mul', ('sym', i1), ('sym', 'nval')), ('sym', i2))), "R10.b", file, "c_ensrank", "F stored at fmat[i1, i2]", show(gotF[0].idx), line=scan.get("_line"))
    u = tenv.get("u")
    oku = False
    if u is not None and u[0] == 'where':
        # F < 0.5 - t ? 0 : F > 0.5 + t ? 1 : 0.5
        try:
            c1, a1, r1 = u[1], u[2], u[3]
            oku = c1[0] == 'cmp' and c1[1] == '<' and a1 == num(0) and r1[0] == 'where' and r1[1][1] == '>' and r1[2] == num(1) and c3.ratio(r1[3]) == Ratio.const(0.5) \
                and (c3.ratio(c1[3]) - Ratio.const(0.5)).is_const() and (c3.ratio(r1[1][3]) - Ratio.const(0.5)).is_const() \
                and (c3.ratio(c1[3]) - Ratio.const(0.5)).cval() <= 0 <= (c3.ratio(r1[1][3]) - Ratio.const(0.5)).cval()
        except Exception:
            oku = False
    rep.check(oku, "R10.b", file, "c_ensrank", "u = 0 / 0.5 / 1 for F below / at / above one half", show(u)[:90] if u else "u not assigned", line=scan.get("_line"))
    rk = {show(e.idx): e for e in tce.effects if e.arr == "ranks" and e.op == "+="}
    okr = set(rk) == {i1, i2} and rk[i1].val == tenv.get("u") and c3.ratio(rk[i2].val) == c3.ratio(('sub', num(1), ('sym', 'U'))) if False else \
        (set(rk) == {i1, i2} and show(rk[i1].val) == show(tenv.get("u")) and show(rk[i2].val) == show(('sub', num(1), tenv.get("u"))))
    rep.check(okr, "R10.b", file, "c_ensrank", "ranks[i1] += u, ranks[i2] += 1 - u", str({k: show(v.val)[:40] for k, v in rk.items()}), line=scan.get("_line"))
    initl = [s_ for s_ in top if s_.get("kind") == "ForStmt" and s_ not in outer and stores_to(s_, "ranks")]
    ok1 = False
    if initl:
        ice = CEval(lambda c: True)
        ice.run(body_stmts(loop_parts(initl[0])[3]), {})
        r1 = [e for e in ice.effects if e.arr == "ranks" and e.op == "="]
        ok1 = len(r1) == 1 and r1[0].val == num(1)
    rep.check(ok1, "R10.b", file, "c_ensrank", "ranks start at 1", "", line=fn["line"])
    # ---- explicit flow: data values reach stores only through comparisons
    tainted = {"value", "valueprev", "valuenext", "diff", "diffnext"}
    leaks = []
    for s in find_all(outer[0], lambda n: n.get("kind") in ("BinaryOperator", "CompoundAssignOperator") and n.get("opcode") in ("=", "+=", "-=", "*=", "/=")):
        tgt = text(s["inner"][0])
        base = tgt.split("[")[0]
        if base in tainted or base == "ensemb":
            continue
        rhs = s["inner"][1]
        used = {n["referencedDecl"]["name"] for n in find_all(rhs, lambda n: n.get("kind") == "DeclRefExpr")}
        # reads of ensemb[..][0] or sim
        direct = find_all(rhs, lambda n: n.get("kind") == "ArraySubscriptExpr" and text(n).startswith(("sim[",)))
        pooled = find_all(rhs, lambda n: n.get("kind") == "ArraySubscriptExpr" and text(n).startswith("ensemb[") and text(n).endswith("[0]"))
        if (used & tainted) or direct or pooled:
            leaks.append(f"line {s.get('_line')}: {tgt} = {text(rhs)[:40]}")
    rep.check(not leaks, "R10.b", file, "c_ensrank", "forecast values flow into ranks / F only through comparisons (invariance under increasing re-scaling)",
              "; ".join(leaks), line=outer[0].get("_line"))

    # ---------------- wrapper: dscore ----------------------------------------------------------------------------------------
    P = pyxread.load_all(rep.repo)
    shims = {cm: {sh.name: sh for sh in d["shims"]} for cm, d in P.items()}
    sites, _ = xlayer.find_sites(rep.repo, shims)
    for shim, fname in (("ensrank", "dscore"), ("ad_test", "anderson_darling_test")):
        st = [s for s in sites if s.shim.name == shim and s.func.name == fname]
        if len(st) != 1:
            raise AnalysisError(f"stat/metrics.py: call site of {shim} in {fname} not found")
        ok, how, _ = xlayer.error_discipline(st[0])
        rep.check(ok, "R10.a", "stat/metrics.py", fname, f"{shim} return code tested and raised", how, line=st[0].call.lineno)
        if shim == "ensrank":
            for pn in ("fmat", "ranks"):
                v = st[0].args.get(pn)
                rep.check(v is not None and v[1].fresh and v[1].init == ("zeros",), "R10.b", "stat/metrics.py", fname, f"`{pn}` is a fresh zero array", "", line=st[0].call.lineno)
        else:
            v = st[0].args.get("unifdata")
            rep.check(v is not None and v[1].fresh, "R10.d", "stat/metrics.py", fname, "the kernel sorts in place: it receives a copy of the caller's data",
                      f"argument `{ast.unparse(v[0]) if v else '?'}` is not a fresh buffer", line=st[0].call.lineno)
    mod = Mod(rep.repo, "stat/metrics.py")
    ds = mod.func("dscore")
    fe = FnEval(lambda d, env: None, lambda e, env, b: None)
    paths = fe.run(ds, {a.arg: ('sym', a.arg) for a in ds.args.args})
    nd = 0
    for p in paths:
        if p.value == ('raise',) or p.value == ('sym', 'None'):
            continue
        single = any(show(c) .startswith("(") and "==" in show(c) and t for c, t in p.conds if "getitem" in show(c) or "nens" in show(c))
        c5 = Canon()
        obs_r = ('call', 'argsort', (('call', 'argsort', (('sym', 'obs'),)),))
        try:
            got = c5.ratio(p.value)
        except Undecided as ex:
            rep.undecided("R10.e", "stat/metrics.py", "dscore", "returned formula", str(ex), line=p.line)
            continue
        ok = False
        for fr in (('call', 'argsort', (('call', 'argsort', (('call', 'getitem', (('sym', 'sim'), ('sym', 'col0'))),)),)), ('sym', '?fr')):
            pass
        txt = show(p.value).replace(" ", "")
        ok = txt.startswith("((getitem[(0,1)](corrcoef(argsort(argsort(obs)),") and txt.endswith("))+1)/2)")
        nd += 1
        rep.check(ok, "R10.e", "stat/metrics.py", "dscore", f"D = (corrcoef(rank(obs), rank(forecast))[0,1] + 1)/2 [{'single member' if 'argsort(argsort(?' in txt or 'sim' in txt.split('corrcoef')[1] else 'ensemble'}]",
                  txt[:120], line=p.line)
    rep.floor("dscore return paths", nd, 2)
    # single-member ranks = argsort(argsort(sim[:, 0]))
    sm = [n for n in ast.walk(ds) if isinstance(n, ast.Assign) and isinstance(n.targets[0], ast.Name) and n.targets[0].id == "franks" and "argsort" in ast.unparse(n.value)]
    rep.check(bool(sm) and ast.unparse(sm[0].value).replace(" ", "") == "np.argsort(np.argsort(sim[:,0]))", "R10.e", "stat/metrics.py", "dscore",
              "single-member forecasts ranked by argsort(argsort(sim[:, 0]))", ast.unparse(sm[0].value) if sm else "", line=ds.lineno)

    # ---------------- PIT -----------------------------------------------------------------------------------------------------------------
    pf = mod.func("pit")
    src = {}
    for n in ast.walk(pf):
        if isinstance(n, ast.Assign) and isinstance(n.targets[0], ast.Name):
            src.setdefault(n.targets[0].id, []).append(n)
    okcap = "cst" in src and ast.unparse(src["cst"][0].value).replace(" ", "") in ("min(0.5,cst)", "min(cst,0.5)")
    rep.check(okcap, "R10.c", "stat/metrics.py", "pit", "cst capped at 1/2 before use", "", line=pf.lineno)
    b = ExprBuilder(lambda d, env: ('sym', 'EPS') if d == "EPS" else None, None)
    rnd = [n for n in src.get("pits", []) if "cst" in ast.unparse(n.value)]
    okp = False
    det = "random-branch formula not found"
    if rnd:
        env = {"cst": ('sym', 'cst'), "nens": ('sym', 'nens'), "pits": ('sym', 'COUNTS')}
        try:
            e = b.build(rnd[0].value, env)
            c6 = Canon()
            got = c6.ratio(e)
            cnt = c6.ratio(('call', 'sum', (('sym', 'COUNTS'), num(1))))
            # closed form in the count
            cs = [s_ for s_ in got.n.symbols() if s_.startswith("⟨sum")]
            if len(cs) == 1:
                K_ = Ratio.sym(cs[0])
                want = (K_ + Ratio.const(0.5) - Ratio.sym('cst')) / (Ratio.sym('nens') + 1 - Ratio.sym('cst'))
                okp = got == want
                det = f"{got}"
                # range proof with cst = 1/2 - d (d >= 0), count = k >= 0, nens - count = m >= 0
                from ..poly import Poly
                sub = lambda r: Ratio(r.n.subst(cs[0], Poly.sym('k')).subst('cst', Poly.const(0.5) - Poly.sym('d')).subst('nens', Poly.sym('k') + Poly.sym('m')),
                                      r.d.subst(cs[0], Poly.sym('k')).subst('cst', Poly.const(0.5) - Poly.sym('d')).subst('nens', Poly.sym('k') + Poly.sym('m')))
                lo_ok = nonneg_ratio(sub(got), {"k", "d", "m"})
                hi_ok = nonneg_ratio(sub(Ratio.const(1) - got), {"k", "d", "m"})
                rep.check(lo_ok and hi_ok, "R10.c", "stat/metrics.py", "pit", "0 <= PIT <= 1 for every count in [0, nens] and cst <= 1/2",
                          f"PIT = {sub(got)}, 1 - PIT = {sub(Ratio.const(1) - got)}", line=rnd[0].lineno)
                # strictly increasing in the count: d PIT / d k = 1/(nens + 1 - cst) > 0
                inc = sub(Ratio(got.n.subst(cs[0], Poly.sym(cs[0]) + 1), got.d.subst(cs[0], Poly.sym(cs[0]) + 1)) - got)
                rep.check(positive_ratio(inc, {"k", "d", "m"}) or nonneg_ratio(inc, {"k", "d", "m"}) and not inc.is_zero(), "R10.c", "stat/metrics.py", "pit",
                          "PIT strictly increasing in the number of members below the observation", f"increment {inc}", line=rnd[0].lineno)
        except Undecided as ex:
            det = str(ex)
    rep.check(okp, "R10.c", "stat/metrics.py", "pit", "PIT = (count + 1/2 - cst) / (nens + 1 - cst)", det, line=rnd[0].lineno if rnd else pf.lineno)
    cntdef = [n for n in src.get("pits", []) if "astype" in ast.unparse(n.value) and "<" in ast.unparse(n.value)]
    okc = bool(cntdef) and ast.unparse(cntdef[0].value).replace(" ", "") in ("(ens+dens-(obs+dobs)[:,None]<0).astype(int)",)
    rep.check(okc, "R10.c", "stat/metrics.py", "pit", "count = number of (jittered) members strictly below the (jittered) observation", ast.unparse(cntdef[0].value) if cntdef else "", line=pf.lineno)
    # pseudo flag
    idx = src.get("idx", [])
    okf = False
    if idx:
        try:
            e = b.build(idx[0].value, {"obs": ('sym', 'obs'), "ens": ('sym', 'ens'), "censor": ('sym', 'c')})
            ref = b.build(ast.parse("(obs < c + EPS) & (np.sum(ens < c + EPS, axis=1) > 0)", mode="eval").body, {"obs": ('sym', 'obs'), "ens": ('sym', 'ens'), "c": ('sym', 'c')})
            c7 = Canon()
            okf = c7.ratio(e) == c7.ratio(ref) or c7.ratio(e) == c7.ratio(('and', ref[2], ref[1]))
        except Undecided:
            okf = False
    rep.check(okf, "R10.c", "stat/metrics.py", "pit", "pseudo flag = (obs < censor+EPS) & (at least one member < censor+EPS)", ast.unparse(idx[0].value) if idx else "", line=pf.lineno)
    flagset = any(isinstance(n, ast.Assign) and isinstance(n.targets[0], ast.Subscript) and ast.unparse(n.targets[0]) == "is_sudo[idx]" and const_value(n.value) is True for n in ast.walk(pf))
    rep.check(flagset, "R10.c", "stat/metrics.py", "pit", "flag raised exactly on that mask (zeros elsewhere)", "", line=pf.lineno)

    # ---------------- Cramer-von Mises / Anderson-Darling -------------------------------------------------------------------------------------
    cv = mod.func("cramer_von_mises_test")
    fe2 = FnEval(lambda d, env: ('sym', d) if d.startswith("CVM_") else (('sym', 'n') if d == "data.shape" else None), None)
    okcv, det = False, ""
    for n in ast.walk(cv):
        if isinstance(n, ast.Assign) and isinstance(n.targets[0], ast.Name) and n.targets[0].id == "cvstat":
            env = {"data": ('sym', 'data'), "nsample": ('sym', 'n')}
            for m in cv.body:
                if isinstance(m, ast.Assign) and isinstance(m.targets[0], ast.Name) and m.targets[0].id == "unif":
                    env["unif"] = b.build(m.value, env)
            try:
                got = Canon()
                g = got.ratio(b.build(n.value, env))
                w = got.ratio(b.build(ast.parse("1/(12*n) + np.sum(((2*np.arange(1, n+1) - 1)/(2*n) - np.sort(data))**2)", mode="eval").body, {"n": ('sym', 'n'), "data": ('sym', 'data')}))
                okcv = g == w
                det = f"{g}"
            except Undecided as ex:
                det = str(ex)
    rep.check(okcv, "R10.d", "stat/metrics.py", "cramer_von_mises_test", "W2 = 1/(12n) + sum(((2i-1)/(2n) - x_(i))^2) on the sorted sample", det[:120], line=cv.lineno)
    ns = [m for m in cv.body if isinstance(m, ast.Assign) and isinstance(m.targets[0], ast.Name) and m.targets[0].id == "nsample"]
    rep.check(bool(ns) and ast.unparse(ns[0].value).replace(" ", "") in ("data.shape[0]", "len(data)"), "R10.d", "stat/metrics.py", "cramer_von_mises_test", "n = sample size", "", line=cv.lineno)
    ad = K["fns"].get("ADtest")
    adt = K["fns"].get("c_ad_test")
    if ad is None or adt is None:
        raise AnalysisError("stat/AnDarl.c / c_andersondarling.c: ADtest / c_ad_test not found")
    lp = [s for s in ad["body"].get("inner", []) if s.get("kind") == "ForStmt"]
    if len(lp) != 1:
        raise AnalysisError("stat/AnDarl.c: ADtest loop not found")
    av = loop_var(lp[0])
    astm = body_stmts(loop_parts(lp[0])[3])
    guards, logpos = [], None
    for k, s in enumerate(astm):
        if s.get("kind") == "IfStmt" and find_all(s, lambda n: n.get("kind") == "ReturnStmt"):
            guards.append((k, text(s["inner"][0]).replace(" ", "")))
        if find_all(s, lambda n: n.get("kind") == "CallExpr" and text(n["inner"][0]) == "log") and logpos is None:
            logpos = k
    gtxt = " ".join(g for _, g in guards)
    has_range = f"x[{av}]<0" in gtxt and f"x[{av}]>1" in gtxt
    has_nan = f"isnan(x[{av}])" in gtxt or f"__builtin_isnan(x[{av}])" in gtxt or "isnan" in gtxt
    has_order = f"x[{av}]<prev" in gtxt
    dom = logpos is not None and all(k < logpos for k, _ in guards) and len(guards) >= 3
    rep.check(has_range and dom, "R10.d", ad["file"], "ADtest", "values outside [0, 1] rejected before the logarithm", gtxt, line=lp[0].get("_line"))
    rep.check(has_nan and dom, "R10.d", ad["file"], "ADtest", "NaN rejected before the logarithm", gtxt, line=lp[0].get("_line"))
    rep.check(has_order and dom, "R10.d", ad["file"], "ADtest", "unsorted data rejected", gtxt, line=lp[0].get("_line"))
    ace = CEval(lambda c: False)
    aenv = {"z": ('sym', 'Z0')}
    try:
        ace._walk(astm, aenv, [])
        c8 = Canon()
        inc = c8.ratio(('sub', aenv["z"], ('sym', 'Z0')))
        xi = ('call', 'A:x', (('sym', av),))
        xm = ('call', 'A:x', (('sub', ('sub', ('sym', 'n'), num(1)), ('sym', av)),))
        want = c8.ratio(('neg', ('mul', ('add', ('mul', num(2), ('sym', av)), num(1)), ('call', 'log', (('mul', xi, ('sub', num(1), xm)),)))))
        rep.check(inc == want, "R10.d", ad["file"], "ADtest", "z -= (2i+1) log(x_i (1 - x_{n-1-i}))", f"{inc}", line=lp[0].get("_line"))
    except Undecided as ex:
        rep.undecided("R10.d", ad["file"], "ADtest", "statistic accumulation", str(ex), line=lp[0].get("_line"))
    st = [s for s in ad["body"].get("inner", []) if s.get("kind") == "BinaryOperator" and text(s["inner"][0]) == "outputs[0]" and "z" in text(s["inner"][1])]
    rep.check(bool(st) and text(st[0]["inner"][1]).replace(" ", "") in ("-n+z/n", "z/n-n"), "R10.d", ad["file"], "ADtest", "A2 = -n + z/n", text(st[0]["inner"][1]) if st else "", line=ad["line"])
    body = [s for s in adt["body"].get("inner", []) if s.get("kind")]
    q = [k for k, s in enumerate(body) if find_all(s, lambda n: n.get("kind") == "CallExpr" and text(n["inner"][0]) == "qsort")]
    c = [k for k, s in enumerate(body) if find_all(s, lambda n: n.get("kind") == "CallExpr" and text(n["inner"][0]) == "ADtest")]
    rep.check(bool(q) and bool(c) and q[0] < c[0], "R10.d", adt["file"], "c_ad_test", "data sorted before the statistic is computed (result independent of the input order)", "", line=adt["line"])
    return EXPLANATION


def nonneg_ratio(r, possyms):
    """numerator and denominator polynomials have coefficients of one sign each and the ratio is >= 0"""
    def sign(poly):
        if not poly.t:
            return 0
        if not poly.symbols() <= possyms:
            return None
        cs = list(poly.t.values())
        if all(c > 0 for c in cs):
            return 1
        if all(c < 0 for c in cs):
            return -1
        return None
    sn, sd = sign(r.n), sign(r.d)
    if sn is None or sd is None or sd == 0:
        return False
    return sn == 0 or sn == sd
