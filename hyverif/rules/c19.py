"""C19 -- batches partition the work and option grids enumerate every combination once (structural clauses)."""
import ast
import re

from ..core import AnalysisError
from ..pyfront import Mod, dotted, const_value, raises
from ..formula import ExprBuilder, Canon, Ratio, Undecided, show
from ..tmethods import norm_pred, pred_equal, pred_text

EXPLANATION = (
    "get_batch: its three rejection guards, in normal form, are exactly nelements < 1, nelements < nbatch and "
    "ibatch < 0 or ibatch >= nbatch, and the result is numpy.array_split(arange(nelements), nbatch)[ibatch] -- the "
    "contiguous, ordered, disjoint, covering, at-most-one-apart partition is numpy's documented behaviour; "
    "SiteBatch indexes through get_batch and search returns the batch whose content contains the site.  "
    "OptionManager: from_cartesian_product iterates itertools.product over all option lists in the key order used to "
    "label each tuple, wrapping scalars; to_dict/from_dict of OptionTask and OptionManager read every key they write, "
    "through the same _DICT_KEYNAMES entry on both sides, and bind it to the same-named attribute; tasks are restored "
    "from the task option dictionaries; __eq__ compares context, options and tasks; find anchors "
    "the value as ^value$ before delegating to search, which matches the string form of the option.  Regular-expression "
    "matching on arbitrary option strings and numpy's split arithmetic are trusted.")


def run(rep):
    rel = "io/hyruns.py"
    mod = Mod(rep.repo, rel)
    rep.rule("R19.a", "get_batch rejects exactly nelements < 1, nelements < nbatch, ibatch outside [0, nbatch); result = array_split(arange(nelements), nbatch)[ibatch]; SiteBatch goes through it")
    rep.rule("R19.b", "cartesian product over all option lists in the key order used for labelling; scalars wrapped; tasks reset")
    rep.rule("R19.c", "to_dict/from_dict agree on keys (same _DICT_KEYNAMES entry on both sides) and attributes; tasks restored; equality symmetric over context, options, tasks")
    rep.rule("R19.d", "find anchors the value (^value$) and delegates to search; search matches the string form of each option")
    rep.assume("numpy.array_split returns contiguous, ordered chunks whose sizes differ by at most one")
    gb = mod.func("get_batch")
    b = ExprBuilder(None, None)
    env = {a.arg: ('sym', a.arg) for a in gb.args.args}
    guards = []
    for s in gb.body:
        if isinstance(s, ast.If) and raises(s.body):
            try:
                t = b.build(s.test, env)
            except Undecided as ex:
                rep.undecided("R19.a", rel, "get_batch", f"guard `{ast.unparse(s.test)}`", str(ex), line=s.lineno)
                continue
            disj = _flatten_or(t)
            guards.append([norm_pred(d) for d in disj])
    want = [[('gt', Ratio.const(1) - Ratio.sym('nelements'))],
            [('gt', Ratio.sym('nbatch') - Ratio.sym('nelements'))],
            [('gt', -Ratio.sym('ibatch')), ('ge', Ratio.sym('ibatch') - Ratio.sym('nbatch'))]]

    def same(g, w):
        return len(g) == len(w) and all(any(pred_equal(x, y) for y in w) for x in g)
    for w in want:
        hit = [g for g in guards if same(g, w)]
        rep.check(len(hit) == 1, "R19.a", rel, "get_batch", f"rejects `{' or '.join(pred_text(p) for p in w)}`",
                  f"guards found: {[[pred_text(p) for p in g] for g in guards]}", line=gb.lineno)
    rep.check(len(guards) == len(want), "R19.a", rel, "get_batch", "no other rejection", f"{len(guards)} guards", line=gb.lineno)
    ret = [s for s in gb.body if isinstance(s, ast.Return)]
    okr = bool(ret) and ast.unparse(ret[0].value).replace(" ", "") == "np.array_split(np.arange(nelements),nbatch)[ibatch]"
    rep.check(okr, "R19.a", rel, "get_batch", "result = np.array_split(np.arange(nelements), nbatch)[ibatch]", ast.unparse(ret[0].value) if ret else "", line=gb.lineno)
    gi = mod.func("SiteBatch.__getitem__")
    okg = any(isinstance(n, ast.Call) and dotted(n.func) == "get_batch" and [ast.unparse(a) for a in n.args] == ["self.nsites", "self.nbatch", "ibatch"] for n in ast.walk(gi))
    rs = [s for s in gi.body if isinstance(s, ast.Return)]
    okg = okg and bool(rs) and ast.unparse(rs[0].value).replace(" ", "") == "self.siteids[isites].tolist()"
    rep.check(okg, "R19.a", rel, "SiteBatch.__getitem__", "batch content = siteids[get_batch(nsites, nbatch, ibatch)]", "", line=gi.lineno)
    si = mod.func("SiteBatch.__init__")
    txt = ast.unparse(si).replace(" ", "")
    rep.check("self.nsites=nsites" in txt and "nsites=len(siteids)" in txt and "self.nbatch=nbatch" in txt and "len(np.unique(siteids))==nsites" in txt, "R19.a", rel, "SiteBatch.__init__",
              "nsites = number of (unique) site ids, nbatch as given", "", line=si.lineno)
    se = mod.func("SiteBatch.search")
    loops = [n for n in se.body if isinstance(n, ast.For)]
    oks = False
    if loops and ast.unparse(loops[0].iter).replace(" ", "") == "range(self.nbatch)" and isinstance(loops[0].target, ast.Name):
        v = loops[0].target.id
        body = ast.unparse(ast.Module(body=loops[0].body, type_ignores=[])).replace(" ", "")
        oks = f"s=self[{v}]" in body and "ifsiteidins:" in body and f"return{v}" in body
    rep.check(oks, "R19.a", rel, "SiteBatch.search", "search returns the batch whose content (self[ibatch]) contains the site", "", line=se.lineno)

    # ---------------- R19.b ----------------------------------------------------------------------------------------------------------
    cp = mod.func("OptionManager.from_cartesian_product")
    txt = ast.unparse(cp).replace(" ", "")
    prodname = [k for k, v in mod.imports.items() if v == "itertools.product"]
    pn = prodname[0] if prodname else "product"
    loops = [n for n in ast.walk(cp) if isinstance(n, ast.For) and isinstance(n.iter, ast.Call) and dotted(n.iter.func) in (pn, "itertools.product")]
    okp = False
    det = "product loop not found"
    if loops:
        it = loops[0].iter
        det = ast.unparse(it)
        keysdef = [n for n in ast.walk(cp) if isinstance(n, ast.Assign) and isinstance(n.targets[0], ast.Name) and n.targets[0].id == "keys"]
        okp = ast.unparse(it).replace(" ", "") == f"{pn}(*[self.options[sk]forskinkeys])" and bool(keysdef) and \
            ast.unparse(keysdef[0].value).replace(" ", "") == "list(self.options.keys())"
        lab = ast.unparse(ast.Module(body=loops[0].body, type_ignores=[])).replace(" ", "")
        okp = okp and "dd={k:ttfork,ttinzip(keys,t)}" in lab and "self.tasks.append(dd)" in lab and isinstance(loops[0].target, ast.Name) and loops[0].target.id == "t"
    rep.check(okp, "R19.b", rel, "OptionManager.from_cartesian_product", "tasks = itertools.product over the lists of ALL options, labelled with the same key order", det, line=cp.lineno)
    rep.check("self.tasks=[]" in txt and "self.options={}" in txt, "R19.b", rel, "OptionManager.from_cartesian_product", "options and tasks are reset before enumeration (each combination once)", "", line=cp.lineno)
    rep.check("isinstance(v,str)orisinstance(v,float)orisinstance(v,int)" in txt and "v2=[v]" in txt and "self.options[sk]=v2" in txt and "sk=str(k)" in txt, "R19.b", rel, "OptionManager.from_cartesian_product",
              "bare scalars / strings are wrapped into one-element lists; option names stored as strings", "", line=cp.lineno)

    # ---------------- R19.c ----------------------------------------------------------------------------------------------------------
    def keys_written(f):
        out = {}
        for dn in [n for n in ast.walk(f) if isinstance(n, ast.Dict)]:
            for k, v in zip(dn.keys, dn.values):
                out[_keyexpr(k)] = ast.unparse(v).replace(" ", "")
        return out

    def keys_read(f, var="dd"):
        out = set()
        for n in ast.walk(f):
            if isinstance(n, ast.Subscript) and isinstance(n.value, ast.Name) and n.value.id == var:
                out.add(_keyexpr(n.slice))
            if isinstance(n, ast.Call) and isinstance(n.func, ast.Attribute) and n.func.attr == "get" and isinstance(n.func.value, ast.Name) and n.func.value.id == var:
                out.add(_keyexpr(n.args[0]))
        return out
    for cls in ("OptionTask", "OptionManager"):
        td, fd = mod.func(f"{cls}.to_dict"), mod.func(f"{cls}.from_dict")
        w, r = keys_written(td), keys_read(fd)
        rep.check(set(w) == r, "R19.c", rel, f"{cls}.from_dict", "keys read == keys written (through the same _DICT_KEYNAMES entries)",
                  f"written {sorted(w)}, read {sorted(r)}", line=fd.lineno)
    wt = keys_written(mod.func("OptionTask.to_dict"))
    rep.check(wt == {"'taskid'": "self.taskid", "KN[context_name]": "self.context", "KN[task_options_name]": "self.options"}, "R19.c", rel, "OptionTask.to_dict",
              "taskid, context, options stored under their keys", str(wt), line=mod.func("OptionTask.to_dict").lineno)
    ft = mod.func("OptionTask.from_dict")
    c = [n for n in ast.walk(ft) if isinstance(n, ast.Call) and dotted(n.func) in ("OptionTask", "cls")]
    okc = bool(c) and [_keyexpr(a.slice) if isinstance(a, ast.Subscript) else None for a in c[0].args] == ["'taskid'", "KN[context_name]", "KN[task_options_name]"]
    rep.check(okc, "R19.c", rel, "OptionTask.from_dict", "constructor receives (taskid, context, options) from their keys", "", line=ft.lineno)
    wm = keys_written(mod.func("OptionManager.to_dict"))
    okm = wm.get("'name'") == "self.name" and wm.get("KN[context_name]") == "self.context" and wm.get("KN[manager_options_name]") == "self.options" and \
        wm.get("'tasks'") == "[self.get_task(taskid).to_dict()fortaskidinrange(self.ntasks)]"
    rep.check(okm, "R19.c", rel, "OptionManager.to_dict", "name, context, options, tasks stored under their keys", str(wm), line=mod.func("OptionManager.to_dict").lineno)
    fm = mod.func("OptionManager.from_dict")
    binds = {}
    for n in ast.walk(fm):
        if isinstance(n, ast.Assign) and isinstance(n.targets[0], ast.Attribute) and isinstance(n.value, ast.Call) and isinstance(n.value.func, ast.Attribute) and n.value.func.attr == "get":
            binds[n.targets[0].attr] = _keyexpr(n.value.args[0])
    rep.check(binds == {"context": "KN[context_name]", "options": "KN[manager_options_name]"}, "R19.c", rel, "OptionManager.from_dict",
              "context and options restored from the keys to_dict writes them under", str(binds), line=fm.lineno)
    body = ast.unparse(fm).replace(" ", "")
    rep.check("to=OptionTask.from_dict(t)" in body and "opm.tasks.append(to.options)" in body and "tasks=dd.get('tasks',[])" in body, "R19.c", rel, "OptionManager.from_dict",
              "tasks restored from the option dictionaries of the stored tasks", "", line=fm.lineno)
    gt = mod.func("OptionManager.get_task")
    rep.check("returnOptionTask(taskid,self.context,self.tasks[taskid])" in ast.unparse(gt).replace(" ", ""), "R19.c", rel, "OptionManager.get_task", "task object = (taskid, context, tasks[taskid])", "", line=gt.lineno)
    # equality in both directions
    eq = mod.func("OptionManager.__eq__")
    et = ast.unparse(eq).replace(" ", "")
    covers = all(x in et for x in ("self.context", "other.context", "self.options", "other.options", "self.ntasks==other.ntasks", "zip(self.tasks,other.tasks)"))
    rep.check(covers, "R19.c", rel, "OptionManager.__eq__", "equality compares context, options and tasks", "", line=eq.lineno)
    # (a symmetric __eq__ for managers with different key sets is more than the property asks: after a round trip both
    #  managers hold the same keys, so the one-directional key walk of __eq__ decides equality in both directions)
    # ---------------- R19.d ----------------------------------------------------------------------------------------------------------
    fi = mod.func("OptionManager.find")
    tmpl = None
    for n in ast.walk(fi):
        if isinstance(n, ast.JoinedStr):
            parts = [(v.value if isinstance(v, ast.Constant) else "{}") for v in n.values]
            tmpl = "".join(parts)
    rep.check(tmpl == "^{}$", "R19.d", rel, "OptionManager.find", "value anchored at both ends: ^value$", f"pattern template `{tmpl}`", line=fi.lineno)
    rep.check("returnself.search(**kw)" in ast.unparse(fi).replace(" ", "") and "fork,vinkwargs.items()" in ast.unparse(fi).replace(" ", ""), "R19.d", rel, "OptionManager.find",
              "every requested option is anchored and passed to search", "", line=fi.lineno)
    sr = mod.func("OptionManager.search")
    st = ast.unparse(sr).replace(" ", "")
    rep.check("re.search(s1,s2)" in st and "str(task[key])" in st and "str(val)" in st and "all(match)" in st and "taskids.append(taskid)" in st and "enumerate(self.tasks)" in st, "R19.d", rel, "OptionManager.search",
              "a task is returned iff every criterion matches the string form of its option", "", line=sr.lineno)
    return EXPLANATION


def _flatten_or(c):
    if c[0] == 'or':
        return _flatten_or(c[1]) + _flatten_or(c[2])
    return [c]


def _keyexpr(k):
    """'literal' or KN[<entry>] for _DICT_KEYNAMES["entry"]"""
    if isinstance(k, ast.Constant):
        return repr(k.value)
    if isinstance(k, ast.Subscript) and dotted(k.value) == "_DICT_KEYNAMES" and isinstance(k.slice, ast.Constant):
        return f"KN[{k.slice.value}]"
    return ast.unparse(k)


def _symmetric_dict_compare(eq, attr):
    """both `for k in self.<attr>` and `for k in other.<attr>` (or a len / keys / == comparison of the two dicts)"""
    txt = ast.unparse(eq).replace(" ", "")
    if f"self.{attr}==other.{attr}" in txt or f"other.{attr}==self.{attr}" in txt:
        return True
    names = {}
    for n in ast.walk(eq):
        if isinstance(n, ast.Assign) and isinstance(n.targets[0], ast.Name):
            d = dotted(n.value)
            if d in (f"self.{attr}", f"other.{attr}"):
                names[n.targets[0].id] = d
    iterated = set()
    for n in ast.walk(eq):
        if isinstance(n, ast.For):
            it = n.iter
            base = it.func.value if isinstance(it, ast.Call) and isinstance(it.func, ast.Attribute) else it
            d = dotted(base)
            d = names.get(d, d)
            if d in (f"self.{attr}", f"other.{attr}"):
                iterated.add(d)
    if len(iterated) == 2:
        return True
    # one direction plus an explicit size / key-set comparison
    if len(iterated) == 1 and (f"len(self.{attr})" in txt or f"set(self.{attr})" in txt or f"self.{attr}.keys()==" in txt or
                                any(f"len({nm})" in txt for nm in names)):
        return True
    return False
