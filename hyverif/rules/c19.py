"""C19 -- batches partition the work and option grids enumerate every combination once (structural clauses)."""
import ast
import re

from ..core import AnalysisError
from .. import cq, pq
from ..pyfront import Mod, dotted, const_value, raises
from ..formula import ExprBuilder, Canon, Ratio, Undecided, show, num
from ..tmethods import norm_pred, pred_equal, pred_text

EXPLANATION = (
    "get_batch: its three rejection guards, in normal form, are exactly nelements < 1, nelements < nbatch and "
    "ibatch < 0 or ibatch >= nbatch, and the result is numpy.array_split(arange(nelements), nbatch)[ibatch] -- the "
    "contiguous, ordered, disjoint, covering, at-most-one-apart partition is numpy's documented behaviour; "
    "SiteBatch indexes through get_batch and search returns the batch whose content contains the site.  "
    "OptionManager: from_cartesian_product iterates itertools.product over all option lists in the key order used to "
    "label each tuple, wrapping scalars; to_dict/from_dict of OptionTask and OptionManager read every key they write, "
    "through the same _DICT_KEYNAMES entry on both sides, and bind it to the same-named attribute; tasks are restored "
    "from the task option dictionaries; __eq__ compares context, options and tasks; find anchors "
    "the value as ^value$ before delegating to search, which matches the string form of the option.  Regular-expression "
    "matching on arbitrary option strings and numpy's split arithmetic are trusted.")


KN = lambda k: f"_DICT_KEYNAMES['{k}']"


def _dict_items(e):
    """dict Expr -> {key Expr text: value Expr}"""
    if pq.call_named(e, "setitem") and len(e[2]) == 3:          # literal followed by `d[key] = value`
        base = _dict_items(e[2][0])
        if base is None:
            return None
        base[show(e[2][1])] = e[2][2]
        return base
    if not pq.call_named(e, "dict"):
        return None
    keys, vals = e[2][0][1], e[2][1][1]
    return {show(k_): v for k_, v in zip(keys, vals)}


def attr_alias_norm(fdef):
    """`N = <fresh container>; ...; self.A = N` with N bound once: N and self.A name the same object from then on, so the function is
    read with `self.A = <fresh container>` in place of the first statement and `self.A` for every later use of N (a copy of the
    function is returned; the original tree is left as parsed)"""
    import copy
    f = copy.deepcopy(fdef)
    body = f.body
    binds = {}
    for n in ast.walk(f):
        if isinstance(n, ast.Name) and isinstance(n.ctx, (ast.Store, ast.Del)):
            binds[n.id] = binds.get(n.id, 0) + 1
    for i, st in enumerate(body):
        if not (isinstance(st, ast.Assign) and len(st.targets) == 1 and isinstance(st.targets[0], ast.Name) and binds.get(st.targets[0].id) == 1 and
                isinstance(st.value, (ast.Dict, ast.List)) and not (st.value.keys if isinstance(st.value, ast.Dict) else st.value.elts)):
            continue
        nm = st.targets[0].id
        for j in range(i + 1, len(body)):
            s2 = body[j]
            if isinstance(s2, ast.Assign) and len(s2.targets) == 1 and isinstance(s2.targets[0], ast.Attribute) and dotted(s2.targets[0]) and \
                    dotted(s2.targets[0]).startswith("self.") and isinstance(s2.value, ast.Name) and s2.value.id == nm:
                if any(isinstance(x, ast.Name) and x.id == nm for k_ in range(i + 1, j) for x in ast.walk(body[k_])):
                    break               # used in between: keep as written
                attr = s2.targets[0]

                class _R(ast.NodeTransformer):
                    def visit_Name(self, n):
                        if n.id == nm and isinstance(n.ctx, ast.Load):
                            return ast.copy_location(copy.deepcopy(attr), n)
                        return n
                new_first = ast.copy_location(ast.Assign(targets=[copy.deepcopy(attr)], value=st.value), s2)
                for a_ in ast.walk(new_first.targets[0]):
                    if hasattr(a_, "ctx"):
                        a_.ctx = ast.Store()
                new_first.targets[0].value.ctx = ast.Load()
                rest = [_R().visit(x) for x in body[j + 1:]]
                for x in rest:
                    for a_ in ast.walk(x):
                        if isinstance(a_, ast.Attribute) and dotted(a_) == dotted(attr) and isinstance(getattr(a_, "ctx", None), ast.Store):
                            pass
                f.body = body[:i] + body[i + 1:j] + [new_first] + rest
                ast.fix_missing_locations(f)
                return attr_alias_norm(f)
    return f


def _loop_paths(pe, line=None):
    return [p_ for tag, p_ in getattr(pe, "loop_paths", []) if line is None or tag == f"loop@{line}"]


def run(rep):
    rel = "io/hyruns.py"
    mod = Mod(rep.repo, rel)
    rep.rule("R19.a", "get_batch rejects exactly nelements < 1, nelements < nbatch, ibatch outside [0, nbatch); result = array_split(arange(nelements), nbatch)[ibatch]; SiteBatch goes through it")
    rep.rule("R19.b", "cartesian product over all option lists in the key order used for labelling; scalars wrapped; tasks reset")
    rep.rule("R19.c", "to_dict/from_dict agree on keys (same _DICT_KEYNAMES entry on both sides) and attributes; tasks restored; equality compares context, options, tasks")
    rep.rule("R19.d", "find anchors the value (^value$) and delegates to search; search matches the string form of each option")
    rep.assume("numpy.array_split returns contiguous, ordered chunks whose sizes differ by at most one")
    gb = mod.func("get_batch")
    gpaths = pq.PEval().run(gb)
    raises_ = [p_ for p_ in gpaths if p_.how == "raise"]
    want = ["nelements < 1", "nelements < nbatch", "ibatch < 0 || ibatch >= nbatch"]
    cn = Canon()
    got = []
    for p_ in raises_:
        c, t = p_.conds[-1]
        a = cq.cond_atoms(c, True, None, cn)
        got.append(a if t else cq._negate(a))
    for w in want:
        wa = cq.cond_atoms(w, True, None, cn)
        rep.check(sum(1 for g in got if g == wa) == 1, "R19.a", rel, "get_batch", f"rejects `{w}`", f"rejections found: {[cq.atom_text(g) for g in got]}", line=gb.lineno)
    rep.check(len(got) == len(want), "R19.a", rel, "get_batch", "no other rejection", f"{len(got)} rejections", line=gb.lineno)
    rets = [p_ for p_ in gpaths if p_.how == "return"]
    okr = len(rets) == 1 and pq.same(rets[0].value, "np.array_split(np.arange(nelements), nbatch)[ibatch]")
    rep.check(okr, "R19.a", rel, "get_batch", "result = np.array_split(np.arange(nelements), nbatch)[ibatch]", show(rets[0].value)[:120] if rets else "", line=gb.lineno)
    gi = mod.func("SiteBatch.__getitem__")
    gr = [p_ for p_ in pq.PEval().run(gi) if p_.how == "return"]
    okg = len(gr) == 1 and (pq.same(gr[0].value, "self.siteids[get_batch(self.nsites, self.nbatch, ibatch)].tolist()") or
                            pq.same(gr[0].value, "list(self.siteids[get_batch(self.nsites, self.nbatch, ibatch)])"))
    rep.check(okg, "R19.a", rel, "SiteBatch.__getitem__", "batch content = siteids[get_batch(nsites, nbatch, ibatch)]", show(gr[0].value)[:120] if gr else "", line=gi.lineno)
    si = mod.func("SiteBatch.__init__")
    sp = [p_ for p_ in pq.PEval().run(si) if p_.how in ("end", "return")]
    oki = bool(sp)
    for p_ in sp:
        at = {e.target: e.val for e in p_.effects if e.kind == 'attr'}
        oki = oki and "self.nsites" in at and pq.same(at["self.nsites"], "len(np.array(siteids))") and "self.nbatch" in at and pq.same(at["self.nbatch"], "nbatch") and \
            "self.siteids" in at and pq.same(at["self.siteids"], "np.array(siteids)")
    uniq = any(isinstance(n, ast.Assert) for n in ast.walk(si)) and "unique" in ast.unparse(si)
    rep.check(oki and uniq, "R19.a", rel, "SiteBatch.__init__", "nsites = number of (unique) site ids, nbatch as given", "", line=si.lineno)
    se = mod.func("SiteBatch.search")
    pe = pq.PEval()
    pe.run(se)
    lps = [p_ for p_ in _loop_paths(pe) if p_.how == "return"]
    oks = len(lps) >= 1
    for p_ in lps:
        it = p_.value
        oks = oks and pq.same(it, ('call', 'elem', (pq.parse("range(self.nbatch)"),))) and \
            pq.cond_truth(p_.conds, ('call', 'in', (('sym', 'siteid'), ('call', 'getitem', (('sym', 'self'), it))))) is True
    rep.check(oks, "R19.a", rel, "SiteBatch.search", "search returns the batch whose content (self[ibatch]) contains the site", "", line=se.lineno)

    # ---------------- R19.b ----------------------------------------------------------------------------------------------------------
    cp = attr_alias_norm(mod.func("OptionManager.from_cartesian_product"))
    pe = pq.PEval()
    cpaths = [p_ for p_ in pe.run(cp) if p_.how in ("end", "return")]
    if not cpaths:
        raise AnalysisError(f"{rel}: from_cartesian_product: no completing path")
    p_ = cpaths[-1]
    ITEM = ('call', 'elem', (pq.parse("kwargs.items()"),))
    Kx, Vx = ('call', 'getitem', (ITEM, num(0))), ('call', 'getitem', (ITEM, num(1)))
    resets = [e for e in p_.effects if e.kind == 'attr' and e.target in ("self.options", "self.tasks")]
    stores = [e for e in p_.effects if e.kind == 'store' and e.target == "self.options"]
    okreset = [e.target for e in resets[:1]] == ["self.options"] and pq.same(resets[0].val, "{}") and any(e.target == "self.tasks" and pq.same(e.val, "[]") for e in resets)
    rep.check(okreset, "R19.b", rel, "OptionManager.from_cartesian_product", "options and tasks are reset before enumeration (each combination once)", "", line=cp.lineno)
    SCALAR = "isinstance(V, str) or isinstance(V, float) or isinstance(V, int)"
    SCALAR2 = "isinstance(V, (str, float, int))"
    venv = {"V": Vx}
    wrapped = [e for e in stores if pq.same(e.val, ('tuple', (Vx,)))]
    # the iterable itself, or a list / tuple copy of it (same elements in the same order)
    plain = [e for e in stores if pq.same(e.val, Vx) or any(pq.same(e.val, ('call', fn_, (Vx,))) for fn_ in ("py.list", "list"))]
    plain = [e for e in plain if not any(e is w_ for w_ in wrapped)]
    okw = len({show(e.key) for e in stores}) == 1 and bool(stores) and pq.same(stores[0].key, ('call', 'py.str', (Kx,))) and bool(wrapped) and bool(plain)
    def scalar_true(conds):
        return any(t and (pq.same(c, pq.parse(SCALAR, venv)) or pq.same(c, pq.parse(SCALAR2, venv)) or _isinstance_set(c, Vx) == {"str", "float", "int"}) for c, t in conds)
    def scalar_false(conds):
        return any((not t) and (pq.same(c, pq.parse(SCALAR, venv)) or pq.same(c, pq.parse(SCALAR2, venv)) or _isinstance_set(c, Vx) == {"str", "float", "int"}) for c, t in conds)
    okw = okw and all(scalar_true(e.conds) for e in wrapped) and all(scalar_false(e.conds) for e in plain)
    # positive refutation: an iterating conversion of the option value on a path where it can still be a string (list("gr4j") is four options)
    split = []
    try:
        pe2 = pq.PEval()
        pe2.inline = {n.name: n for n in mod.tree.body if isinstance(n, ast.FunctionDef)}
        for q_ in (pe2.run(cp) if pe2.inline else []):
            for e in q_.effects:
                if e.kind == 'store' and e.target == "self.options" and not scalar_false(e.conds) and not scalar_true(e.conds):
                    for sub in pq.find(e.val, lambda x: isinstance(x, tuple) and len(x) >= 3 and x[0] == 'call' and x[1] in ("py.list", "list", "py.tuple", "tuple", "py.sorted", "sorted", "py.set", "set", "py.iter", "iter")
                                       and any(pq.same(a_, Vx) for a_ in x[2])):
                        split.append(show(sub)[:70])
        for e in stores:
            if not scalar_false(e.conds) and not scalar_true(e.conds):
                for sub in pq.find(e.val, lambda x: isinstance(x, tuple) and len(x) >= 3 and x[0] == 'call' and x[1] in ("py.list", "list", "py.tuple", "tuple", "py.sorted", "sorted", "py.set", "set")
                                   and any(pq.same(a_, Vx) for a_ in x[2])):
                    split.append(show(sub)[:70])
    except Exception:
        split = []
    rep.check(not split, "R19.b", rel, "OptionManager.from_cartesian_product", "an option value is never iterated (list / tuple / sorted of it) on a path where it can be a bare string",
              f"{sorted(set(split))[:1]} is stored without an isinstance(str) test on the path: 'gr4j' becomes the four options g, r, 4, j", line=cp.lineno, firm=True)
    rep.check(okw, "R19.b", rel, "OptionManager.from_cartesian_product", "bare scalars / strings are wrapped into one-element lists; option names stored as strings",
              "; ".join(repr(e)[:100] for e in stores)[:300], line=cp.lineno)
    apps = [e for e in p_.effects if e.kind == 'call' and e.target == "self.tasks.append" and e.loops]
    exts = [e for e in p_.effects if e.kind == 'call' and e.target == "self.tasks.extend" and not e.loops]
    okp, det = False, "task append in a product loop (or extend over a product) not found"
    prodloops = [n for n in ast.walk(cp) if isinstance(n, ast.For) and isinstance(n.iter, ast.Call)]
    pairs = []          # (iterable Expr, appended element Expr with T = elem(iterable))
    env = p_.env
    if apps and prodloops:
        lp = [n for n in prodloops if f"loop@{n.lineno}" in apps[0].loops]
        if lp and pq.call_named(apps[0].val, ".append"):
            pairs.append((pq.PB().build(lp[0].iter, env), apps[0].val[2][1]))
    for e in exts:
        v = e.val
        if pq.call_named(v, ".extend") and len(v[2]) == 2 and pq.call_named(v[2][1], "map") and len(v[2][1][2]) == 2:
            pairs.append((v[2][1][2][1], v[2][1][2][0]))
    pn = [k_ for k_, v in mod.imports.items() if v == "itertools.product"] + ["product", "itertools.product"]
    for it, appended in pairs[:1]:
        KEYSS = ["list(self.options.keys())", "list(self.options)", "self.options.keys()", "self.options", "tuple(self.options)", "tuple(self.options.keys())"]
        forms = ["prod(*list(self.options.values()))", "prod(*self.options.values())"] + [f"prod(*[self.options[sk] for sk in {K_}])" for K_ in KEYSS]
        it_ok = any(pq.same(_rename_call(it, pn), f_, env) for f_ in forms)
        T = ('call', 'elem', (it,))
        labs = [('call', 'py.dict', (('call', 'py.zip', (pq.parse(K_, env), T)),)) for K_ in KEYSS]
        lab_ok = any(pq.same(appended, l_) for l_ in labs)
        okp = it_ok and lab_ok
        det = f"iterable {show(it)[:100]} ({it_ok}); appended {show(appended)[:100]} ({lab_ok})"
    rep.check(okp, "R19.b", rel, "OptionManager.from_cartesian_product", "tasks = itertools.product over the lists of ALL options, labelled with the same key order", det, line=cp.lineno)

    # ---------------- R19.c ----------------------------------------------------------------------------------------------------------
    tt = mod.func("OptionTask.to_dict")
    tr = [p_ for p_ in pq.PEval().run(tt) if p_.how == "return"]
    wt = _dict_items(tr[0].value) if len(tr) == 1 else None
    want_t = {"'taskid'": "self.taskid", show(pq.parse(KN("context_name"))): "self.context", show(pq.parse(KN("task_options_name"))): "self.options"}
    rep.check(wt is not None and set(wt) == set(want_t) and all(pq.same(wt[k_], v) for k_, v in want_t.items()), "R19.c", rel, "OptionTask.to_dict",
              "taskid, context, options stored under their keys", str(sorted(wt or {}))[:200], line=tt.lineno)
    ft = mod.func("OptionTask.from_dict")
    fr = [p_ for p_ in pq.PEval().run(ft) if p_.how == "return"]
    okc = False
    if len(fr) == 1 and (pq.call_named(fr[0].value, "f:OptionTask") or pq.call_named(fr[0].value, "f:cls")):
        v_ = fr[0].value
        ini = mod.func("OptionTask.__init__")
        pnames = [a.arg for a in ini.args.args][1:]
        got_ = dict(zip(pnames, v_[2]))
        got_.update({k_: x for k_, x in (v_[3] if len(v_) > 3 else ())})
        want_ = {"taskid": "dd['taskid']", "context": f"dd[{KN('context_name')}]", "options": f"dd[{KN('task_options_name')}]"}
        okc = set(got_) == set(want_) and len(v_[2]) <= len(pnames) and all(pq.same(got_[k_], w_) for k_, w_ in want_.items())
    rep.check(okc, "R19.c", rel, "OptionTask.from_dict", "constructor receives (taskid, context, options) from the keys to_dict writes them under", show(fr[0].value)[:160] if fr else "", line=ft.lineno)
    tm = mod.func("OptionManager.to_dict")
    mr = [p_ for p_ in pq.PEval().run(tm) if p_.how == "return"]
    wm = _dict_items(mr[0].value) if len(mr) == 1 else None
    kc, ko = show(pq.parse(KN("context_name"))), show(pq.parse(KN("manager_options_name")))
    okm = wm is not None and set(wm) == {"'name'", kc, ko, "'tasks'"} and pq.same(wm["'name'"], "self.name") and pq.same(wm[kc], "self.context") and pq.same(wm[ko], "self.options")
    # tasks entry: element i = dictionary of the task object (i, context, tasks[i]), for i over all tasks in order
    gt0 = mod.func("OptionManager.get_task")
    gt0r = [p_ for p_ in pq.PEval().run(gt0, {"taskid": ('sym', '$i')}) if p_.how == "return"]
    I = ('sym', '$i')
    TS = pq.parse("self.tasks")

    def _sub(e, f):
        if not isinstance(e, tuple):
            return e
        r = f(e)
        if r is not None:
            return r
        return tuple(_sub(x, f) for x in e)

    def task_element(v):
        if not (pq.call_named(v, "map") and len(v[2]) == 2):
            return None
        body, it = v[2]
        E = ('call', 'elem', (it,))
        if pq.call_named(it, "py.range") and len(it[2]) == 1 and (pq.same(it[2][0], "self.ntasks") or pq.same(it[2][0], ('call', 'shape', (TS, num(0))))):
            body = _sub(body, lambda x: I if x == E else None)
        elif pq.call_named(it, "py.enumerate") and len(it[2]) == 1 and len(it) == 3 and pq.same(it[2][0], TS):
            body = _sub(body, lambda x: I if x == ('call', 'getitem', (E, num(0))) else (('call', 'getitem', (TS, I)) if x == ('call', 'getitem', (E, num(1))) else None))
        else:
            return None
        if pq.mentions(body, lambda x: x == E):
            return None
        if len(gt0r) == 1:
            body = _sub(body, lambda x: _sub(gt0r[0].value, lambda y: x[2][1] if y == I else None)
                        if pq.call_named(x, ".get_task") and len(x[2]) == 2 and x[2][0] == ('sym', 'self') and len(x) == 3 else None)
        return body
    te = task_element(wm["'tasks'"]) if okm else None
    if okm and te is None:
        rep.undecided("R19.c", rel, "OptionManager.to_dict", "tasks entry lists the dictionary of every task in order", "form not recognised: " + show(wm["'tasks'"])[:160], line=tm.lineno)
    elif okm:
        okm = pq.call_named(te, ".to_dict") and len(te[2]) == 1 and pq.call_named(te[2][0], "f:OptionTask") and len(te[2][0][2]) == 3 and len(te[2][0]) == 3 and \
            pq.same(te[2][0][2][1], "self.context") and pq.same(te[2][0][2][2], ('call', 'getitem', (TS, I)))
        if okm and not pq.same(te[2][0][2][0], I):
            rep.undecided("R19.c", rel, "OptionManager.to_dict", "task dictionaries carry their own index as taskid", show(te[2][0][2][0])[:100], line=tm.lineno)
    rep.check(okm, "R19.c", rel, "OptionManager.to_dict", "name, context, options, tasks stored under their keys", str(sorted(wm or {}))[:200], line=tm.lineno)
    fm = mod.func("OptionManager.from_dict")
    pe = pq.PEval()
    fpaths = [p_ for p_ in pe.run(fm) if p_.how == "return"]
    okf, okt = len(fpaths) >= 1, len(fpaths) >= 1
    for p_ in fpaths:
        at = {e.target.split(".")[-1]: e.val for e in p_.effects if e.kind == 'attr'}
        okf = okf and "context" in at and pq.same(at["context"], f"dd.get({KN('context_name')}, {{}})") and "options" in at and pq.same(at["options"], f"dd.get({KN('manager_options_name')}, {{}})") and \
            (pq.call_named(p_.value, "f:OptionManager") or pq.call_named(p_.value, "f:cls"))
        TASKS = "dd.get('tasks', [])"
        EL = ('call', 'elem', (pq.parse(TASKS),))
        one = ('call', 'attr:options', (('call', '.from_dict', (('sym', 'OptionTask'), EL)),))
        apps = [e for e in p_.effects if e.kind == 'call' and e.target.endswith("tasks.append") and e.loops]
        exts = [e for e in p_.effects if e.kind == 'call' and e.target.endswith("tasks.extend")]
        ok1 = any(pq.call_named(e.val, ".append") and pq.same(e.val[2][1], one) for e in apps) or \
            any(pq.call_named(e.val, ".extend") and pq.same(e.val[2][1], ('call', 'map', (one, pq.parse(TASKS)))) for e in exts)
        okt = okt and ok1
    rep.check(okf, "R19.c", rel, "OptionManager.from_dict", "context and options restored from the keys to_dict writes them under", "", line=fm.lineno)
    rep.check(okt, "R19.c", rel, "OptionManager.from_dict", "tasks restored from the option dictionaries of the stored tasks", "", line=fm.lineno)
    gt = mod.func("OptionManager.get_task")
    gtr = [p_ for p_ in pq.PEval().run(gt) if p_.how == "return"]
    rep.check(len(gtr) >= 1 and all(pq.same(p_.value, "OptionTask(taskid, self.context, self.tasks[taskid])") for p_ in gtr), "R19.c", rel, "OptionManager.get_task",
              "task object = (taskid, context, tasks[taskid])", "", line=gt.lineno)
    # equality: every false return is caused by a difference in context, options or tasks; all three are looked at before returning True
    eq = mod.func("OptionManager.__eq__")
    pe = pq.PEval()
    epaths = pe.run(eq)
    looked = set()
    for p_ in list(epaths) + _loop_paths(pe):
        for c, _t in p_.conds:
            s_ = show(c)
            for nm in ("context", "options", "ntasks", "tasks"):
                if f"attr:{nm}(self)" in s_ and f"attr:{nm}(other)" in s_:
                    looked.add(nm)
        for e in p_.effects:
            pass
    task_loop = any("attr:tasks(self)" in show(c) + "".join(show(x.val) for x in p_.effects if x.val) or True for p_ in _loop_paths(pe) for c, _t in p_.conds) if False else \
        any(isinstance(n, ast.For) and "self.tasks" in ast.unparse(n.iter) and "other.tasks" in ast.unparse(n.iter) for n in ast.walk(eq)) or \
        "self.tasks==other.tasks" in ast.unparse(eq).replace(" ", "")
    true_ret = [p_ for p_ in epaths if p_.how == "return" and pq.same(p_.value, "True")]
    rep.check({"context", "options", "ntasks"} <= looked and task_loop and len(true_ret) >= 1, "R19.c", rel, "OptionManager.__eq__", "equality compares context, options and tasks",
              f"compared: {sorted(looked)}", line=eq.lineno)
    # ---------------- R19.d ----------------------------------------------------------------------------------------------------------
    fi = mod.func("OptionManager.find")
    pe = pq.PEval()
    fpaths = [p_ for p_ in pe.run(fi) if p_.how == "return"]
    okfi, det = len(fpaths) >= 1, ""
    for p_ in fpaths:
        v = p_.value
        kw = dict(v[3]).get("**") if pq.call_named(v, ".search") and len(v) > 3 else None
        det = show(kw)[:160] if kw else show(v)[:100]
        IT = ('call', 'elem', (pq.parse("kwargs.items()"),))
        anchored = ('call', 'fstr', (('sym', "'^'"), ('call', 'getitem', (IT, num(1))), ('sym', "'$'")))
        w1 = ('call', 'dictmap', (('call', 'getitem', (IT, num(0))), anchored, pq.parse("kwargs.items()")))
        ok1 = kw is not None and v[2][0] == ('sym', 'self') and (pq.same(kw, w1) or _built_by_loop(p_, kw, anchored))
        okfi = okfi and ok1
    rep.check(okfi, "R19.d", rel, "OptionManager.find", "every requested option is anchored at both ends (^value$) and passed to search", det, line=fi.lineno)
    sr = mod.func("OptionManager.search")
    pe = pq.PEval()
    spaths = pe.run(sr)
    # a task id is appended iff all criteria matched; a criterion matches iff re.search(str(criterion), str(task[key])) (brackets stripped on both sides)
    srch = []
    for p_ in list(spaths) + _loop_paths(pe):
        for e in p_.effects:
            if e.val is not None:
                srch += pq.find(e.val, lambda x: pq.call_named(x, ".search") and x[2][0] == ('sym', 're'))
            for c, _t in e.conds:
                srch += pq.find(c, lambda x: pq.call_named(x, ".search") and x[2][0] == ('sym', 're'))
        for c, _t in p_.conds:
            srch += pq.find(c, lambda x: pq.call_named(x, ".search") and x[2][0] == ('sym', 're'))
    okse = bool(srch)
    for x in srch[:1]:
        pat, subj = x[2][1], x[2][2]
        okse = okse and pq.mentions(pat, lambda y: pq.call_named(y, "py.str")) and pq.mentions(subj, lambda y: pq.call_named(y, "py.str") and pq.mentions(y, lambda z: pq.call_named(z, "getitem"))) and \
            pq.mentions(pat, lambda y: pq.call_named(y, "elem")) and not pq.mentions(pat, lambda y: pq.call_named(y, "py.enumerate"))
    flagged = [x for x in srch if len(x[2]) > 3 or (len(x) > 3 and dict(x[3]).get("flags") is not None)]
    rep.check(not flagged, "R19.d", rel, "OptionManager.search", "the pattern match carries no flag (case-insensitive or multi-line matching makes find() return options that are not equal)",
              f"re.search called with {show(flagged[0][2][3])[:40] if flagged and len(flagged[0][2]) > 3 else 'flags='}" if flagged else "", line=sr.lineno, firm=True)
    alls = any("all(" in ast.unparse(n) for n in ast.walk(sr) if isinstance(n, (ast.If, ast.IfExp, ast.Assign, ast.Return)))
    app = any(e.kind == 'call' and e.target.endswith(".append") and pq.mentions(e.val, lambda y: pq.call_named(y, "py.enumerate")) for p_ in list(spaths) + _loop_paths(pe) for e in p_.effects)
    rep.check(okse and alls and app, "R19.d", rel, "OptionManager.search", "a task is returned iff every criterion matches (re.search) the string form of its option", "", line=sr.lineno)
    # no state shared between managers: a list / dict created in the class body is one object for all instances, and from_dict /
    # from_cartesian_product append to it
    for cdef in [n for n in mod.tree.body if isinstance(n, ast.ClassDef)]:
        shared = [t.id for n in cdef.body if isinstance(n, ast.Assign) and isinstance(n.value, (ast.List, ast.Dict, ast.Set)) or
                  (isinstance(n, ast.Assign) and isinstance(n.value, ast.Call) and dotted(n.value.func) in ("list", "dict", "set", "OrderedDict", "defaultdict"))
                  for t in n.targets if isinstance(t, ast.Name)]
        mutated = set()
        for m_ in [x for x in cdef.body if isinstance(x, ast.FunctionDef)]:
            for n in ast.walk(m_):
                if isinstance(n, ast.Call) and isinstance(n.func, ast.Attribute) and n.func.attr in ("append", "extend", "update", "insert", "add", "pop", "clear", "setdefault") and \
                        isinstance(n.func.value, ast.Attribute) and isinstance(n.func.value.value, ast.Name) and n.func.value.attr in shared:
                    mutated.add(n.func.value.attr)
                if isinstance(n, ast.Subscript) and isinstance(n.ctx, ast.Store) and isinstance(n.value, ast.Attribute) and n.value.attr in shared:
                    mutated.add(n.value.attr)
        init = [x for x in cdef.body if isinstance(x, ast.FunctionDef) and x.name == "__init__"]
        rebound = {t.attr for x in init for n in ast.walk(x) if isinstance(n, ast.Assign) for t in n.targets
                   if isinstance(t, ast.Attribute) and isinstance(t.value, ast.Name) and t.value.id == "self"}
        bad_ = sorted(a for a in mutated if a not in rebound)
        rep.check(not bad_, "R19.c", rel, cdef.name, f"{cdef.name}: containers that methods fill are created per instance in __init__",
                  f"class-level {bad_} is one object shared by every instance: a second from_dict / round trip sees the tasks of the first", line=cdef.lineno, firm=True)
    return EXPLANATION


def _isinstance_set(c, v):
    """`isinstance(v, A) or isinstance(v, B) ..` / isinstance(v, (A, B, ..)) -> set of type names, else None"""
    out = set()

    def rec(e):
        if e[0] == 'or':
            return rec(e[1]) and rec(e[2])
        if pq.call_named(e, "py.isinstance") and len(e[2]) == 2 and pq.same(e[2][0], v):
            t = e[2][1]
            if t[0] == 'sym':
                out.add(t[1])
                return True
            if t[0] == 'tuple' and all(x[0] == 'sym' for x in t[1]):
                out.update(x[1] for x in t[1])
                return True
        return False
    return out if rec(c) else None


def _rename_call(e, names):
    """f:<alias>(..) -> f:prod(..) for the aliases of itertools.product"""
    if not isinstance(e, tuple) or not e or not isinstance(e[0], str):
        return e
    if e[0] == 'call' and e[1].startswith("f:") and e[1][2:] in names:
        return ('call', 'f:prod') + tuple(e[2:])
    return e


def _built_by_loop(path, kw, anchored):
    """kw is a dict filled in a loop over kwargs.items() with kw[k] = f'^{v}$'"""
    for e in path.effects:
        if e.kind == 'store' and e.loops and pq.same(e.val, anchored):
            return True
    return False
