"""C14 -- variable-to-fixed time-step conversion is the exact period average of the data (structural clauses)."""
import ast

from ..core import AnalysisError
from ..cfront import strip, text
from .. import ckern, xlayer, pyxread
from ..ceval import CEval, find_all, loop_parts, body_stmts, loop_var, stores_to
from ..formula import Canon, Ratio, Undecided, show, num
from ..pyfront import Mod, dotted, const_value

EXPLANATION = (
    "c_var2h's integration step is evaluated symbolically: an interval is invalid iff one of its two end values is "
    "missing or negative or it is longer than maxgapsec (all five disjuncts); both ends of the interval are clipped "
    "to the period; the contribution is the exact trapezoid of the linear interpolant between the clipped ends "
    "(rational identity), or the rainfall increment prorated by the clipped share of the interval; the stored value "
    "is integral / period length, or NaN when any overlapping interval was invalid; the period start is computed "
    "in 64-bit.  Wrapper: the index is made naive by dropping the zone (wall clock, consistent with the origin built "
    "from wall-clock fields) and converted to whole seconds through an explicit unit pin, never through the storage "
    "resolution; origin = first whole hour after the first observation; output allocated NaN-filled with the number "
    "of periods that also sizes the returned index; error codes raise.  Exactness of the floating-point integration "
    "is not decided.")


def run(rep):
    rep.rule("R14.a", "epoch seconds through an explicit unit pin (independent of the index's storage resolution); zone dropped, not converted")
    rep.rule("R14.b", "kernel step: 5-disjunct validity test, both ends clipped, exact trapezoid / prorated rainfall, mean or NaN stored, 64-bit period start")
    rep.rule("R14.c", "wrapper: origin = first whole hour after the first observation, NaN-filled output of nvalh periods, matching output index, error raises")
    K = ckern.analyze(rep.repo)
    fn = K["fns"].get("c_var2h")
    if fn is None:
        raise AnalysisError("data/c_var2h.c: c_var2h not found")
    file = fn["file"]
    outer = [s for s in fn["body"]["inner"] if s.get("kind") == "ForStmt"]
    if len(outer) != 1:
        raise AnalysisError(f"{file}: period loop not found")
    outer = outer[0]
    iv = loop_var(outer)
    ostm = body_stmts(loop_parts(outer)[3])
    wl = [s for s in ostm if s.get("kind") == "WhileStmt"]
    if len(wl) != 1:
        raise AnalysisError(f"{file}: integration loop not found")
    wl = wl[0]
    rep.unit(f"{file}: c_var2h (period loop, integration loop); data/dutils.py: var2h")
    # period bounds
    pre = [s for s in ostm[:ostm.index(wl)] if s.get("kind") == "BinaryOperator"]
    pce = CEval()
    penv = {"nbsec_per_period_d": ('sym', 'P')}
    pce._walk(pre, penv, [])
    cn = Canon()
    okst = "start" in penv and cn.ratio(penv["start"]) == cn.ratio(('add', ('sym', 'hstartsec'), ('mul', ('sym', iv), ('sym', 'nbsec_per_period'))))
    oken = "end" in penv and cn.ratio(penv["end"]) == cn.ratio(('add', penv.get("start", num(0)), ('sym', 'P')))
    rep.check(okst and oken, "R14.b", file, "c_var2h", "period i = [hstartsec + i*nbsec, + nbsec)", f"start={show(penv.get('start', num(0)))}", line=outer.get("_line"))
    prod = find_all(outer, lambda n: n.get("kind") == "BinaryOperator" and n.get("opcode") == "*" and "nbsec_per_period" in text(n) and text(n).replace(" ", "").replace("(longlong)", "") == f"{iv}*nbsec_per_period")
    rep.check(bool(prod) and all(p["type"]["qualType"] in ("long long", "long") for p in prod), "R14.b", file, "c_var2h", "period start computed in 64-bit (i*nbsec overflows int after ~68 years of hourly data)",
              f"product type {prod[0]['type']['qualType'] if prod else None}", line=outer.get("_line"))
    rep.check(penv.get("hvalue") == num(0) and penv.get("miss") == num(0), "R14.b", file, "c_var2h", "integral and invalid flag reset for every period", "", line=outer.get("_line"))
    # integration step
    wstm = body_stmts(loop_parts(wl)[3])
    wcond = text(loop_parts(wl)[1]).replace(" ", "")
    rep.check(wcond == "t1<end", "R14.b", file, "c_var2h", "intervals starting before the period end are visited", wcond, line=wl.get("_line"))
    # validity test
    vt = [s for s in wstm if s.get("kind") == "IfStmt" and stores_missing(s)]
    okv, det = False, "validity test not found"
    if vt:
        c = CEval().ex(vt[0]["inner"][0], {"val1": ('sym', 'v1'), "val2": ('sym', 'v2'), "t1": ('sym', 't1'), "t2": ('sym', 't2')})
        disj = flatten_or(c)
        norm = set()
        for d in disj:
            if d[0] == 'cmp' and d[1] == '<' and d[2] in (('sym', 'v1'), ('sym', 'v2')):
                r = Canon().ratio(d[3])
                norm.add(("neg", d[2][1]) if r.is_const() and -1e-6 <= float(r.cval()) <= 0 else ("?", show(d)))
            elif d[0] == 'cmp' and d[1] == '>' and Canon().ratio(d[2]) == Canon().ratio(('sub', ('sym', 't2'), ('sym', 't1'))) and d[3] == ('sym', 'maxgapsec'):
                norm.add(("gap",))
            elif d[0] == 'call' and d[1] == 'isnan' and d[2][0] in (('sym', 'v1'), ('sym', 'v2')):
                norm.add(("nan", d[2][0][1]))
            else:
                norm.add(("?", show(d)))
        want = {("neg", "v1"), ("neg", "v2"), ("gap",), ("nan", "v1"), ("nan", "v2")}
        okv = norm == want
        det = f"missing: {sorted(want - norm)}, unexpected: {sorted(norm - want)}"
    rep.check(okv, "R14.b", file, "c_var2h", "interval invalid iff an end value is negative or missing or the interval is longer than maxgapsec", det, line=vt[0].get("_line") if vt else wl.get("_line"))
    # contribution for both modes
    for rain in (True, False):
        def oracle(c, rain=rain):
            s_ = show(c)
            if c[0] == 'cmp' and show(c[2]) == "rainfall":
                return rain if c[1] == "==" else None
            if c[0] == 'cmp' and c[1] == '>' and "IT2" in s_ and "IT1" in s_:
                return True          # the clipped interval has positive length
            if c[0] in ('or',):
                return False         # validity test (handled above)
            if c[0] == 'cmp' and ("nvalvar" in s_):
                return False
            if c[0] == 'cmp' and show(c[2]) == "t2" and show(c[3]) == "t1" and c[1] == "<":
                return False
            return None
        ce = CEval(oracle, {"varsec": lambda idx: ('sym', 't2'), "varvalues": lambda idx: ('sym', 'v2')})
        env = {"t1": ('sym', 't1'), "val1": ('sym', 'v1'), "hvalue": ('sym', 'H0'), "nbsec_per_period_d": ('sym', 'P'), "start": ('sym', 'start'), "end": ('sym', 'end')}
        try:
            # clip expressions stay symbolic: it1, it2 are `where` terms; abstract them
            stm2 = []
            clips = {}
            for s in wstm:
                if s.get("kind") == "BinaryOperator" and s.get("opcode") == "=" and text(s["inner"][0]) in ("it1", "it2"):
                    clips[text(s["inner"][0])] = text(s["inner"][1]).replace(" ", "")
                    continue
                stm2.append(s)
            env.update({"it1": ('sym', 'IT1'), "it2": ('sym', 'IT2')})
            ce._walk(stm2, env, [])
        except Undecided as ex:
            rep.undecided("R14.b", file, "c_var2h", f"integration step ({'rainfall' if rain else 'interpolation'})", str(ex), line=wl.get("_line"))
            continue
        c2 = Canon()
        inc = c2.ratio(('sub', env["hvalue"], ('sym', 'H0')))
        T1, T2, V1, V2, A, B = (Ratio.sym(x) for x in ("t1", "t2", "v1", "v2", "IT1", "IT2"))
        if rain:
            want = V2 * (B - A) / (T2 - T1) * Ratio.sym("P")
            lab = "rainfall: increment prorated by the clipped share of its interval (x period length, divided out at the end)"
        else:
            sl = (V2 - V1) / (T2 - T1)
            fa = sl * (A - T1) + V1
            fb = sl * (B - T1) + V1
            want = (fa + fb) * (B - A) / 2
            lab = "interpolation: exact trapezoid of the linear interpolant between the clipped ends"
        rep.check(inc == want, "R14.b", file, "c_var2h", lab, f"adds {inc}", line=wl.get("_line"))
        if not rain:
            rep.check(clips.get("it1") == "t1<start?start:t1" and clips.get("it2") == "t2>end?end:t2", "R14.b", file, "c_var2h",
                      "both ends clipped to the period: it1 = max(t1, start), it2 = min(t2, end)", str(clips), line=wl.get("_line"))
    # advance and store
    adv = {text(s["inner"][0]): text(s["inner"][1]).replace(" ", "") for s in wstm if s.get("kind") == "BinaryOperator" and s.get("opcode") == "="}
    rep.check(adv.get("t1") == "t2" and adv.get("val1") == "val2" and adv.get("t2") == "(double)varsec[varindex+1]" and adv.get("val2") == "varvalues[varindex+1]", "R14.b", file, "c_var2h",
              "intervals are consecutive observation pairs (t1,val1) -> (t2,val2)", str({k: adv.get(k) for k in ('t1', 'val1', 't2', 'val2')}), line=wl.get("_line"))
    post = [s for s in ostm[ostm.index(wl) + 1:] if stores_to(s, "hvalues")]
    okp = bool(post) and text(post[-1]["inner"][1]).replace(" ", "") in ("miss==0?hvalue/nbsec_per_period_d:nan",)
    rep.check(okp, "R14.b", file, "c_var2h", "stored value = integral / period length, NaN when an overlapping interval was invalid", text(post[-1]["inner"][1]) if post else "", line=outer.get("_line"))
    ts = [s for s in wstm if s.get("kind") == "IfStmt" and text(s["inner"][0]).replace(" ", "") == "t2<t1" and find_all(s, lambda n: n.get("kind") == "ReturnStmt")]
    rep.check(bool(ts), "R14.b", file, "c_var2h", "decreasing time stamps are an error", "", line=wl.get("_line"))

    # ---------------- wrapper ---------------------------------------------------------------------------------------------------------
    mod = Mod(rep.repo, "data/dutils.py")
    f = mod.func("var2h")
    asg = {}
    for n in ast.walk(f):
        if isinstance(n, ast.Assign) and isinstance(n.targets[0], ast.Name):
            asg.setdefault(n.targets[0].id, []).append(n)
    vs = asg.get("varsec", [None])[0]
    ok, det = False, "varsec not assigned"
    if vs is not None:
        txt = ast.unparse(vs.value).replace(" ", "")
        det = txt
        # accepted pins: astype("datetime64[s]") before the integer conversion / as_unit / division by a timedelta64
        pinned = any(p in txt for p in ('astype("datetime64[s]")', "astype('datetime64[s]')", 'as_unit("s")', "as_unit('s')", "np.timedelta64(1,'s')", 'np.timedelta64(1,"s")'))
        scaled = any(isinstance(n, ast.BinOp) and isinstance(n.op, (ast.Div, ast.FloorDiv)) and isinstance(n.right, ast.Constant) and isinstance(n.right.value, (int, float)) and n.right.value >= 1000
                     for n in ast.walk(vs.value))
        ok = pinned and not scaled
    rep.check(ok, "R14.a", "data/dutils.py", "var2h", "time stamps converted to seconds through an explicit unit pin (datetime64[s])",
              f"`{det}`: an integer view of the index divided by a constant depends on the storage resolution (ns / us / s) of the index", line=vs.lineno if vs is not None else f.lineno)
    tm = asg.get("time", [None])[0]
    okz = tm is not None and ast.unparse(tm.value).replace(" ", "") in ("se.index.tz_localize(None).values",)
    rep.check(okz, "R14.a", "data/dutils.py", "var2h", "zone dropped with tz_localize(None): wall-clock stamps, like the origin built from the wall-clock fields of the first stamp",
              ast.unparse(tm.value) if tm is not None else "", line=tm.lineno if tm is not None else f.lineno)
    hs = asg.get("hstart", [None])[0]
    okh = hs is not None and ast.unparse(hs.value).replace(" ", "") == "datetime(start.year,start.month,start.day,start.hour)+delta(hours=1)"
    st = asg.get("start", [None])[0]
    okh = okh and st is not None and ast.unparse(st.value).replace(" ", "") == "se.index[0]"
    rep.check(okh, "R14.c", "data/dutils.py", "var2h", "origin = first whole hour after the first observation", ast.unparse(hs.value) if hs is not None else "", line=f.lineno)
    hsec = asg.get("hstartsec", [None])[0]
    ref = asg.get("ref", [None])[0]
    okr = hsec is not None and ast.unparse(hsec.value).replace(" ", "") == "np.int64((hstart-ref).total_seconds())" and ref is not None and \
        ast.unparse(ref.value).replace(" ", "") == "datetime(1970,1,1)"
    rep.check(okr, "R14.c", "data/dutils.py", "var2h", "origin in seconds since 1970-01-01 (same epoch as the stamps)", "", line=f.lineno)
    nv = asg.get("nvalh", [None])[0]
    okn = nv is not None and ast.unparse(nv.value).replace(" ", "") == "np.int32((end-start).total_seconds()/nbsec_per_period)"
    hv = asg.get("hvalues", [None])
    okf = hv and ast.unparse(hv[0].value).replace(" ", "") in ("np.nan*np.ones(nvalh,dtype=np.float64)", "np.full(nvalh,np.nan)")
    rep.check(okn and okf, "R14.c", "data/dutils.py", "var2h", "output of nvalh = (end - start)/period values, NaN-filled", "", line=f.lineno)
    dt = asg.get("dt", [None])[0]
    okd = dt is not None and isinstance(dt.value, ast.Call) and dotted(dt.value.func) == "pd.date_range" and ast.unparse(dt.value.args[0]) == "hstart" and \
        {k.arg: ast.unparse(k.value) for k in dt.value.keywords} == {"freq": "freq", "periods": "nvalh"}
    fq = asg.get("freq", [None])[0]
    okq = fq is not None and ast.unparse(fq.value).replace(" ", "").replace("'", '"') in ('"h"ifnbsec_per_period==3600else"30min"', '"H"ifnbsec_per_period==3600else"30min"')
    rep.check(okd and okq, "R14.c", "data/dutils.py", "var2h", "returned index starts at the origin with the period as frequency and nvalh periods", "", line=f.lineno)
    P = pyxread.load_all(rep.repo)
    shims = {cm: {sh.name: sh for sh in d["shims"]} for cm, d in P.items()}
    sites, _ = xlayer.find_sites(rep.repo, shims)
    s = [x for x in sites if x.shim.name == "var2h"]
    if len(s) != 1:
        raise AnalysisError("data/dutils.py: call site of var2h not found")
    ok, how, _ = xlayer.error_discipline(s[0])
    rep.check(ok, "R14.c", "data/dutils.py", "var2h", "kernel error code raises", how, line=s[0].call.lineno)
    names = {pn: ast.unparse(v[0]) for pn, v in s[0].args.items()}
    rep.check(all(names.get(k) == k for k in ("maxgapsec", "hstartsec", "nbsec_per_period", "rainfall", "display", "varsec", "varvalues", "hvalues")), "R14.c", "data/dutils.py", "var2h",
              "arguments bound to the same-named shim parameters", str(names), line=s[0].call.lineno)
    return EXPLANATION


def stores_missing(s):
    return bool(find_all(s, lambda n: n.get("kind") == "BinaryOperator" and n.get("opcode") == "=" and text(n["inner"][0]) == "miss"))


def flatten_or(c):
    if c[0] == 'or':
        return flatten_or(c[1]) + flatten_or(c[2])
    return [c]
