"""C14 -- variable-to-fixed time-step conversion is the exact period average of the data (structural clauses)."""
import ast

from ..core import AnalysisError
from ..cfront import strip, text
from .. import cq, pq, cnorm, ckern, xlayer, pyxread
from ..ceval import CEval, find_all, loop_parts, body_stmts, loop_var, stores_to
from ..formula import Canon, Ratio, Undecided, show, num
from ..pyfront import Mod, dotted, const_value

EXPLANATION = (
    "c_var2h's integration step is evaluated symbolically: an interval is invalid iff one of its two end values is "
    "missing or negative or it is longer than maxgapsec (all five disjuncts); both ends of the interval are clipped "
    "to the period; the contribution is the exact trapezoid of the linear interpolant between the clipped ends "
    "(rational identity), or the rainfall increment prorated by the clipped share of the interval; the stored value "
    "is integral / period length, or NaN when any overlapping interval was invalid; the period start is computed "
    "in 64-bit.  Wrapper: the index is made naive by dropping the zone (wall clock, consistent with the origin built "
    "from wall-clock fields) and converted to whole seconds through an explicit unit pin, never through the storage "
    "resolution; origin = first whole hour after the first observation; output allocated NaN-filled with the number "
    "of periods that also sizes the returned index; error codes raise.  Exactness of the floating-point integration "
    "is not decided.")


def run(rep):
    rep.rule("R14.a", "epoch seconds through an explicit unit pin (independent of the index's storage resolution); zone dropped, not converted")
    rep.rule("R14.b", "kernel step: 5-disjunct validity test, both ends clipped, exact trapezoid / prorated rainfall, mean or NaN stored, 64-bit period start")
    rep.rule("R14.c", "wrapper: origin = first whole hour after the first observation, NaN-filled output of nvalh periods, matching output index, error raises")
    K = ckern.analyze(rep.repo)
    if K["fns"].get("c_var2h") is None:
        raise AnalysisError("data/c_var2h.c: c_var2h not found")
    raw = K["fns"]["c_var2h"]
    fn = ckern.normalised(K, "c_var2h", rep.repo)
    file = fn["file"]
    top = body_stmts(fn["body"])
    outer = [s for s in top if s.get("kind") == "ForStmt" and "hvalues" in cnorm.writes(s)[1]]
    if len(outer) != 1:
        raise AnalysisError(f"{file}: period loop not found")
    outer = outer[0]
    olr = cq.loop_range(outer, cq.preceding(top, outer))
    iv = olr["var"] if olr else loop_var(outer)
    ostm = body_stmts(loop_parts(outer)[3])
    wl = [s for s in ostm if s.get("kind") in ("WhileStmt", "ForStmt") and find_all(s, lambda n: n.get("kind") == "CompoundAssignOperator" and n.get("opcode") == "+=")]
    if len(wl) != 1:
        raise AnalysisError(f"{file}: integration loop not found")
    wl = wl[0]
    rep.unit(f"{file}: c_var2h (normalised: period loop, integration loop); data/dutils.py: var2h")
    START = f"(hstartsec + {iv}*nbsec_per_period)"
    END = f"({START} + nbsec_per_period)"
    T2, V2 = "varsec[varindex+1]", "varvalues[varindex+1]"
    # state before the integration loop
    pre = cq.evaluate([s for s in ostm[:ostm.index(wl)] if s.get("kind") != "IfStmt"])
    penv = pre.finals[-1][0] if pre.finals else {}
    # roles of the scalar state: the running integral is the += target, the flag is the scalar set to 1 by the validity test
    wparts = loop_parts(wl)
    wstm = body_stmts(wparts[3])
    accs = {text(n["inner"][0]) for n in find_all(wl, lambda n: n.get("kind") == "CompoundAssignOperator" and n.get("opcode") == "+=" and strip(n["inner"][0]).get("kind") == "DeclRefExpr")}
    if len(accs) != 1:
        raise AnalysisError(f"{file}: running integral of the integration loop not recognised ({sorted(accs)})")
    HV = accs.pop()
    # left end of the current interval: the two scalars initialised from varsec[varindex] / varvalues[varindex]
    T1 = [k_ for k_, v in penv.items() if "[" not in k_ and cq.same_expr(v, "varsec[varindex]")]
    V1 = [k_ for k_, v in penv.items() if "[" not in k_ and cq.same_expr(v, "varvalues[varindex]")]
    rep.check(len(T1) == 1 and len(V1) == 1 and HV in penv and cq.same_expr(penv[HV], "0"), "R14.b", file, "c_var2h",
              "each period starts from the current observation with a zero integral", f"left end {T1}, {V1}", line=outer.get("_line"))
    if len(T1) != 1 or len(V1) != 1:
        return EXPLANATION
    T1, V1 = T1[0], V1[0]
    okcond = any(cq.same_cond(c_, f"{T1} < {END}", False) for c_ in cq._conj(wparts[1]))
    rep.check(okcond, "R14.b", file, "c_var2h", "intervals starting before the period end are visited (period i = [hstartsec + i*nbsec, + nbsec))", text(wparts[1])[:120], line=wl.get("_line"))
    prod = find_all(raw["body"], lambda n: n.get("kind") == "BinaryOperator" and n.get("opcode") == "*" and
                    {text(strip(x)).replace(" ", "").replace("(longlong)", "") for x in n["inner"]} == {iv, "nbsec_per_period"})
    rep.check(bool(prod) and all(p_["type"]["qualType"] in ("long long", "long") for p_ in prod), "R14.b", file, "c_var2h",
              "period start computed in 64-bit (i*nbsec overflows int after ~68 years of hourly data)", f"product type {prod[0]['type']['qualType'] if prod else None}", line=outer.get("_line"))
    # the flag: a scalar that the body sets to the constant 1 (and the prologue to 0)
    flags = {text(n["inner"][0]) for n in find_all(wl, lambda n: n.get("kind") == "BinaryOperator" and n.get("opcode") == "=" and strip(n["inner"][0]).get("kind") == "DeclRefExpr"
                                                and cq.same_expr(n["inner"][1], "1"))}
    flags0 = {f_ for f_ in flags if f_ in penv and cq.same_expr(penv[f_], "0")}
    if len(flags0) == 1:
        flags = flags0
    else:
        # a flag whose prologue value is conditional (`miss = first point invalid ? 1 : 0`, an if / else) is still the flag
        pro_assigned = {text(n["inner"][0]) for s_ in ostm[:ostm.index(wl)] for n in find_all(s_, lambda n: n.get("kind") == "BinaryOperator" and n.get("opcode") == "=" and
                                                                                             strip(n["inner"][0]).get("kind") == "DeclRefExpr")}
        flags = {f_ for f_ in flags if f_ in pro_assigned}
    if len(flags) != 1:
        raise AnalysisError(f"{file}: invalid-interval flag not recognised ({sorted(flags)})")
    MISS = flags.pop()

    EPSOK = lambda e: (lambda r: r.is_const() and -1e-6 <= float(r.cval()) <= 0)(Canon().ratio(e))

    def classify(c):
        """atomic double comparison -> (predicate name, polarity) among NEG1, NEG2, GAP, or None"""
        if c[0] != 'cmp':
            return None
        op, a, b = c[1], c[2], c[3]
        if op in ('>', '>='):
            a, b, op = b, a, {'>': '<', '>=': '<='}[op]
        # now a < b or a <= b
        for nm, var in (("NEG1", V1), ("NEG2", V2)):
            if cq.same_expr(a, var) and op == '<' and _const(b) and EPSOK(b):
                return nm, True
            if cq.same_expr(b, var) and op == '<=' and _const(a) and EPSOK(a):
                return nm, False          # c <= v : "not negative" (for a non-NaN v)
        if op == '<' and cq.same_expr(a, "maxgapsec") and cq.same_expr(b, f"{T2} - {T1}"):
            return "GAP", True
        if op == '<=' and cq.same_expr(b, "maxgapsec") and cq.same_expr(a, f"{T2} - {T1}"):
            return "GAP", False
        return None

    def _const(e):
        try:
            return Canon().ratio(e).is_const()
        except Undecided:
            return False

    TOL = -1e-6

    def value_region_test(c, P):
        """a comparison of an end value with a constant that is not one of the five predicates: decided from the region the assignment
        puts the value in (NaN: every ordering false; negative: below the tolerance; otherwise: at or above it), None when both outcomes
        are possible inside the region, NotImplemented when the test is not of this kind"""
        if c[0] != 'cmp' or c[1] not in ('<', '<=', '>', '>='):
            return NotImplemented
        op, a, b = c[1], c[2], c[3]
        which = None
        for nm, var in (("1", V1), ("2", V2)):
            if cq.same_expr(a, var) and _const(b):
                which, k = nm, float(Canon().ratio(b).cval())
            elif cq.same_expr(b, var) and _const(a):
                which, k = nm, float(Canon().ratio(a).cval())
                op = {'<': '>', '<=': '>=', '>': '<', '>=': '<='}[op]
        if which is None:
            return NotImplemented
        # now: value op k
        if P["NAN" + which]:
            return False
        if P["NEG" + which]:                 # value < tolerance (some constant in [-1e-6, 0])
            if op in ('<', '<=') and k >= 0:
                return True
            if op in ('>', '>=') and k >= 0:
                return False
            return None
        if op in ('>', '>=') and k < TOL:    # value >= tolerance
            return True
        if op in ('<', '<=') and k < TOL:
            return False
        return None

    def mk_oracle(P, A=None, B=None, R=None, pos=True):
        def oracle(c):
            if c[0] in ('and', 'or', 'not'):
                from .c03 import _bool
                return _bool(c, oracle)
            if c[0] == 'num':
                return c[1] != 0
            if c[0] == 'cmp' and _const(c[2]) and _const(c[3]):
                a_, b_ = Canon().ratio(c[2]).cval(), Canon().ratio(c[3]).cval()
                return {'<': a_ < b_, '<=': a_ <= b_, '>': a_ > b_, '>=': a_ >= b_, '==': a_ == b_, '!=': a_ != b_}.get(c[1])
            if c[0] == 'call' and c[1] == 'isnan':
                if cq.same_expr(c[2][0], V1):
                    return P["NAN1"]
                if cq.same_expr(c[2][0], V2):
                    return P["NAN2"]
                return None
            if c[0] != 'cmp':
                return None
            if c[1] in ('!=', '==') and show(c[2]) == show(c[3]):
                r = oracle(('call', 'isnan', (c[2],)))
                return None if r is None else (r if c[1] == '!=' else not r)
            k_ = classify(c)
            if k_ is not None:
                nm, pol = k_
                nan = P["NAN1"] if nm == "NEG1" else P["NAN2"] if nm == "NEG2" else False
                if nan:
                    return False            # every ordering with NaN is false
                return P[nm] if pol else not P[nm]
            s_ = show(c)
            if cq.same_cond(c, f"{T1} < {START}", False) or cq.same_cond(c, f"{START} > {T1}", False):
                return A
            if cq.same_cond(c, f"{T1} >= {START}", False):
                return None if A is None else not A
            if cq.same_cond(c, f"{T2} > {END}", False):
                return B
            if cq.same_cond(c, f"{T2} <= {END}", False):
                return None if B is None else not B
            if cq.same_cond(c, "rainfall == 1", True):
                return R
            if cq.same_cond(c, "rainfall != 1", True) or cq.same_cond(c, "rainfall == 0", True):
                return None if R is None else not R
            if cq.same_cond(c, f"{T2} < {T1}", False):
                return False
            if "nvalvar" in s_:
                return False               # not at the end of the data
            if "display" in s_:
                return False
            vr = value_region_test(c, P)
            if vr is not NotImplemented:
                return vr
            if c[1] == '>' and _const(c[3]) and "IT" not in s_ and pos is not None:
                # clipped length > eps
                return pos
            return None
        return oracle
    # ---- validity: flag set iff one of the five predicates holds
    import itertools
    badv, undv, nv = [], [], 0
    for NEG1, NEG2, GAP, NAN1, NAN2 in itertools.product([False, True], repeat=5):
        if (NEG1 and NAN1) or (NEG2 and NAN2):
            continue
        nv += 1
        P = {"NEG1": NEG1, "NEG2": NEG2, "GAP": GAP, "NAN1": NAN1, "NAN2": NAN2}
        ce = CEval(mk_oracle(P, A=False, B=False, R=True))
        ce.summarise_loops = True
        try:
            ce.run(wstm, {MISS: ('sym', 'M0')})
        except Undecided as ex:
            rep.undecided("R14.b", file, "c_var2h", f"validity test {P}", str(ex), line=wl.get("_line"))
            continue
        ends = [f_ for f_ in ce.finals if f_[2] == "end"]
        if not ends:
            badv.append(f"{P}: no path")
            continue
        want = any(P.values())
        for env_, unres, _how in ends:
            got = env_.get(MISS)
            ok = (cq.same_expr(got, "1") if want else cq.same_expr(got, "M0")) if got is not None else False
            if ok:
                continue
            tag = f"{ {k_ for k_, v in P.items() if v} or '{}' }"
            if not unres:
                badv.append(f"{tag}: flag {show(got) if got else None}, expected {'1' if want else 'unchanged'}")
                continue
            # the flag depends on a further test: a refutation when that test is a single comparison per end value (both outcomes are
            # possible inside the value's region), otherwise undecided
            orc = mk_oracle(P, A=False, B=False, R=True)
            leaves = []

            def collect(c_):
                if c_[0] in ('and', 'or', 'not'):
                    for x_ in c_[1:]:
                        collect(x_)
                elif orc(c_) is None and c_ not in leaves:
                    leaves.append(c_)
            for c_, _t in unres:
                collect(c_)
            per = {}
            for c_ in leaves:
                if value_region_test(c_, P) is None:
                    per.setdefault(V1 if any(cq.same_expr(x_, V1) for x_ in (c_[2], c_[3])) else V2, set()).add(show(c_))
            witness = None
            if leaves and all(value_region_test(c_, P) is None for c_ in leaves) and all(len(v_) == 1 for v_ in per.values()):
                from .c03 import _bool
                for vals in itertools.product([False, True], repeat=len(leaves)):
                    asg = dict(zip(leaves, vals))

                    def orc2(c_, asg=asg):
                        if c_ in asg:
                            return asg[c_]
                        if c_[0] in ('and', 'or', 'not'):
                            return _bool(c_, orc2)
                        return orc(c_)
                    if all(orc2(c_) is t_ for c_, t_ in unres):
                        witness = asg
                        break
            if witness is not None:
                badv.append(f"{tag} and {' , '.join(show(c_) + ' is ' + str(t_) for c_, t_ in witness.items())}: flag {show(got) if got else None}, expected {'1' if want else 'unchanged'} "
                            "(the validity of the interval depends on a test outside the five predicates)")
            else:
                undv.append(f"{tag}: undecided test {show(unres[0][0])[:80]}")
    cons_v = f"interval invalid iff an end value is negative (beyond a tolerance in [-1e-6, 0]) or missing or the interval is longer than maxgapsec ({nv} predicate assignments)"
    if undv and not badv:
        rep.undecided("R14.b", file, "c_var2h", cons_v, " | ".join(undv[:3]), line=wl.get("_line"))
    else:
        rep.check(not badv, "R14.b", file, "c_var2h", cons_v, " | ".join(badv[:3]), line=wl.get("_line"))
    rep.floor("validity assignments", nv, 18)
    # ---- contribution: both modes x position of the interval ends relative to the period
    P0 = {"NEG1": False, "NEG2": False, "GAP": False, "NAN1": False, "NAN2": False}
    cnt = 0
    for R in (True, False):
        bad = []
        und_c = []
        for A, B in itertools.product([True, False], repeat=2):
            ce = CEval(mk_oracle(P0, A=A, B=B, R=R))
            ce.summarise_loops = True
            try:
                ce.run(wstm, {HV: ('sym', 'H0')})
            except Undecided as ex:
                und_c.append(str(ex))
                continue
            ends = [f_ for f_ in ce.finals if f_[2] == "end"]
            if not ends or any(f_[1] for f_ in ends):
                und_c.append("undecided test " + (show(ends[0][1][0][0])[:80] if ends and ends[0][1] else "no path"))
                continue
            cnt += 1
            IT1 = START if A else T1
            IT2 = END if B else T2
            if R:
                want = f"H0 + {V2}*({IT2} - {IT1})/({T2} - {T1})*nbsec_per_period"
            else:
                sl = f"(({V2} - {V1})/({T2} - {T1}))"
                want = f"H0 + (({sl}*({IT1} - {T1}) + {V1}) + ({sl}*({IT2} - {T1}) + {V1}))*({IT2} - {IT1})/2"
            got = ends[-1][0].get(HV)
            if got is None or not cq.same_expr(got, want):
                bad.append(f"left end {'clipped' if A else 'inside'}, right end {'clipped' if B else 'inside'}: integral becomes {show(got)[:140] if got else None}")
        lab = "rainfall: increment prorated by the clipped share of its interval (x period length, divided out at the end)" if R else \
            "interpolation: exact trapezoid of the linear interpolant between the clipped ends"
        if und_c and not bad:
            rep.undecided("R14.b", file, "c_var2h", lab + "; ends clipped to max(t1, start), min(t2, end)", " | ".join(und_c[:2]), line=wl.get("_line"))
        else:
            rep.check(not bad, "R14.b", file, "c_var2h", lab + "; ends clipped to max(t1, start), min(t2, end)", " | ".join(bad[:2]), line=wl.get("_line"))
    rep.floor("contribution cases", cnt, 8)
    # ---- advance
    ce = CEval(mk_oracle(P0, A=False, B=False, R=True))
    ce.summarise_loops = True
    ce.run(wstm, {"varindex": ('sym', 'VI0')})
    ends = [f_ for f_ in ce.finals if f_[2] == "end"]
    okadv = bool(ends) and all(cq.same_expr(f_[0].get(T1, num(0)), "varsec[VI0+1]") and cq.same_expr(f_[0].get(V1, num(0)), "varvalues[VI0+1]") and
                               cq.same_expr(f_[0].get("varindex", num(0)), "VI0+1") for f_ in ends)
    rep.check(okadv, "R14.b", file, "c_var2h", "intervals are consecutive observation pairs: (t1, val1) <- (t2, val2), index advanced by one", "", line=wl.get("_line"))
    wce = cq.evaluate(wstm, maxpaths=20000)
    errs = [r for r in wce.returns if isinstance(r[0], tuple) and not cq.same_expr(r[0], "0") and cq.holds(r[1], f"{T2} < {T1}", False)]
    rep.check(bool(errs), "R14.b", file, "c_var2h", "decreasing time stamps are an error", "", line=wl.get("_line"))
    # ---- store after the loop
    post = ostm[ostm.index(wl) + 1:]
    okp = True
    seen = 0
    for valid in (True, False):
        def oracle(c, valid=valid):
            if cq.same_cond(c, f"{MISS} == 0", True):
                return valid
            if cq.same_cond(c, f"{MISS} != 0", True) or cq.same_cond(c, f"{MISS} == 1", True) or cq.same_cond(c, f"{MISS} > 0", True):
                return not valid
            if "varindex" in show(c):
                return False
            return None
        ce = CEval(oracle)
        ce.summarise_loops = True
        ce.run(post, {})
        fin = [f_ for f_ in ce.finals if f_[2] == "end" and not f_[1]]
        key = f"hvalues[{iv}]"
        for f_ in fin:
            seen += 1
            got = f_[0].get(key)
            if valid:
                okp = okp and got is not None and cq.same_expr(got, f"{HV}/nbsec_per_period")
            else:
                okp = okp and (got == ('nan',) or (got is None and _nan_before(pre, iv)))
    rep.check(okp and seen >= 2, "R14.b", file, "c_var2h", "stored value = integral / period length, NaN when an overlapping interval was invalid", "", line=outer.get("_line"))
    # the interval that straddles the end of a period belongs to the next period as well: once the walk is over the cursor steps back one
    # observation whenever it is past the first, on every path (a further condition on the step makes the next period start too late)
    def back_oracle(c):
        for nm in ("varindex", "VI0"):
            if cq.same_cond(c, f"{nm} > 0", True) or cq.same_cond(c, f"{nm} >= 1", True) or cq.same_cond(c, f"{nm} != 0", True):
                return True
            if cq.same_cond(c, f"{nm} <= 0", True) or cq.same_cond(c, f"{nm} == 0", True) or cq.same_cond(c, f"{nm} < 1", True):
                return False
        if cq.same_cond(c, f"{MISS} == 0", True):
            return True
        return None
    try:
        bce = CEval(back_oracle)
        bce.summarise_loops = True
        bce.run(post, {"varindex": ('sym', 'VI0')})
        bends = [f_ for f_ in bce.finals if f_[2] == "end"]
        stay = [f_ for f_ in bends if not cq.same_expr(f_[0].get("varindex", ('sym', 'VI0')), "VI0 - 1")]
        rep.check(bool(bends) and not stay, "R14.b", file, "c_var2h", "after the walk the cursor steps back one observation whenever it is past the first, unconditionally",
                  (f"{len(stay)} of {len(bends)} path(s) leave the cursor where it is" + (", under " + show(stay[0][1][0][0])[:80] if stay and stay[0][1] else "")) if stay else "",
                  line=outer.get("_line"))
    except Undecided as ex:
        rep.undecided("R14.b", file, "c_var2h", "after the walk the cursor steps back one observation whenever it is past the first", str(ex), line=outer.get("_line"))

    # ---------------- wrapper ---------------------------------------------------------------------------------------------------------
    P = pyxread.load_all(rep.repo)
    shims = {cm: {sh.name: sh for sh in d["shims"]} for cm, d in P.items()}
    sites, _ = xlayer.find_sites(rep.repo, shims)
    st = [x for x in sites if x.shim.name == "var2h"]
    if len(st) != 1:
        raise AnalysisError("data/dutils.py: call site of var2h not found")
    st = st[0]
    f = st.func
    ok, how, _ = xlayer.error_discipline(st)
    rep.check(ok, "R14.c", "data/dutils.py", "var2h", "kernel error code raises", how, line=st.call.lineno)
    pa = pq.call_arguments(f, st.call, list(st.shim.params))
    vs = pa.get("varsec")
    STAMPS = "se.index.tz_localize(None).values"
    pins = [f'({STAMPS}).astype("datetime64[s]").astype(np.int64)', f'({STAMPS}).astype("datetime64[s]").astype("int64")',
            f'({STAMPS}).astype("datetime64[s]").astype(int)', f'(({STAMPS}) - np.datetime64("1970-01-01T00:00:00")) // np.timedelta64(1, "s")',
            f'(({STAMPS}) - np.datetime64("1970-01-01")) // np.timedelta64(1, "s")', f'(({STAMPS}).astype("datetime64[s]").view(np.int64))',
            'se.index.tz_localize(None).as_unit("s").asi8', 'se.index.tz_localize(None).as_unit("s").asi8.copy()',
            'se.index.tz_localize(None).as_unit("s").astype(np.int64)', 'se.index.tz_localize(None).as_unit("s").view(np.int64)']
    okpin = vs is not None and any(pq.same(vs, p_) for p_ in pins)
    rep.check(okpin, "R14.a", "data/dutils.py", "var2h", "time stamps converted to seconds through an explicit unit pin (datetime64[s])",
              f"`{show(vs)[:140] if vs else None}`: an integer view of the index divided by a constant depends on the storage resolution (ns / us / s) of the index", line=st.call.lineno)
    okz = vs is not None and pq.mentions(vs, lambda e: pq.call_named(e, ".tz_localize") and pq.same(e[2][1] if len(e[2]) > 1 else num(0), "None")) and \
        not pq.mentions(vs, lambda e: pq.call_named(e, ".tz_convert"))
    rep.check(okz, "R14.a", "data/dutils.py", "var2h", "zone dropped with tz_localize(None): wall-clock stamps, like the origin built from the wall-clock fields of the first stamp",
              "", line=st.call.lineno)
    S0 = "se.index[0]"
    HSTART = f"datetime(({S0}).year, ({S0}).month, ({S0}).day, ({S0}).hour) + delta(hours=1)"
    hsec = pa.get("hstartsec")
    okh = hsec is not None and (pq.same(hsec, f"(({HSTART}) - datetime(1970, 1, 1)).total_seconds()") or
                               pq.same(hsec, f"(({HSTART}) - datetime(1970, 1, 1)) // timedelta(seconds=1)") or
                               pq.same(hsec, f"(({HSTART}) - datetime(1970, 1, 1)) // delta(seconds=1)") or
                               pq.same(hsec, f"(({HSTART}) - datetime(1970, 1, 1)) / timedelta(seconds=1)"))
    rep.check(okh, "R14.c", "data/dutils.py", "var2h", "origin = first whole hour after the first observation, in seconds since 1970-01-01 (same epoch as the stamps)",
              show(hsec)[:160] if hsec else "", line=f.lineno)
    hv = st.args.get("hvalues")
    NVALH = f"((se.index[-1] - {S0}).total_seconds()/nbsec_per_period)"
    hva = pa.get("hvalues")
    okf = hva is not None and (pq.same(hva, f"np.nan*np.ones({NVALH}, dtype=np.float64)") or pq.same(hva, f"np.full({NVALH}, np.nan, dtype=np.float64)") or
                               pq.same(hva, f"np.full({NVALH}, np.nan)"))
    rep.check(okf, "R14.c", "data/dutils.py", "var2h", "output of nvalh = (end - start)/period values, NaN-filled", show(hva)[:160] if hva else "", line=f.lineno)
    paths, _b = pq.site_paths(st)
    rets = [p_ for p_ in paths if p_.how == "return"]
    okd = bool(rets)
    for p_ in rets:
        v = p_.value
        okd = okd and pq.call_named(v, ".Series") and len(v[2]) >= 2 and v[2][1] == ('sym', 'K.hvalues')
        idx = pq.kw_of(v, "index") if okd else None
        okd = okd and idx is not None and pq.call_named(idx, ".date_range") and len(idx[2]) >= 2 and pq.same(idx[2][1], HSTART) and \
            pq.kw_of(idx, "periods") is not None and pq.same(pq.kw_of(idx, "periods"), NVALH)
        fq = pq.kw_of(idx, "freq") if okd else None
        if okd and fq is not None:
            # the frequency string as a function of the period length, decided for the two supported lengths by constant folding
            from .. import pfold
            for nsec, wants in ((3600, ("h", "H", "60min")), (1800, ("30min",))):
                bind = {('sym', 'nbsec_per_period'): pfold.lit(nsec)}
                if not pfold.live(p_, bind):
                    continue
                fv = pfold.fold(fq, bind)
                # py.int(x) of a literal is the literal
                fv = pfold.fold(fv, bind)
                if not pfold.is_lit(fv):
                    okd = None
                elif fv[1] not in wants and okd:
                    okd = False
        else:
            okd = False if okd is not None else okd
    if okd is None:
        rep.undecided("R14.c", "data/dutils.py", "var2h", "returned index starts at the origin with the period as frequency and nvalh periods", "frequency expression does not fold to a literal for 1800 / 3600", line=f.lineno)
    else:
        rep.check(bool(okd), "R14.c", "data/dutils.py", "var2h", "returned index starts at the origin with the period as frequency and nvalh periods", "", line=f.lineno)
    names = {pn: show(v)[:30] for pn, v in pa.items()}
    okb = all(pn in pa and pq.mentions(pa[pn], lambda e, pn=pn: e == ('sym', pn)) for pn in ("maxgapsec", "nbsec_per_period", "rainfall", "display"))
    okb = okb and "varvalues" in pa and pq.mentions(pa["varvalues"], lambda e: pq.call_named(e, "attr:values") and e[2][0] == ('sym', 'se'))
    rep.check(okb, "R14.c", "data/dutils.py", "var2h", "options and series values bound to the kernel parameters of the same meaning", str(names)[:300], line=st.call.lineno)
    return EXPLANATION


def _nan_before(pre, iv):
    """the output of the period was set to NaN before the integration loop (so that leaving it untouched means NaN)"""
    return any(e.arr == "hvalues" and e.val == ('nan',) and cq.same_expr(e.idx, iv) for e in pre.effects)
