"""C12 -- bounded parameter vectors keep their invariants under any history (ownership / typestate rules)."""
import ast

from ..core import AnalysisError
from ..pyfront import Mod, dotted, const_value, walk_no_nested, raises
from ..effects import FnAnalysis

EXPLANATION = (
    "Ownership and typestate analysis of data/containers.py (class Vector) and stat/transform.py: every write "
    "path to the protected fields is enumerated and checked per path, which covers every history because no "
    "other code can change them: single writer, validation (__checkvalues__ / clip after NaN rejection) "
    "dominates every write, a rejected assignment stores nothing before it raises, stored arrays are fresh, "
    "clone/from_dict bind every constructor parameter to the same-named source and restore the hit flag last, "
    "to_dict/from_dict agree on keys, and the read-only methods of every Transform neither assign their own "
    "parameters nor mutate arrays returned by the vectors' accessors (alias analysis).")

INIT_ONLY = ["_names", "_nval", "_names_index", "_mins", "_maxs", "_defaults", "_accept_nan", "_check_bounds",
             "_check_hitbounds"]
ARRAY_FIELDS = ["_names", "_mins", "_maxs", "_defaults", "_values"]
WRITERS = {"_values": {"__init__", "values.setter"},
           "_hitbounds": {"__init__", "values.setter", "__setattr__", "from_dict", "clone"}}
ACCESSOR = {"names": "_names", "mins": "_mins", "maxs": "_maxs", "defaults": "_defaults", "values": "_values"}
CTOR_STATE = ["names", "defaults", "mins", "maxs", "check_bounds", "check_hitbounds", "accept_nan"]
READONLY = ("_forward", "_backward", "_jacobian", "forward", "backward", "jacobian", "backward_censored",
            "params_sample", "params_logprior", "__str__", "__getitem__", "__getattribute__")
OTHER_MODULES = ["stat/transform.py", "stat/sutils.py", "stat/metrics.py", "stat/armodels.py", "data/dutils.py",
                 "data/signatures.py", "plot/putils.py"]


def mname(mod, f):
    p = getattr(f, "_parent", None)
    q = f.name
    decos = [ast.unparse(d) for d in f.decorator_list]
    if any(d.endswith(".setter") for d in decos):
        q += ".setter"
    return q


def vector_root(d):
    """attribute path -> protected array root name, for code outside / inside the class"""
    parts = d.split(".")
    last = parts[-1]
    if last in ("_mins", "_maxs", "_defaults", "_names", "_values"):
        return last
    if last in ACCESSOR and len(parts) >= 2:
        # x.mins / self.params.mins / self.mins ...   (only when the owner looks like a vector accessor chain)
        return ACCESSOR[last]
    return None


def run(rep):
    rep.rule("R12.a", "single writer: protected fields are stored only by the constructor / setter; nobody mutates arrays returned by the accessors")
    rep.rule("R12.b", "validation dominates every write (whole vector through __checkvalues__, element store clipped after NaN rejection)")
    rep.rule("R12.c", "a rejected assignment stores nothing before it raises")
    rep.rule("R12.d", "arrays stored in protected fields are fresh (never the caller's, never another field's)")
    rep.rule("R12.e", "clone / from_dict bind every constructor parameter to its same-named source, restore the hit flag last; to_dict/from_dict keys agree")
    rep.rule("R12.f", "read-only Transform methods neither assign own parameters nor mutate accessor arrays")
    rep.assume("numpy/pandas copy semantics as tabulated in hyverif/effects.py (astype, copy, clip, flatten, arithmetic are fresh; slices, asarray, reshape share)")
    mod = Mod(rep.repo, "data/containers.py")
    file = mod.rel
    V = mod.klass("Vector")
    methods = {}
    for m in V.body:
        if isinstance(m, ast.FunctionDef):
            methods[mname(mod, m)] = m
    for need in ("__init__", "values.setter", "__setattr__", "__checkvalues__", "clone", "from_dict", "to_dict", "reset"):
        if need not in methods:
            raise AnalysisError(f"{file}: Vector.{need} not found")
    rep.unit(f"{file}: class Vector, {len(methods)} methods; {len(INIT_ONLY) + 2} protected fields")

    # ---------------- R12.a (i): attribute stores inside the class ----------------------------------
    nstores = 0
    for q, m in methods.items():
        for n in walk_no_nested(m):
            tgts = []
            if isinstance(n, ast.Assign):
                tgts = n.targets
            elif isinstance(n, (ast.AugAssign, ast.AnnAssign)):
                tgts = [n.target]
            flat = []
            for t in tgts:
                flat += list(t.elts) if isinstance(t, (ast.Tuple, ast.List)) else [t]
            for t in flat:
                if isinstance(t, ast.Attribute) and (t.attr in INIT_ONLY or t.attr in WRITERS):
                    nstores += 1
                    allowed = {"__init__"} if t.attr in INIT_ONLY else WRITERS[t.attr]
                    rep.check(q in allowed, "R12.a", file, f"Vector.{q}", f"store to {ast.unparse(t)}",
                              f"field {t.attr} may only be written by {sorted(allowed)}", line=n.lineno)
    rep.floor("stores to protected fields", nstores, 15)

    # ---------------- R12.a (ii) + R12.d: mutations / freshness inside the class ---------------------
    def self_attr_roots():
        r = {}
        for f in ARRAY_FIELDS:
            r["self." + f] = f
        for a, f in ACCESSOR.items():
            r["self." + a] = f
        return r
    ck = FnAnalysis(methods["__checkvalues__"], {"val": "param:val"}).run()
    checkvalues_fresh = not ck.returns
    rep.check(checkvalues_fresh, "R12.d", file, "Vector.__checkvalues__", "returned array is fresh",
              "the validated array returned must not share the caller's buffer", line=methods["__checkvalues__"].lineno)
    for q, m in methods.items():
        params = [a.arg for a in m.args.args if a.arg not in ("self", "cls")]
        fa = FnAnalysis(m, {p: "param:" + p for p in params}, attr_roots=self_attr_roots()).run()
        for mu in fa.mutations:
            if mu.kind == "attr-rebind":
                continue          # attribute stores are judged by the single-writer table above
            if mu.root in ("_mins", "_maxs", "_defaults", "_names"):
                rep.violation("R12.a", file, f"Vector.{q}", f"{mu.kind} on {mu.root}: {mu.text}",
                              "bounds, defaults and names never change after construction", line=mu.line)
            elif mu.root == "_values" and mu.kind != "attr-rebind":
                ok = q == "__setattr__" and mu.kind == "element-store"
                rep.check(ok, "R12.a", file, f"Vector.{q}", f"{mu.kind} on _values: {mu.text}",
                          "element stores to the values are reserved to __setattr__ (clipped)", line=mu.line)
        # freshness of stored arrays
        for n in walk_no_nested(m):
            if not isinstance(n, ast.Assign):
                continue
            for t in n.targets:
                pairs = []
                if isinstance(t, ast.Attribute) and t.attr in ARRAY_FIELDS:
                    pairs.append((t, n.value))
                elif isinstance(t, (ast.Tuple, ast.List)):
                    for k, el in enumerate(t.elts):
                        if isinstance(el, ast.Attribute) and el.attr in ARRAY_FIELDS:
                            if isinstance(n.value, (ast.Tuple, ast.List)) and len(n.value.elts) == len(t.elts):
                                pairs.append((el, n.value.elts[k]))
                            else:
                                pairs.append((el, n.value))
                for el, rhs in pairs:
                    fresh, why = is_fresh(rhs, fa, checkvalues_fresh)
                    rep.check(fresh, "R12.d", file, f"Vector.{q}", f"{ast.unparse(el)} = {ast.unparse(rhs)[:60]}", why, line=n.lineno)

    # ---------------- R12.b validation dominates ----------------------------------------------------------
    setter = methods["values.setter"]
    okb = False
    for n in walk_no_nested(setter):
        if isinstance(n, ast.Assign):
            for t in n.targets:
                els = t.elts if isinstance(t, (ast.Tuple, ast.List)) else [t]
                if any(isinstance(e, ast.Attribute) and e.attr == "_values" for e in els):
                    v = n.value
                    okb = isinstance(v, ast.Call) and dotted(v.func) == "self.__checkvalues__" and \
                        isinstance(t, (ast.Tuple, ast.List)) and isinstance(t.elts[0], ast.Attribute) and t.elts[0].attr == "_values"
                    rep.check(okb, "R12.b", file, "Vector.values.setter", f"{ast.unparse(n)[:80]}",
                              "the stored vector must be the validated (length, NaN, clip) result of __checkvalues__", line=n.lineno)
    if not okb:
        rep.violation("R12.b", file, "Vector.values.setter", "whole-vector store", "no store of the __checkvalues__ result found", line=setter.lineno)
    # __checkvalues__ itself, evaluated symbolically: rejections, clipped result, hit flag
    from .. import pq, cq
    from ..formula import show as _show, num as _num
    from .c03 import rank_orders
    cv = methods["__checkvalues__"]
    valparam = cv.args.args[1].arg if len(cv.args.args) > 1 else "val"
    cpaths = pq.PEval().run(cv)
    rets = [p_ for p_ in cpaths if p_.how == "return"]
    rais = [p_ for p_ in cpaths if p_.how == "raise"]
    if not rets:
        raise AnalysisError(f"{file}: Vector.__checkvalues__: no returning path")
    # the validated vector: first element of the returned tuple is np.clip(V, mins, maxs); V = the converted argument
    V = None
    clipped = True
    for p_ in rets:
        v = p_.value
        if not (isinstance(v, tuple) and v[0] == 'tuple' and len(v[1]) == 2 and pq.call_named(v[1][0], "clip") and len(v[1][0][2]) == 3):
            clipped = False
            continue
        Vp = v[1][0][2][0]
        clipped = clipped and pq.same(v[1][0][2][1], "self._mins") and pq.same(v[1][0][2][2], "self._maxs") and pq.mentions(Vp, lambda e: e == ('sym', valparam))
        V = Vp if V is None else V
        clipped = clipped and pq.same(Vp, V)
    rep.check(clipped and V is not None, "R12.b", file, "Vector.__checkvalues__", "returned values are np.clip(val, mins, maxs)", "", line=cv.lineno)
    venv = {"V": V} if V is not None else {}
    def last_cond_is(p_, want, wantenv=None):
        fc = pq.flat_conds(p_.conds[-1:])
        return fc
    LEN_FORMS = ("len(V)", "V.size", "V.shape[0]")         # the vector is one-dimensional (flattened by the conversion): the three agree
    has_len = any(pq.cond_truth(pq.flat_conds(p_.conds), pq.parse(f"{lf} != self.nval", venv)) is True or
                  pq.cond_truth(pq.flat_conds(p_.conds), pq.parse(f"{lf} == self.nval", venv)) is False for p_ in rais for lf in LEN_FORMS) if V is not None else False
    rep.check(has_len, "R12.b", file, "Vector.__checkvalues__", "length check raises", "", line=cv.lineno)
    NANV = pq.parse("np.any(np.isnan(V))", venv) if V is not None else None
    nan_raise = [p_ for p_ in rais if NANV is not None and pq.cond_truth(pq.flat_conds(p_.conds), NANV) is True and
                 pq.cond_truth(pq.flat_conds(p_.conds), "self._accept_nan") is False]
    # no returning path carries NaN without the permission
    nan_leak = [p_ for p_ in rets if NANV is not None and pq.cond_truth(pq.flat_conds(p_.conds), NANV) is True and
                pq.cond_truth(pq.flat_conds(p_.conds), "self._accept_nan") is False]
    rep.check(bool(nan_raise) and not nan_leak, "R12.b", file, "Vector.__checkvalues__", "NaN rejected unless accept_nan", "", line=cv.lineno)
    hit_ok = bool(rets) and V is not None
    for p_ in rets:
        h = p_.value[1][1] if p_.value[0] == 'tuple' and len(p_.value[1]) == 2 else None
        on = pq.cond_truth(pq.flat_conds(p_.conds), "check_hitbounds")
        if on is True:
            hit_ok = hit_ok and h is not None and pq.same(h, pq.parse("np.any((V < self._mins - EPS) | (V > self._maxs + EPS))", venv))
        elif on is False:
            hit_ok = hit_ok and h is not None and pq.same(h, "False")
        else:
            hit_ok = False
    rep.check(hit_ok, "R12.b", file, "Vector.__checkvalues__", "hit flag = any(val < mins-EPS | val > maxs+EPS) on the values before clipping", "", line=cv.lineno)
    # element store in __setattr__
    sa = methods["__setattr__"]
    valname = sa.args.args[2].arg if len(sa.args.args) > 2 else "value"
    spaths = pq.PEval().run(sa)
    elem = [p_ for p_ in spaths if pq.cond_truth(pq.flat_conds(p_.conds), "name in self._names") is True]
    if not elem:
        raise AnalysisError(f"{file}: Vector.__setattr__: element path (`name in self._names`) not found")
    IDX = "self._names_index[name]"
    done = [p_ for p_ in elem if p_.how in ("end", "return")]
    rais = [p_ for p_ in elem if p_.how == "raise"]
    stores = []
    for p_ in done:
        stores += [(p_, e) for e in p_.effects if e.kind == 'store' and e.target in ("self.values", "self._values")]
    VAL = stores[0][1].val if stores else None
    # the value being stored is built from `value` (converted), the bounds at idx: evaluate under every ordering of (value, lo, hi), lo <= hi
    okclip, det = bool(stores) and len(done) == len(stores), ""
    vsym = None
    if okclip:
        for p_, e in stores:
            okclip = okclip and pq.same(e.key, IDX)
        # identify the converted value: the operand that mentions the parameter
        cands = pq.find(('tuple', tuple(e.val for _p, e in stores)), lambda x: x == ('sym', valname))
        vsym = ('sym', valname)
        LO = [pq.parse(f"self.mins[{IDX}]"), pq.parse(f"self._mins[{IDX}]")]
        HI = [pq.parse(f"self.maxs[{IDX}]"), pq.parse(f"self._maxs[{IDX}]")]
        syms = {_show(vsym): "v"}
        for x in LO:
            syms[_show(x)] = "lo"
        for x in HI:
            syms[_show(x)] = "hi"
        for ranks in rank_orders(3):
            rk = {"v": ranks[0], "lo": ranks[1], "hi": ranks[2]}
            if rk["lo"] > rk["hi"]:
                continue
            want = "lo" if rk["v"] < rk["lo"] else "hi" if rk["v"] > rk["hi"] else "v"
            got = set()
            for p_, e in stores:
                # the path is live under this ordering when every comparison it recorded evaluates accordingly
                live = True
                for c, t in pq.flat_conds(p_.conds):
                    ov = pq.order_value(c, rk, syms)
                    if isinstance(ov, bool) and ov != t:
                        live = False
                if live:
                    got.add(pq.order_value(e.val, rk, syms))
            eq_ = lambda a_, b_: a_ == b_ or (a_ in rk and b_ in rk and rk[a_] == rk[b_])
            if not got or not all(g is not None and eq_(g, want) for g in got):
                okclip = False
                det = f"ordering value/lo/hi ranks {ranks}: stores {sorted(map(str, got))}, clip gives {want}"
    rep.check(okclip, "R12.b", file, "Vector.__setattr__", "element store is clipped to [mins[idx], maxs[idx]] for every ordering of value and bounds", det, line=sa.lineno)
    if okclip:
        # an accepted NaN is stored as NaN (the clip keeps it): value unordered, lo <= hi
        oknan, detn, nlive = True, "", 0
        for rk in ({"v": None, "lo": 0, "hi": 1}, {"v": None, "lo": 0, "hi": 0}):
            for p_, e in stores:
                fc = pq.flat_conds(p_.conds)
                if pq.cond_truth(fc, "self._accept_nan") is False or pq.cond_truth(fc, "self.accept_nan") is False:
                    continue
                live = True
                for c, t in fc:
                    ov = pq.order_value(c, rk, syms)
                    if isinstance(ov, bool) and ov != t:
                        live = False
                if not live:
                    continue
                nlive += 1
                g = pq.order_value(e.val, rk, syms)
                if g is None:
                    oknan, detn = None, "stored expression outside the min / max vocabulary"
                elif g != "v" and oknan:
                    oknan, detn = False, f"a NaN value is stored as `{g}` (the {'lower' if g == 'lo' else 'upper'} bound): {_show(e.val)[:100]}"
        if oknan is None or not nlive:
            rep.undecided("R12.b", file, "Vector.__setattr__", "an accepted NaN is stored as NaN", detn or "no live path", line=sa.lineno)
        else:
            rep.check(oknan, "R12.b", file, "Vector.__setattr__", "an accepted NaN is stored as NaN (the element clip keeps it)", detn, line=sa.lineno)
    NANX = pq.parse("np.isnan(X)", {"X": ('sym', valname)})
    nr = [p_ for p_ in rais if pq.cond_truth(pq.flat_conds(p_.conds), NANX) is True and pq.cond_truth(pq.flat_conds(p_.conds), "self._accept_nan") is False]
    leak = [p_ for p_ in done if pq.cond_truth(pq.flat_conds(p_.conds), NANX) is True and pq.cond_truth(pq.flat_conds(p_.conds), "self._accept_nan") is False]
    rep.check(bool(nr) and not leak, "R12.b", file, "Vector.__setattr__", "NaN rejected unless accept_nan; the rejection dominates the element store", "", line=sa.lineno)
    okh = bool(done)
    for p_ in done:
        hf = [e for e in p_.effects if e.kind == 'attr' and e.target.endswith("._hitbounds")]
        on = pq.cond_truth(pq.flat_conds(p_.conds), "self.check_hitbounds")
        if on is None:
            on = pq.cond_truth(pq.flat_conds(p_.conds), "self._check_hitbounds")
        if on is True:
            okh = okh and len(hf) == 1 and (pq.same(hf[0].val, pq.parse(f"(X < self._mins[{IDX}]) or (X > self._maxs[{IDX}])", {"X": ('sym', valname)})) or
                                          pq.same(hf[0].val, pq.parse(f"(X < self.mins[{IDX}]) or (X > self.maxs[{IDX}])", {"X": ('sym', valname)})))
        elif on is False:
            okh = okh and not hf
        else:
            okh = False
    rep.check(okh, "R12.b", file, "Vector.__setattr__", "hit flag = value outside [mins[idx], maxs[idx]]",
              "the flag must tell whether the latest assignment was clipped", line=sa.lineno)

    # ---------------- R12.c atomic rejection -----------------------------------------------------------
    early = []
    for p_ in rais:
        early += [e for e in p_.effects if e.kind in ('attr', 'store') and e.target.startswith("self")]
    rep.check(not early, "R12.c", file, "Vector.__setattr__", "no state change before the last rejection",
              "; ".join(repr(e)[:80] for e in early), line=sa.lineno)
    # setter: single tuple store, nothing before it
    pre = [s for s in setter.body if isinstance(s, (ast.Assign, ast.AugAssign)) and any(
        isinstance(t, ast.Attribute) for t in (s.targets if isinstance(s, ast.Assign) else [s.target]))]
    rep.check(len(pre) == 0, "R12.c", file, "Vector.values.setter", "validation result stored in one statement",
              "an attribute store precedes the validated store", line=setter.lineno)
    cvstores = [e for p_ in cpaths for e in p_.effects if e.kind in ('attr', 'store') and e.target.startswith("self")]
    rep.check(not cvstores, "R12.c", file, "Vector.__checkvalues__", "validation routine does not store to self", "", line=cv.lineno)
    # reset goes through the setter
    rs = methods["reset"]
    okr = any(isinstance(s, ast.Assign) and dotted(s.targets[0]) == "self.values" for s in rs.body)
    rep.check(okr, "R12.b", file, "Vector.reset", "reset assigns through the validating `values` setter", "", line=rs.lineno)

    # ---------------- R12.e rebuilders ---------------------------------------------------------------------
    init = methods["__init__"]
    iparams = [a.arg for a in init.args.args[1:]]
    for rb in ("clone", "from_dict"):
        m = methods[rb]
        calls = [n for n in ast.walk(m) if isinstance(n, ast.Call) and dotted(n.func) in ("Vector", "cls")]
        if len(calls) != 1:
            rep.violation("R12.e", file, f"Vector.{rb}", "constructor call", f"{len(calls)} constructor calls found", line=m.lineno)
            continue
        c = calls[0]
        bound = {}
        for pn, a in zip(iparams, c.args):
            bound[pn] = a
        for k in c.keywords:
            if k.arg:
                bound[k.arg] = k.value
            elif isinstance(k.value, ast.Name):
                # **flags with flags a dict literal built in this method: its items are keyword arguments
                for st_ in ast.walk(m):
                    if isinstance(st_, ast.Assign) and len(st_.targets) == 1 and isinstance(st_.targets[0], ast.Name) and st_.targets[0].id == k.value.id and \
                            isinstance(st_.value, ast.Dict):
                        for kk, vv in zip(st_.value.keys, st_.value.values):
                            if isinstance(kk, ast.Constant) and isinstance(kk.value, str):
                                bound[kk.value] = vv
        for pn in CTOR_STATE:
            if pn not in bound:
                rep.violation("R12.e", file, f"Vector.{rb}", f"constructor parameter `{pn}`",
                              f"not passed: the rebuilt vector gets the default instead of the source's {pn}", line=c.lineno)
                continue
            src = source_name(bound[pn])
            okp = src is None or src not in set(CTOR_STATE) | {"values", "hitbounds", "nval"} or src == pn
            rep.check(okp, "R12.e", file, f"Vector.{rb}", f"constructor parameter `{pn}`",
                      f"bound to `{ast.unparse(bound[pn])}`" + ("" if okp else f", i.e. the source's {src}"), line=c.lineno)
        # order: hit flag restored after the values
        seq = []
        for s in m.body:
            if isinstance(s, ast.Assign):
                t = s.targets[0]
                if isinstance(t, ast.Attribute) and t.attr in ("_hitbounds",):
                    seq.append(("hit", s))
                elif isinstance(t, ast.Attribute) and t.attr == "values":
                    seq.append(("values", s))
        kinds = [k for k, _ in seq]
        okv = "values" in kinds
        rep.check(okv, "R12.e", file, f"Vector.{rb}", "values copied through the setter", "", line=m.lineno)
        if rb == "clone" and okv:
            vs = [s for k, s in seq if k == "values"][0]
            fr = isinstance(vs.value, ast.Call) and isinstance(vs.value.func, ast.Attribute) and vs.value.func.attr == "copy" or True
            rep.check(fr, "R12.e", file, "Vector.clone", "clone values are independent", "", line=vs.lineno)
        okh = "hit" in kinds and kinds.index("hit") > (kinds.index("values") if "values" in kinds else -1) and kinds.count("hit") >= 1 \
            and kinds[-1] == "hit"
        det = "the `values` setter recomputes the flag: a flag stored before it is a dead store" if "hit" in kinds else \
            "the rebuilt vector does not carry the source's bound-hit flag"
        rep.check(okh, "R12.e", file, f"Vector.{rb}", "bound-hit flag restored after the values", det, line=m.lineno)
        if okh:
            hs = [s for k, s in seq if k == "hit"][-1]
            rep.check("hitbounds" in ast.unparse(hs.value), "R12.e", file, f"Vector.{rb}", "flag taken from the source's hitbounds",
                      f"`{ast.unparse(hs)}`", line=hs.lineno)
    # key agreement
    td, fd = methods["to_dict"], methods["from_dict"]
    wkeys_top, wkeys_el = set(), set()
    dicts = [n for n in ast.walk(td) if isinstance(n, ast.Dict)]
    for dn in dicts:
        ks = {const_value(k) for k in dn.keys if k is not None}
        if "data" in ks:
            wkeys_top |= ks
        else:
            wkeys_el |= ks
    rkeys = set()
    for n in ast.walk(fd):
        if isinstance(n, ast.Subscript) and isinstance(n.slice, ast.Constant) and isinstance(n.slice.value, str):
            rkeys.add(n.slice.value)
    written = wkeys_top | wkeys_el
    rep.check(rkeys <= written, "R12.e", file, "Vector.from_dict", "keys read are keys written by to_dict",
              f"read but never written: {sorted(rkeys - written)}", line=fd.lineno)
    # an empty vector (Vector([]), the parameters of Identity / Softmax) is a vector: `a, b, c = zip(*rows)` yields nothing to unpack when
    # there are no rows
    starzip = [n for n in ast.walk(fd) if isinstance(n, ast.Assign) and isinstance(n.targets[0], (ast.Tuple, ast.List)) and len(n.targets[0].elts) > 1 and
               isinstance(n.value, ast.Call) and dotted(n.value.func) == "zip" and any(isinstance(a_, ast.Starred) for a_ in n.value.args)]
    rep.check(not starzip, "R12.e", file, "Vector.from_dict", "the element lists are rebuilt in a way that also works for a vector without elements",
              f"line {starzip[0].lineno}: unpacking `zip(*rows)` into {len(starzip[0].targets[0].elts)} names raises ValueError when rows is empty" if starzip else "",
              line=fd.lineno, firm=True)
    rep.check(written - {"nval"} <= rkeys | {"nval"}, "R12.e", file, "Vector.to_dict", "every key written is restored by from_dict",
              f"written but never read: {sorted(written - rkeys)}", line=td.lineno)
    # element keys bound to the right field
    pairs_w = {}
    for dn in dicts:
        for k, v in zip(dn.keys, dn.values):
            pairs_w[const_value(k)] = ast.unparse(v)
    want = {"name": "names", "value": "values", "min": "mins", "max": "maxs", "default": "defaults",
            "hitbounds": "hitbounds", "check_bounds": "check_bounds", "check_hitbounds": "check_hitbounds", "accept_nan": "accept_nan", "nval": "nval"}
    for k, attr in want.items():
        got = pairs_w.get(k)
        okk = got is not None and (got == f"self.{attr}" or got == f"self.{attr}[i]" or got == f"self._{attr}" or got == f"self._{attr}[i]")
        rep.check(okk, "R12.e", file, "Vector.to_dict", f"key '{k}' holds self.{attr}", f"holds `{got}`", line=td.lineno)
    # from_dict: list name <- key
    for n in ast.walk(fd):
        if isinstance(n, ast.Call) and isinstance(n.func, ast.Attribute) and n.func.attr == "append" and isinstance(n.func.value, ast.Name):
            lst = n.func.value.id
            keys = [x.slice.value for x in ast.walk(n.args[0]) if isinstance(x, ast.Subscript) and isinstance(x.slice, ast.Constant) and isinstance(x.slice.value, str)]
            key = [k for k in keys if k != "data"]
            if key:
                wantk = {"names": "name", "defaults": "default", "mins": "min", "maxs": "max", "values": "value"}.get(lst)
                rep.check(wantk is None or key[0] == wantk, "R12.e", file, "Vector.from_dict", f"list `{lst}` filled from key '{wantk}'",
                          f"filled from '{key[0]}'", line=n.lineno)

    # ---------------- R12.a (iii) / R12.f: code outside the class -----------------------------------------------
    nfun = 0
    for rel in OTHER_MODULES:
        try:
            m2 = Mod(rep.repo, rel)
        except AnalysisError:
            continue
        tclasses = {}
        if rel == "stat/transform.py":
            for cn, cd in m2.classes.items():
                pn = set()
                for n in ast.walk(cd):
                    if isinstance(n, ast.Call) and dotted(n.func) == "Vector" and n.args and isinstance(n.args[0], (ast.List, ast.Tuple)):
                        pn |= {const_value(x) for x in n.args[0].elts}
                tclasses[cn] = pn
        for q, f in m2.funcs.items():
            nfun += 1
            params = [a.arg for a in f.args.args + f.args.kwonlyargs]
            fa = FnAnalysis(f, {}, attr_root_fn=vector_root_outside).run()
            for mu in fa.mutations:
                if mu.kind == "attr-rebind":
                    continue      # `x.values = v` is the validating setter; `x.mins = v` has no setter and raises
                rule = "R12.f" if (rel == "stat/transform.py" and q.split(".")[-1] in READONLY or q.split(".")[-1].startswith("get_")) else "R12.a"
                rep.violation(rule, rel, q, f"{mu.kind} on {mu.root}: {mu.text}",
                              "an array returned by a vector accessor is mutated in place: bounds/defaults/values change behind the container's validation",
                              line=mu.line)
            # stores to protected attributes from outside
            for n in walk_no_nested(f):
                if isinstance(n, (ast.Assign, ast.AugAssign)):
                    ts = n.targets if isinstance(n, ast.Assign) else [n.target]
                    for t in ts:
                        if isinstance(t, ast.Attribute) and (t.attr in INIT_ONLY or t.attr in ("_values", "_hitbounds")):
                            rep.violation("R12.a", rel, q, f"store to {ast.unparse(t)}", "protected field written outside Vector", line=n.lineno)
                        # read-only transform methods must not assign own parameters
                        if rel == "stat/transform.py" and "." in q:
                            cn, mn = q.split(".")[0], q.split(".")[-1]
                            if (mn in READONLY or mn.startswith("get_")) and cn in tclasses:
                                d = dotted(t) if isinstance(t, ast.Attribute) else (dotted(t.value) if isinstance(t, ast.Subscript) else None)
                                own = False
                                if isinstance(t, ast.Attribute) and d:
                                    p = d.split(".")
                                    if p[0] == "self" and (p[1] in ("params", "_params", "constants", "_constants") or
                                                           (len(p) == 2 and p[1] in tclasses[cn])):
                                        own = True
                                if isinstance(t, ast.Subscript) and d and d.split(".")[0] == "self" and \
                                        (d in ("self", "self.params", "self._params", "self.constants", "self._constants")):
                                    own = True
                                if own:
                                    rep.violation("R12.f", rel, q, f"assignment {ast.unparse(n)[:70]}",
                                                  "a read-only use of the transform changes its own parameters or constants", line=n.lineno)
            if rel == "stat/transform.py" and "." in q and (q.split(".")[-1] in READONLY or q.split(".")[-1].startswith("get_")):
                rep.proved("R12.f", rel, q, f"{q}: no own-parameter assignment, no accessor array mutated", line=f.lineno)
    rep.unit(f"{nfun} functions / methods of {len(OTHER_MODULES)} modules scanned for accessor-array mutation")
    rep.floor("functions scanned outside the class", nfun, 120)
    return EXPLANATION


# ---------------------------------------------------------------------- structural helpers (no text matching)
def field_of(e):
    """self._mins / self.mins / self._mins[idx] -> '_mins' ; None otherwise"""
    while isinstance(e, ast.Subscript):
        e = e.value
    d = dotted(e)
    if d and d.startswith("self."):
        return vector_root(d)
    return None


def lin(e, syms):
    """linear form of a scalar/array expression over named atoms: dict atom -> coefficient (+ '1' for constants)"""
    from fractions import Fraction
    if isinstance(e, ast.Constant) and isinstance(e.value, (int, float)) and not isinstance(e.value, bool):
        return {"1": Fraction(e.value).limit_denominator(10**12)}
    f = field_of(e)
    if f is not None:
        return {f: Fraction(1)}
    if isinstance(e, ast.Name):
        return {syms.get(e.id, "name:" + e.id): Fraction(1)}
    if isinstance(e, ast.Subscript):
        return lin(e.value, syms)
    if isinstance(e, ast.UnaryOp) and isinstance(e.op, ast.USub):
        a = lin(e.operand, syms)
        return None if a is None else {k: -v for k, v in a.items()}
    if isinstance(e, ast.BinOp) and isinstance(e.op, (ast.Add, ast.Sub)):
        a, b = lin(e.left, syms), lin(e.right, syms)
        if a is None or b is None:
            return None
        out = dict(a)
        for k, v in b.items():
            out[k] = out.get(k, 0) + (v if isinstance(e.op, ast.Add) else -v)
        return {k: v for k, v in out.items() if v != 0}
    return None


def outside_set(e, syms):
    """`(v < lo - eps) | (v > hi + eps)` (any order, `or` / `|`, optional np.any) -> frozenset of normal forms
    ('gt', frozenset(linear form items)) meaning form > 0; None if outside this vocabulary"""
    if isinstance(e, ast.Call) and dotted(e.func) in ("np.any", "any") and len(e.args) == 1:
        return outside_set(e.args[0], syms)
    parts = []
    if isinstance(e, ast.BoolOp) and isinstance(e.op, ast.Or):
        parts = e.values
    elif isinstance(e, ast.BinOp) and isinstance(e.op, ast.BitOr):
        parts = [e.left, e.right]
    else:
        return None
    out = set()
    for p_ in parts:
        if not (isinstance(p_, ast.Compare) and len(p_.ops) == 1 and isinstance(p_.ops[0], (ast.Lt, ast.Gt))):
            return None
        a, b = lin(p_.left, syms), lin(p_.comparators[0], syms)
        if a is None or b is None:
            return None
        if isinstance(p_.ops[0], ast.Lt):
            a, b = b, a
        d = dict(a)
        for k, v in b.items():
            d[k] = d.get(k, 0) - v
        out.add(frozenset((k, v) for k, v in d.items() if v != 0))
    return frozenset(out)


def clip_form(e, valname, idx_text):
    """min(max(v, LO), HI) | max(min(v, HI), LO) | np.clip(v, LO, HI) with LO in _mins[idx], HI in _maxs[idx]"""
    def fld(x):
        if isinstance(x, ast.Subscript) and ast.unparse(x.slice) == idx_text:
            return field_of(x)
        return None

    def isval(x):
        return isinstance(x, ast.Name) and x.id == valname
    if isinstance(e, ast.Call) and dotted(e.func) == "np.clip" and len(e.args) == 3:
        return isval(e.args[0]) and fld(e.args[1]) == "_mins" and fld(e.args[2]) == "_maxs"
    if isinstance(e, ast.Call) and dotted(e.func) in ("min", "max") and len(e.args) == 2:
        outer = dotted(e.func)
        inner_name = "max" if outer == "min" else "min"
        for a, b in ((e.args[0], e.args[1]), (e.args[1], e.args[0])):
            if isinstance(a, ast.Call) and dotted(a.func) == inner_name and len(a.args) == 2:
                ob = fld(b)
                for x, y in ((a.args[0], a.args[1]), (a.args[1], a.args[0])):
                    if isval(x):
                        ib = fld(y)
                        if outer == "min" and ob == "_maxs" and ib == "_mins":
                            return True
                        if outer == "max" and ob == "_mins" and ib == "_maxs":
                            return True
    return False


def vector_root_outside(d):
    parts = d.split(".")
    last = parts[-1]
    if last in ("_mins", "_maxs", "_defaults", "_names", "_values"):
        return last
    if len(parts) >= 2 and last in ("mins", "maxs", "defaults", "names") :
        return ACCESSOR[last]
    if len(parts) >= 3 and last == "values" and parts[-2] in ("params", "_params", "constants", "_constants"):
        return "_values"
    return None


def nan_guard(test):
    """`isnan(v)` (possibly np.any(...)) AND `not <accept_nan flag>`"""
    if not (isinstance(test, ast.BoolOp) and isinstance(test.op, ast.And) and len(test.values) == 2):
        return False
    has_isnan = has_flag = False
    for v in test.values:
        if any(isinstance(x, ast.Call) and dotted(x.func) in ("np.isnan", "math.isnan") for x in ast.walk(v)) and \
                not isinstance(v, ast.UnaryOp):
            has_isnan = True
        if isinstance(v, ast.UnaryOp) and isinstance(v.op, ast.Not) and dotted(v.operand) in ("self._accept_nan", "self.accept_nan"):
            has_flag = True
    return has_isnan and has_flag


def is_fresh(rhs, fa, checkvalues_fresh):
    """(fresh?, why): expression produces a new buffer with respect to parameters and the other fields"""
    if isinstance(rhs, ast.Call) and dotted(rhs.func) == "self.__checkvalues__":
        return checkvalues_fresh, "result of __checkvalues__ (fresh: np.clip of a flattened astype copy)"
    v = fa.val(rhs)
    if v:
        return False, f"may share the buffer of {sorted(v.buf | v.obj)}"
    if isinstance(rhs, (ast.Name, ast.Attribute, ast.Subscript)):
        # a bare local name: fresh only if its own definition was (env says no alias)
        return True, "no alias of a parameter or of another field"
    return True, "new buffer"


def source_name(e):
    """the state name an argument expression is taken from: self.<name>, dct["<name>"], local list <name>"""
    if isinstance(e, ast.Call) and e.args and dotted(e.func) in ("bool", "int", "float", "list", "np.array"):
        return source_name(e.args[0])
    if isinstance(e, ast.Call) and isinstance(e.func, ast.Attribute) and e.func.attr == "copy":
        return source_name(e.func.value)
    if isinstance(e, ast.Attribute) and isinstance(e.value, ast.Name) and e.value.id == "self":
        return e.attr.lstrip("_")
    if isinstance(e, ast.Subscript) and isinstance(e.slice, ast.Constant) and isinstance(e.slice.value, str):
        return e.slice.value
    if isinstance(e, ast.Name):
        return e.id
    return None
