"""C06 -- catchment delineation is upstream reachability on the flow grid (structural clauses).

All kernel clauses are decided on the normalised functions (cnorm: helpers inlined, temporaries substituted,
while/switch/ternary forms unified) by symbolic evaluation of loop bodies (ceval) and semantic comparison of the
recorded stores and path conditions (cq); no clause compares source text."""
import ast

from ..core import AnalysisError
from ..cfront import strip, text
from .. import ckern, xlayer, pyxread, ceval, cq, cnorm, pq
from ..ceval import CEval, find_all, loop_parts, body_stmts, loop_var, stores_to
from ..formula import Canon, Ratio, Undecided, show, num
from ..pyfront import Mod, dotted, const_value

EXPLANATION = (
    "Upstream and downstream are inverse relations iff three tables agree: the ESRI code table (Python literal), the "
    "neighbour layout of c_neighbours (slot k = 1+ix+3(1+iy) holds cell (col+ix, row+iy)), and the pairing of codes "
    "with neighbours (downstream: code j with neighbour j; upstream: neighbour j against the mirrored code 8-j, with "
    "k(-ix,-iy) = 8-k(ix,iy) as a polynomial identity), all compared by equality.  The kernels are normalised "
    "(helpers inlined, temporaries substituted) and their loop bodies evaluated symbolically; the rule set compares "
    "the recorded stores and their path conditions with the reference: the negative sentinels (-2 sink, -1 default "
    "stored on every path, -1 off-grid and unused upstream slots, -1 initialised outputs filtered with >= 0), the "
    "area store happens only when no inlet matches, the outlet is appended once and only after something drained to "
    "it, every store is preceded by a capacity test that returns an error the wrapper raises, the two step-length "
    "sites of the flow-path kernel add 1 for steps of 1 or ncols cells and sqrt(2) otherwise, and the river trace "
    "decomposes cells with % ncols and / ncols.  That the breadth-first expansion visits exactly the reachable set "
    "is not computed; hole filling is scipy's.")

ESRI = {(0, 0): 32, (0, 1): 64, (0, 2): 128, (1, 0): 16, (1, 1): 0, (1, 2): 1, (2, 0): 8, (2, 1): 4, (2, 2): 2}


def _top_loops(fn):
    return [s for s in body_stmts(fn["body"]) if s.get("kind") in ("ForStmt", "WhileStmt")]


def _main_loop(fn, file, what):
    ls = _top_loops(fn)
    if len(ls) != 1:
        # validation loops (range checks that only return) may precede the main loop: keep the loops that store something
        ls = [l for l in ls if cnorm.writes(l)[1]]
    if len(ls) != 1:
        raise AnalysisError(f"{file}: {fn['name']}: {what} not found ({len(ls)} candidate loops)")
    return ls[0]


def downstream_summary(K, repo):
    """effects of one iteration of c_downstream's main loop -> dict used by C06 and C11"""
    dn = ckern.normalised(K, "c_downstream", repo)
    main = _main_loop(dn, dn["file"], "cell loop")
    iv = loop_var(main)
    ce = cq.evaluate(body_stmts(loop_parts(main)[3]))
    st = cq.stores(ce, "idxdown")
    at_i = [e for e in st if cq.same_expr(e.idx, ('sym', iv))]
    default = [e for e in at_i if e.op == "=" and cq.same_expr(e.val, "-1") and not e.loops]
    look_ = [e for e in at_i if e.loops and e.op == "="]
    key = lambda cs: [(show(c), t) for c, t in cs]
    # the default is stored on the way to every look-up store: its path conditions are a prefix of theirs and it comes first
    first_is_default = bool(default) and bool(look_) and all(
        any(key(d.conds) == key(l.conds)[:len(d.conds)] and st.index(d) < st.index(l) for d in default) for l in look_)
    sink = [e for e in at_i if e.op == "=" and cq.same_expr(e.val, "-2")]
    return {"fn": dn, "main": main, "iv": iv, "ce": ce, "stores": st, "at_i": at_i, "default": default,
            "default_first": first_is_default, "sink": sink}


def _is_range_guard(c):
    """a recorded (cond, truth) pair that is the false branch of an error-return test"""
    return c[1] is False


def downstream_sentinels(K, repo="/repo"):
    """(default -1 stored unconditionally before the look-up, sink flagged -2, line) for c_downstream (used by C11)"""
    s = downstream_summary(K, repo)
    fd0 = False
    for e in s["sink"]:
        for c, t in e.conds:
            if t and cq.same_cond(c, "flowdir[idxup[%s]]==0" % s["iv"], True):
                fd0 = True
    return s["default_first"], bool(s["sink"]) and fd0, s["main"].get("_line")


def run(rep):
    rep.rule("R06.a", "direction tables: ESRI codes on the 3x3 layout, neighbour slot formula, code/neighbour pairing (j vs j downstream, j vs 8-j upstream) by equality")
    rep.rule("R06.b", "sentinels: -2 sink, -1 default stored on every path, -1 off-grid / unused slots, -1 initialised outputs filtered with >= 0")
    rep.rule("R06.c", "area store only when no inlet matches; outlet appended once, after something drained to it")
    rep.rule("R06.d", "every walk / store capped with an error code the wrapper raises; capacity = caller's nval")
    rep.rule("R06.e", "step length 1 for steps of 1 or ncols cells else sqrt(2), same at both sites; river dx,dy from % ncols and / ncols")
    rep.assume("distinct pointer parameters of a kernel do not overlap (the shims pass distinct ndarray buffers)")
    K = ckern.analyze(rep.repo)
    fns = K["fns"]
    for need in ("c_neighbours", "c_downstream", "c_upstream", "c_delineate_area", "c_delineate_river", "c_delineate_flowpathlengths_in_catchment"):
        if need not in fns:
            raise AnalysisError(f"gis kernels: {need} not found")
    N = lambda q: ckern.normalised(K, q, rep.repo)
    gfile, cfile = fns["c_neighbours"]["file"], fns["c_delineate_area"]["file"]
    mod = Mod(rep.repo, "gis/grid.py")
    rep.unit(f"{gfile}: c_neighbours, c_downstream, c_upstream; {cfile}: c_delineate_area, c_delineate_river, c_delineate_flowpathlengths_in_catchment (normalised); gis/grid.py")

    # ---------------- R06.a tables ----------------------------------------------------------------------------------------
    fdc = [n for n in mod.tree.body if isinstance(n, ast.Assign) and isinstance(n.targets[0], ast.Name) and n.targets[0].id == "FLOWDIRCODE"]
    if not fdc:
        raise AnalysisError("gis/grid.py: FLOWDIRCODE not found")
    lit = [n for n in ast.walk(fdc[0].value) if isinstance(n, ast.List) and n.elts and isinstance(n.elts[0], ast.List)]
    table = {}
    if lit:
        for r, row in enumerate(lit[0].elts):
            for c, x in enumerate(row.elts):
                table[(r, c)] = const_value(x)
    rep.check(table == ESRI, "R06.a", "gis/grid.py", "FLOWDIRCODE", "ESRI direction codes on the 3x3 layout (NW=32 N=64 NE=128 / W=16 0 E=1 / SW=8 S=4 SE=2)",
              f"found {table}", line=fdc[0].lineno)

    # ---- c_neighbours: cell decomposition, offsets, slot formula -------------------------------------------------------------
    nb = N("c_neighbours")
    ntop = body_stmts(nb["body"])
    outer = [s for s in ntop if s.get("kind") == "ForStmt"]
    if len(outer) != 1:
        raise AnalysisError(f"{gfile}: c_neighbours: offset loops not found")
    outer = outer[0]
    inner = [s for s in body_stmts(loop_parts(outer)[3]) if s.get("kind") == "ForStmt"]
    flat = False
    if len(inner) == 0:
        # one loop over the nine slots (ix, iy derived from the slot number)
        lo_ = cq.loop_range(outer, cq.preceding(ntop, outer))
        if not cq.range_is(lo_, "0", "8"):
            raise AnalysisError(f"{gfile}: c_neighbours: offset loops not found")
        flat = True
        inner = outer
        outer_v = inner_v = lo_["var"]
        rep.proved("R06.a", gfile, "c_neighbours", "one loop over the nine slots 0..8", line=outer.get("_line"))
    elif len(inner) != 1:
        raise AnalysisError(f"{gfile}: c_neighbours: inner offset loop not found")
    else:
        inner = inner[0]
        lo_, li_ = cq.loop_range(outer, cq.preceding(ntop, outer)), cq.loop_range(inner, cq.preceding(body_stmts(loop_parts(outer)[3]), inner))
        rep.check(cq.range_is(lo_, "-1", "1") and cq.range_is(li_, "-1", "1"), "R06.a", gfile, "c_neighbours", "offsets ix, iy range over -1..1",
                  f"outer {lo_ and (show(lo_['lo']) if lo_['lo'] else None, show(lo_['hi']) if lo_['hi'] else None)}", line=outer.get("_line"))
        outer_v, inner_v = lo_["var"] if lo_ else loop_var(outer), li_["var"] if li_ else loop_var(inner)
    # decomposition of the cell number before the loops (getnxy inlined): two scratch values, column then row
    pre = cq.evaluate(cq.preceding(ntop, outer), oracle=lambda c: False)       # range guards not taken
    scratch = [e for e in pre.effects if e.op == "=" and e.arr not in ("neighbours",)]
    col = [e for e in scratch if cq.same_expr(e.val, "idxcell % ncols")]
    okcol = len(col) == 1
    row = []
    if okcol:
        cname, cidx = col[0].arr, col[0].idx
        row = [e for e in scratch if e.arr == cname and e is not col[0] and cq.same_expr(e.val, "(idxcell - idxcell % ncols)/ncols")]
    rep.check(okcol and len(row) == 1, "R06.a", gfile, "c_neighbours", "column = idx mod ncols, row = (idx - column) / ncols",
              "; ".join(repr(e) for e in scratch)[:300], line=nb["line"])
    if not (okcol and len(row) == 1):
        return EXPLANATION
    cname = col[0].arr

    def cellarr(idx):
        cn_ = Canon()
        if cn_.ratio(idx) == cn_.ratio(col[0].idx):
            return ('sym', 'COL')
        if cn_.ratio(idx) == cn_.ratio(row[0].idx):
            return ('sym', 'ROW')
        raise Undecided(f"read of {cname}[{show(idx)}]")
    istm = body_stmts(loop_parts(inner)[3])
    cn = Canon()
    want_slot = cn.ratio(cq.parse(f"1 + {inner_v} + 3*(1 + {outer_v})"))
    alt_slot = cn.ratio(cq.parse(f"1 + {outer_v} + 3*(1 + {inner_v})"))
    # The inner body is evaluated once symbolically (stores into `neighbours` with their path conditions); the conditions and the
    # stored slot / value are then decided by integer evaluation on the finite domain: grids of 1..3 rows and columns, every cell,
    # the nine offsets.  Whichever way the tests are written (centre as ix==0&&iy==0 or k==4, inside or outside polarity), the
    # store that is live for an offset must be slot 1+ix+3(1+iy) <- (row+iy)*ncols + col+ix, or -1 for the centre and off-grid cells.
    try:
        nce = cq.evaluate(istm, arrays={cname: cellarr})
        nst = [e for e in nce.effects if e.arr == "neighbours" and e.op == "="]
    except Undecided as ex:
        nst = None
        rep.undecided("R06.a", gfile, "c_neighbours", "slot store", str(ex), line=inner.get("_line"))
    pre_scalars = {}
    try:
        pre2 = cq.evaluate(cq.preceding(ntop, outer), oracle=lambda c: False, arrays={cname: cellarr})
        if pre2.finals:
            pre_scalars = {k_: v_ for k_, v_ in pre2.finals[-1][0].items() if "[" not in k_ and isinstance(v_, tuple)}
    except Undecided:
        pre_scalars = {}
    if nst is not None:
        verdicts = {}
        for swap in (False, True):
            bad_a, bad_b, und_, ncase = [], [], None, 0
            for nr_ in (1, 2, 3):
                for nc_ in (1, 2, 3):
                    for r_ in range(nr_):
                        for c_ in range(nc_):
                            for dy in (-1, 0, 1):
                                for dx in (-1, 0, 1):
                                    envv = {"nrows": nr_, "ncols": nc_, "ROW": r_, "COL": c_, "idxcell": r_ * nc_ + c_}
                                    if flat:
                                        envv[inner_v] = (1 + dx + 3 * (1 + dy)) if not swap else (1 + dy + 3 * (1 + dx))
                                    else:
                                        envv[inner_v if not swap else outer_v] = dx
                                        envv[outer_v if not swap else inner_v] = dy
                                    # scalars set before the loops (a column / row kept in a local): their value under this assignment
                                    for k_, v_ in pre_scalars.items():
                                        if k_ not in envv:
                                            iv_ = cq.int_eval(v_, envv)
                                            if iv_ is not None:
                                                envv[k_] = iv_
                                    live = []
                                    for e in nst:
                                        vals = [(cq.int_eval(cnd, envv), t) for cnd, t in e.conds]
                                        if any(v is None for v, _t in vals):
                                            badc_ = [cnd for (cnd, _t2), (v, _t) in zip(e.conds, vals) if v is None]
                                            und_ = f"test outside the integer vocabulary: {show(badc_[0])[:300]}"
                                            continue
                                        if all(bool(v) == t for v, t in vals):
                                            live.append(e)
                                    if und_:
                                        continue
                                    ncase += 1
                                    slot = 1 + dx + 3 * (1 + dy)
                                    inside_ = 0 <= r_ + dy < nr_ and 0 <= c_ + dx < nc_ and (dx, dy) != (0, 0)
                                    want_v = (r_ + dy) * nc_ + c_ + dx if inside_ else -1
                                    if not live:
                                        bad_a.append(f"grid {nr_}x{nc_} cell ({r_},{c_}) offset ({dx},{dy}): nothing stored")
                                        continue
                                    e = live[-1]
                                    si, vi = cq.int_eval(e.idx, envv), cq.int_eval(e.val, envv)
                                    if si is None or vi is None:
                                        und_ = f"slot / value outside the integer vocabulary: {show(e.idx)[:40]} <- {show(e.val)[:40]}"
                                        continue
                                    if si != slot or (inside_ and vi != want_v):
                                        bad_a.append(f"grid {nr_}x{nc_} cell ({r_},{c_}) offset ({dx},{dy}): slot {si} <- {vi}, expected slot {slot} <- {want_v}")
                                    elif not inside_ and vi != -1:
                                        bad_b.append(f"grid {nr_}x{nc_} cell ({r_},{c_}) offset ({dx},{dy}): slot {si} <- {vi}, expected -1 ({'centre' if (dx, dy) == (0, 0) else 'off-grid'})")
            verdicts[swap] = (bad_a, bad_b, und_, ncase)
        best = min(verdicts.values(), key=lambda v: (v[2] is not None, len(v[0]) + len(v[1])))
        bad_a, bad_b, und_, ncase = best
        if und_:
            rep.undecided("R06.a", gfile, "c_neighbours", "slot store", und_, line=inner.get("_line"))
        else:
            rep.check(not bad_a, "R06.a", gfile, "c_neighbours",
                      "slot k = 1+ix+3(1+iy) holds cell (row+iy)*ncols + (col+ix): rows of the layout are grid rows, columns are grid columns",
                      (bad_a[0] + (f" ... {len(bad_a)} of {ncase} cases" if len(bad_a) > 1 else "")) if bad_a else f"{ncase} (grid, cell, offset) cases", line=inner.get("_line"))
            rep.check(not bad_b, "R06.b", gfile, "c_neighbours", "centre slot and off-grid neighbours hold -1 (all four sides, grids of 1 to 3 rows and columns)",
                      (bad_b[0] + (f" ... {len(bad_b)} of {ncase} cases" if len(bad_b) > 1 else "")) if bad_b else f"{ncase} cases", line=inner.get("_line"))
    k = lambda ix, iy: 1 + ix + 3 * (1 + iy)
    rep.check(all(k(-ix, -iy) == 8 - k(ix, iy) for ix in (-1, 0, 1) for iy in (-1, 0, 1)), "R06.a", gfile, "c_neighbours", "k(-ix,-iy) = 8 - k(ix,iy): slot 8-j is the opposite direction of slot j", "")

    # ---- c_downstream ---------------------------------------------------------------------------------------------------------------------
    D = downstream_summary(K, rep.repo)
    div, dmain = D["iv"], D["main"]
    fdx = f"flowdir[idxup[{div}]]"
    look = [e for e in D["at_i"] if e.loops and e.op == "="]
    okp, det = False, "no store of a neighbour inside a scan loop"
    if len(look) == 1:
        e = look[0]
        jv = e.loops[-1]
        det = repr(e)[:200]
        okp = cq.same_expr(e.val, f"neighbours[{jv}]") and cq.holds(e.conds, f"{fdx} == flowdircode[{jv}]", True)
        scan = [l for l in find_all(dmain, lambda n: n.get("kind") == "ForStmt") if l is not dmain and loop_var(l) == jv]
        lr = cq.loop_range(scan[0], ()) if scan else None
        okp = okp and cq.range_is(lr, "0", "8")
    rep.check(okp, "R06.a", gfile, "c_downstream", "downstream: code table entry j selects neighbour j (equality of codes, all 9 slots)", det, line=dmain.get("_line"))
    nbc = cq.calls(D["ce"], "c_neighbours")
    oknb = len(nbc) == 1 and len(nbc[0].val) == 4 and cq.same_expr(nbc[0].val[2], f"idxup[{div}]") and cq.same_expr(nbc[0].val[0], "nrows") and cq.same_expr(nbc[0].val[1], "ncols")
    rep.check(oknb, "R06.a", gfile, "c_downstream", "neighbours and flow code are those of the cell itself", "", line=dmain.get("_line"))
    rep.check(D["default_first"], "R06.b", gfile, "c_downstream", "idxdown[i] = -1 stored unconditionally before the code look-up (unknown codes drain nowhere)",
              "without the default an unknown code keeps a stale cell number: walks loop or jump to an unrelated cell", line=dmain.get("_line"))
    oks = len(D["sink"]) == 1 and cq.holds(D["sink"][0].conds, f"{fdx} == 0", True) and \
        all(cq.excluded(e.conds, f"{fdx} == 0", True) for e in look)
    rep.check(oks, "R06.b", gfile, "c_downstream", "sinks (code 0) are flagged -2", "", line=dmain.get("_line"))

    # ---- c_upstream -------------------------------------------------------------------------------------------------------------------------
    up = N("c_upstream")
    umain = _main_loop(up, gfile, "cell loop")
    uiv = loop_var(umain)
    ustm = body_stmts(loop_parts(umain)[3])
    uce = cq.evaluate(ustm)
    ust = cq.stores(uce, "idxup")
    found = [e for e in ust if e.op == "=" and not cq.same_expr(e.val, "-1")]
    fill = [e for e in ust if e.op == "=" and cq.same_expr(e.val, "-1")]
    okup, det, kname = False, "no store of a neighbour", None
    if len(found) == 1 and found[0].loops:
        e = found[0]
        jv = e.loops[-1]
        det = repr(e)[:260]
        nbj = f"neighbours[{jv}]"
        # slot index 9*i + K with K a plain counter
        cnu = Canon()
        off = cnu.ratio(e.idx) - cnu.ratio(cq.parse(f"9*{uiv}"))
        ks = sorted(off.symbols())
        okslot = len(ks) == 1 and off == Ratio.sym(ks[0])
        kname = ks[0] if okslot else None
        okup = okslot and cq.same_expr(e.val, nbj) and cq.holds(e.conds, f"flowdir[{nbj}] == flowdircode[8-{jv}]", True)
        scan = [l for l in find_all(umain, lambda n: n.get("kind") == "ForStmt") if l is not umain and loop_var(l) == jv]
        okup = okup and bool(scan) and cq.range_is(cq.loop_range(scan[0], ()), "0", "8")
        if okup:
            # the counter starts at 0 before the scan and steps once with the store
            ini = [s for s in cq.preceding(ustm, scan[0]) if s.get("kind") == "BinaryOperator" and s.get("opcode") == "=" and
                   text(s["inner"][0]) == kname and cq.same_expr(s["inner"][1], "0")]
            blk = _innermost_block_with(scan[0], e.line, "idxup")
            okup = bool(ini) and blk is not None and len(cq.steps_of({"kind": "CompoundStmt", "inner": blk}, kname)) == 1 and \
                len(cq.steps_of(scan[0], kname)) == 1
    rep.check(okup, "R06.a", gfile, "c_upstream", "upstream: neighbour j drains into the cell iff its code equals the mirrored table entry 8-j (equality); slots filled consecutively from 0",
              det, line=umain.get("_line"))
    okskip = len(found) == 1 and (cq.excluded(found[0].conds, f"neighbours[{found[0].loops[-1]}] == -1", True) or
                                  cq.holds(found[0].conds, f"neighbours[{found[0].loops[-1]}] >= 0", True)) and \
        cq.excluded(found[0].conds, f"flowdir[neighbours[{found[0].loops[-1]}]] == 0", True) if found and found[0].loops else False
    rep.check(okskip, "R06.b", gfile, "c_upstream", "off-grid neighbours and sinks are skipped before the code test", det, line=umain.get("_line"))
    okf = False
    if len(fill) == 1 and fill[0].loops and kname:
        fe = fill[0]
        fv = fe.loops[-1]
        fl = [l for l in find_all(umain, lambda n: n.get("kind") == "ForStmt") if l is not umain and loop_var(l) == fv and stores_to(l, "idxup")
              and not find_all(l, lambda n: n.get("kind") == "IfStmt")]
        if fl:
            lr = cq.loop_range(fl[0], cq.preceding(ustm, fl[0]))
            start_ok = lr is not None and cq.same_expr(lr["hi"], "8") and lr["step"] == 1 and \
                ((lr["lo"] is not None and cq.same_expr(lr["lo"], kname)) or (lr["lo"] is None and fv == kname))
            okf = start_ok and cq.same_expr(fe.idx, f"9*{uiv} + {fv}")
    rep.check(okf, "R06.b", gfile, "c_upstream", "unused upstream slots are -1", "; ".join(repr(e) for e in fill)[:200], line=umain.get("_line"))

    # ---------------- R06.c / R06.d delineate_area ----------------------------------------------------------------------------------
    da = N("c_delineate_area")
    wl = [l for l in _top_loops(da) if stores_to(l, "idxcells_area")]
    if len(wl) != 1:
        raise AnalysisError(f"{cfile}: c_delineate_area main loop not found")
    wl = wl[0]
    wstm = body_stmts(loop_parts(wl)[3])
    ace = cq.evaluate(wstm)
    ast_ = cq.stores(ace, "idxcells_area")
    upst = [e for e in ast_ if e.loops]
    outl = [e for e in ast_ if not e.loops]
    # -- the upstream store happens only when no inlet matches
    okin, det = False, "store of upstream cells not found"
    if len(upst) == 1:
        e = upst[0]
        det = repr(e)[:260]
        cellx = e.val
        okin = _not_an_inlet(wl, e, cellx) and cq.holds(e.conds, ('cmp', '>=', cellx, num(0)), True)
        b2 = [x for x in cq.stores(ace, "buffer2") if x.loops == e.loops and cq.same_expr(x.val, cellx)]
        okin = okin and len(b2) == 1 and [(show(c), t) for c, t in b2[0].conds][:len(e.conds)] == [(show(c), t) for c, t in e.conds]
        upc = cq.calls(ace, "c_upstream")
        okin = okin and len(upc) == 1
    rep.check(okin, "R06.c", cfile, "c_delineate_area", "upstream cells (non-negative results of c_upstream on each cell of the layer) are stored in the area and the next layer only when they match no inlet",
              det, line=wl.get("_line"))
    # -- outlet appended once, on the first layer, after the empty-layer return
    okout, det = False, "outlet store not found"
    if len(outl) == 1:
        e = outl[0]
        det = repr(e)[:260]
        lv = _layer_counter(wl, wstm)
        empties = [r for r in ace.returns if r[0] not in ("end", "BreakStmt", "ContinueStmt") and isinstance(r[0], tuple) and cq.same_expr(r[0], "0")]
        okout = cq.same_expr(e.val, "idxoutlet") and lv is not None and cq.holds(e.conds, f"{lv['var']} == {lv['first']}", True) and \
            any(cq.holds(r[1], "nbuffer2 == 0", True) or _holds_count_zero(r[1], ace) for r in empties) and \
            _excludes_empty(e.conds, ace)
    rep.check(okout, "R06.c", cfile, "c_delineate_area", "outlet appended exactly once (first layer) and only after something drained to it", det, line=wl.get("_line"))
    # -- capacity tests dominate every store
    caps_ok = True
    capdet = []
    for e in upst + outl:
        ok1 = cq.excluded(e.conds, f"{show(e.idx)} == nval-1", True) or cq.holds(e.conds, f"{show(e.idx)} < nval-1", True)
        capdet.append(f"idxcells_area[{show(e.idx)}]: {'guarded' if ok1 else 'NOT guarded'}")
        caps_ok = caps_ok and ok1
    errs = [r for r in ace.returns + [(x[0], x[1], x[2]) for x in ace.loop_returns] if isinstance(r[0], tuple) and not cq.same_expr(r[0], "0")]
    rep.check(caps_ok and len(errs) >= 2, "R06.d", cfile, "c_delineate_area",
              "buffer exhaustion returns an error before every store (index == nval-1 tested on the path to the store)", "; ".join(capdet), line=wl.get("_line"))
    swap = [x for x in cq.stores(ace, "buffer1") if x.loops and cq.same_expr(x.val, f"buffer2[{x.loops[-1]}]") and cq.same_expr(x.idx, x.loops[-1])]
    rep.check(len(swap) == 1, "R06.c", cfile, "c_delineate_area", "next layer = cells found upstream of the current layer (buffer swap)", "", line=wl.get("_line"))

    # ---------------- wrappers --------------------------------------------------------------------------------------------------------------
    P = pyxread.load_all(rep.repo)
    shims = {cm: {sh.name: sh for sh in d["shims"]} for cm, d in P.items()}
    sites, _ = xlayer.find_sites(rep.repo, shims)
    by = {}
    for s in sites:
        by.setdefault(s.shim.name, []).append(s)
    for shim in ("delineate_area", "delineate_boundary", "delineate_river", "delineate_flowpathlengths_in_catchment", "upstream", "downstream"):
        for s in by.get(shim, []):
            ok, how, _ = xlayer.error_discipline(s)
            rep.check(ok, "R06.d", "gis/grid.py", s.func.name, f"{shim}: kernel error code raises", how, line=s.call.lineno)
    rep.floor("delineation call sites", sum(len(by.get(x, [])) for x in ("delineate_area", "delineate_river", "delineate_flowpathlengths_in_catchment", "upstream", "downstream")), 5)
    s = by.get("delineate_area", [None])[0]
    if s is None:
        raise AnalysisError("gis/grid.py: delineate_area call site not found")
    for pn in ("idxcells_area", "buffer1", "buffer2"):
        v = s.args.get(pn)
        xlayer.check_init(rep, v, ("const", -1), "R06.b", "gis/grid.py", "delineate_area", f"`{pn}` initialised to -1", s.call.lineno)
    f = s.func
    # the inlets of THIS call: without an argument the kernel gets no inlet, not the inlets an earlier call left on the object
    try:
        pa_ = pq.call_arguments(f, s.call, list(s.shim.params))
        inl = pa_.get("idxinlets")
    except Exception:
        inl = None
    if inl is None:
        rep.undecided("R06.c", "gis/grid.py", "delineate_area", "inlets handed to the kernel come from this call's argument", "argument not bound", line=s.call.lineno)
    else:
        stale = [show(v)[:80] for _c, v in pq.split_where(inl) if pq.mentions(v, lambda x: pq.call_named(x, "attr:_idxinlets") and x[2] == (('sym', 'self'),))]
        rep.check(not stale, "R06.c", "gis/grid.py", "delineate_area", "inlets handed to the kernel come from this call's argument (no inlet when none is given)",
                  f"the kernel can receive the inlets stored by an earlier call: {stale[0] if stale else ''}", line=s.call.lineno, firm=True)
        # "no inlet" is decided by the absence of the argument (None, or zero length), never by the VALUES given: cell 0 is a cell
        byvalue = []
        for c_, v in pq.split_where(inl):
            if pq.mentions(v, lambda x: x == ('sym', 'idxinlets')):
                continue            # the caller's inlets, converted
            for cnd, t_ in c_:
                for sub in pq.find(cnd, lambda x: x[0] == 'call' and x[1] in ("any", "all", "sum", "max", "min", "nonzero", "count_nonzero", ".any", ".all", ".sum", "py.any", "py.all", "py.sum", "py.bool")
                                   and pq.mentions(x, lambda y: y == ('sym', 'idxinlets'))):
                    byvalue.append(show(sub)[:60])
                if cnd == ('sym', 'idxinlets') or cnd == ('not', ('sym', 'idxinlets')):
                    byvalue.append("truth value of idxinlets")
        rep.check(not byvalue, "R06.c", "gis/grid.py", "delineate_area", "the kernel gets no inlet only when none is given (None / zero length), not depending on the inlet values",
                  f"the empty inlet list is selected by {sorted(set(byvalue))[:2]}: the inlet set {{0}} (top-left cell) is dropped silently", line=s.call.lineno, firm=True)
        # every inlet given reaches the kernel: conversions only (np.unique keeps the set), no selection by value or position
        cut = [show(x)[:70] for _c, alt in pq.split_where(inl) if pq.mentions(alt, lambda y: y == ('sym', 'idxinlets'))
               for x in pq.find(alt, lambda y: (pq.call_named(y, "getitem") or pq.call_named(y, "delete") or pq.call_named(y, "compress") or pq.call_named(y, "extract")
                                                  or pq.call_named(y, "setdiff1d") or pq.call_named(y, "intersect1d") or pq.call_named(y, "trim_zeros"))
                                and pq.mentions(y, lambda z: z == ('sym', 'idxinlets')))]
        rep.check(not cut, "R06.c", "gis/grid.py", "delineate_area", "every inlet given by the caller is handed to the kernel (conversions only, no selection by value or position)",
                  f"the inlets are filtered before the search: {cut[:1]} (a dropped inlet lets the area continue upstream of it; cell 0 is a cell)", line=s.call.lineno, firm=True)
    okflt = _filters_nonneg(f, ast.unparse(s.args["idxcells_area"][0]) if "idxcells_area" in s.args else None)
    rep.check(okflt, "R06.b", "gis/grid.py", "delineate_area", "area = cells with a non-negative number (the -1 filling is dropped)", "", line=f.lineno)
    params = {a.arg for a in f.args.args}
    caps = []
    for pn in ("idxcells_area", "buffer1", "buffer2"):
        v = s.args.get(pn)
        shp = v[1].shape if v is not None else None
        sym = None
        if shp is not None and len(shp) == 1:
            syms = sorted(shp[0].symbols()) if hasattr(shp[0], "symbols") else []
            if len(syms) == 1 and str(shp[0]) == syms[0]:
                sym = syms[0].split("~")[0]
        caps.append(sym)
    reassigned = [n for n in ast.walk(f) if isinstance(n, (ast.Assign, ast.AugAssign)) and any(isinstance(t, ast.Name) and t.id in params and t.id in caps
                                                                                               for t in (n.targets if isinstance(n, ast.Assign) else [n.target]))]
    cons_cap = "buffer capacity is the caller's size parameter itself (the kernel needs one spare slot: it is never clipped to the grid size)"
    if any(c_ is None for c_ in caps) and not reassigned:
        rep.undecided("R06.d", "gis/grid.py", "delineate_area", cons_cap, f"length of a buffer is not tracked by the shape evaluator: {caps}", line=f.lineno)
    else:
        rep.check(len(set(caps)) == 1 and caps[0] in params and not reassigned, "R06.d", "gis/grid.py", "delineate_area", cons_cap,
                  f"parameter reassigned at line {reassigned[0].lineno}" if reassigned else f"buffer lengths {caps}", line=f.lineno)
    rep.check(ast.unparse(s.args["flowdircode"][0]) == "FLOWDIRCODE" if "flowdircode" in s.args else False, "R06.a", "gis/grid.py", "delineate_area", "kernel receives the FLOWDIRCODE table", "", line=s.call.lineno)
    for shim in ("upstream", "downstream", "delineate_river", "delineate_flowpathlengths_in_catchment"):
        for s2 in by.get(shim, []):
            rep.check("flowdircode" in s2.args and ast.unparse(s2.args["flowdircode"][0]) == "FLOWDIRCODE", "R06.a", "gis/grid.py", s2.func.name, f"{shim}: kernel receives the FLOWDIRCODE table", "", line=s2.call.lineno)

    # ---------------- R06.e step lengths -------------------------------------------------------------------------------------------------------------
    fp = N("c_delineate_flowpathlengths_in_catchment")
    fmain = _main_loop(fp, cfile, "cell loop")
    fstm = body_stmts(loop_parts(fmain)[3])
    walk = [l for l in fstm if l.get("kind") in ("WhileStmt", "ForStmt")]
    if len(walk) != 1:
        raise AnalysisError(f"{cfile}: c_delineate_flowpathlengths_in_catchment: downstream walk not found")
    walk = walk[0]
    wparts = loop_parts(walk)
    def length_steps(stmts, label):
        """every step between 8-neighbours adds 1 when the cells share a row or a column and sqrt(2) otherwise.  The paths through
        `stmts` are enumerated symbolically; which path a step takes is then decided by evaluating the recorded conditions on the finite
        domain ncols in 1..6 x every in-grid position x the 8 offsets.  |down - up| = |dx + ncols dy| takes the pairwise distinct values
        1, ncols-1, ncols, ncols+1 for ncols >= 3, so ncols = 3..6 stand for every wider grid; ncols = 1 and 2 are the special cases."""
        ce = CEval(lambda c: False if ("ierr" in show(c) or "c_downstream" in show(c)) else None)
        ce.summarise_loops = True
        try:
            ce.run(stmts, {"length": ('sym', 'L0')})
        except Undecided as ex:
            return None, str(ex)
        alts = []
        for env, conds, how in ce.finals:
            if how == "return" or "length" not in env:
                continue
            cnl = Canon()
            try:
                inc = cnl.ratio(env["length"]) - Ratio.sym('L0')
            except Undecided as ex:
                return None, str(ex)
            if 'L0' not in cnl.ratio(env["length"]).symbols():
                inc = None                 # reset to a constant (walk left the grid)
            alts.append((conds, inc, cnl))
        if not alts:
            return None, "no path updates the length"
        bad, ncase = [], 0
        for ncols in range(1, 7):
            for r in range(0, 3):
                for c in range(0, ncols):
                    for dy in (-1, 0, 1):
                        for dx in (-1, 0, 1):
                            if (dx, dy) == (0, 0) or not (0 <= c + dx < ncols) or not (0 <= r + dy < 3):
                                continue
                            up, down = r * ncols + c, (r + dy) * ncols + (c + dx)
                            envv = {"ncols": ncols, "nrows": 3, "idxcell_up[0]": up, "idxcell_down[0]": down}
                            live = []
                            for conds, inc, cnl in alts:
                                ok = True
                                for cnd, t in conds:
                                    v = cq.int_eval(cnd, envv)
                                    if v is None:
                                        continue           # a test that does not depend on the geometry of the step
                                    if bool(v) != t:
                                        ok = False
                                if ok:
                                    live.append((inc, cnl))
                            incs = [(i_, cn_) for i_, cn_ in live if i_ is not None and not i_.is_zero()]
                            if not incs:
                                continue
                            ncase += 1
                            ortho = dx == 0 or dy == 0
                            for i_, cn_ in incs:
                                want = Ratio.const(1) if ortho else cn_.ratio(cq.parse("sqrt(2)"))
                                if i_ != want:
                                    bad.append(f"ncols={ncols}, step ({dx},{dy}) from cell {up} to {down}: length += {i_}, expected {'1' if ortho else 'sqrt(2)'}")
        if ncase < 40:
            return None, f"only {ncase} geometric cases reached a length update"
        return (not bad), ("; ".join(bad[:3]) + (f" ... {len(bad)} cases" if len(bad) > 3 else "")) if bad else f"{ncase} (ncols, position, offset) cases"
    ok1, d1 = length_steps(body_stmts(wparts[3]), "walk")
    post = fstm[fstm.index(walk) + 1:]
    ok2, d2 = length_steps(post, "last step")
    if ok1 is None or ok2 is None:
        rep.undecided("R06.e", cfile, "c_delineate_flowpathlengths_in_catchment", "step lengths", f"{d1} / {d2}", line=fp["line"])
    else:
        rep.check(ok1, "R06.e", cfile, "c_delineate_flowpathlengths_in_catchment", "walk step: length grows by 1 when the two cells share a row or a column, by sqrt(2) otherwise (every grid width)", d1, line=walk.get("_line"))
        rep.check(ok2, "R06.e", cfile, "c_delineate_flowpathlengths_in_catchment", "last step into the outlet: same lengths as the walk step", d2, line=walk.get("_line"))
    # the last step is never refused to a path the walk completed: a path through an area of nval cells has at most nval - 1
    # steps, so the walk leaves with at most nval - 2 of them counted when it stops at the outlet
    def last_step_taken(stmts, counter):
        ce = CEval(lambda c: False if ("ierr" in show(c) or "c_downstream" in show(c)) else None)
        ce.summarise_loops = True
        try:
            ce.run(stmts, {"length": ('sym', 'L0')})
        except Undecided as ex:
            return None, str(ex)
        alts = []
        for env, conds, how in ce.finals:
            if how == "return" or "length" not in env:
                continue
            cnl = Canon()
            r_ = cnl.ratio(env["length"])
            alts.append((conds, 'L0' in r_.symbols() and not (r_ - Ratio.sym('L0')).is_zero()))
        bad, n = [], 0
        for nv in range(2, 8):
            for k in range(0, nv - 1):
                envv = {"nval": nv, counter: k, "ncols": 3, "nrows": 3, "idxcell_up[0]": 3, "idxcell_down[0]": 4}
                live = []
                for conds, incs in alts:
                    vals = [(cq.int_eval(cnd, envv), t) for cnd, t in conds]
                    if any(v is None for v, _t in vals):
                        return None, "a test of the last step is outside the integer vocabulary"
                    if all(bool(v) == t for v, t in vals):
                        live.append(incs)
                n += 1
                if not live or not all(live):
                    bad.append(f"area of {nv} cells, {k} steps counted by the walk: the step into the outlet is not added")
        return (not bad), (bad[0] + (f" ... {len(bad)} cases" if len(bad) > 1 else "")) if bad else f"{n} (area size, steps walked) cases"
    # cap of the walk and its stops
    capv = None
    for c_ in cq._conj(wparts[1]):
        a = cq.cond_atoms(c_, True)
        if isinstance(a, cq.Atom) and a.op == '<=':
            syms = a.d.symbols()
            if "nval" in syms:
                capv = [x for x in syms if x != "nval"]
    okw = bool(capv) and len(capv) == 1 and cq.same_cond(wparts[1] if len(cq._conj(wparts[1])) == 1 else cq._conj(wparts[1])[0], f"{capv[0]} < nval", True) and \
        len(cq.steps_of(walk, capv[0])) >= 1
    if capv and len(capv) == 1:
        ok3, d3 = last_step_taken(post, capv[0])
        if ok3 is None:
            rep.undecided("R06.e", cfile, "c_delineate_flowpathlengths_in_catchment", "last step counted for every completed walk", d3, line=walk.get("_line"))
        else:
            rep.check(ok3, "R06.e", cfile, "c_delineate_flowpathlengths_in_catchment",
                      "the step into the outlet is added for every walk that reached it (up to nval - 2 steps counted before)", d3, line=walk.get("_line"))
    rep.check(okw, "R06.d", cfile, "c_delineate_flowpathlengths_in_catchment", "downstream walk capped by the number of area cells (counter stepped in the walk)", text(wparts[1]), line=fp["line"])
    wce = cq.evaluate(body_stmts(wparts[3]))
    brk = [r for r in wce.returns if r[0] == "BreakStmt"]
    stop_neg = any(cq.holds(r[1], "idxcell_down[0] < 0", True) or _disj_has(r[1], "idxcell_down[0] < 0") for r in brk) or \
        any(cq.same_cond(c_, "idxcell_down[0] >= 0", True) for c_ in cq._conj(wparts[1]))
    stop_out = any(cq.holds(r[1], "idxcell_down[0] == idxcell_outlet", True) for r in brk) or \
        any(cq.same_cond(c_, "idxcell_down[0] != idxcell_outlet", True) for c_ in cq._conj(wparts[1]))
    rep.check(stop_neg and stop_out, "R06.e", cfile, "c_delineate_flowpathlengths_in_catchment",
              "walk stops when it leaves the grid / reaches a sink, or at the outlet", f"{len(brk)} break paths", line=fp["line"])
    adv = [e for e in cq.stores(wce, "idxcell_up") if cq.same_expr(e.val, "idxcell_down[0]")]
    dcall = cq.calls(wce, "c_downstream")
    rep.check(len(adv) >= 1 and (len(dcall) == 1 or _assigned_call(walk, "c_downstream")), "R06.e", cfile, "c_delineate_flowpathlengths_in_catchment",
              "walk follows the downstream chain (current cell <- downstream cell of c_downstream)", "", line=fp["line"])

    # ---- river trace ---------------------------------------------------------------------------------------------------------------------------------
    rv = N("c_delineate_river")
    rmain = _main_loop(rv, cfile, "trace loop")
    rstm = body_stmts(loop_parts(rmain)[3])
    rce = CEval(lambda c: False if _is_error_test(c) else None)
    rce.summarise_loops = True
    try:
        rce.run(rstm, {"dx": ('sym', 'DX0'), "dy": ('sym', 'DY0'), "dist": ('sym', 'DIST0'), "idxupstream": ('sym', 'CUR')})
        fin = [f_ for f_ in rce.finals if f_[2] == "end"]
    except Undecided as ex:
        fin = []
        rep.undecided("R06.e", cfile, "c_delineate_river", "trace step", str(ex), line=rv["line"])
    if fin:
        env = fin[-1][0]
        col_ = lambda x: f"({x} % ncols)"
        row_ = lambda x: f"(({x} - {x} % ncols)/ncols)"
        okdx = cq.same_expr(env.get("dx", num(0)), f"{col_('CUR')} - {col_('idxdown[0]')}") and cq.same_expr(env.get("dy", num(0)), f"{row_('CUR')} - {row_('idxdown[0]')}")
        rep.check(okdx, "R06.e", cfile, "c_delineate_river", "dx, dy = column / row differences from idx % ncols and (idx - col) / ncols",
                  f"dx = {show(env.get('dx', num(0)))[:120]}; dy = {show(env.get('dy', num(0)))[:120]}", line=rv["line"])
        rep.check(cq.same_expr(env.get("dist", num(0)), "DIST0 + sqrt(DX0*DX0 + DY0*DY0)"), "R06.e", cfile, "c_delineate_river",
                  "distance accumulates sqrt(dx^2 + dy^2): 1 per orthogonal step, sqrt(2) per diagonal step", show(env.get("dist", num(0)))[:160], line=rv["line"])
        rep.check(cq.same_expr(env.get("idxupstream", num(0)), "idxdown[0]"), "R06.e", cfile, "c_delineate_river",
                  "river trace follows the downstream chain (current cell <- downstream cell)", show(env.get("idxupstream", num(0)))[:80], line=rv["line"])
    return EXPLANATION


# ----------------------------------------------------------------------------------------------------------------- helpers
def _is_error_test(c):
    """conditions of the form `ierr > 0` / constant > 0 introduced by inlined error checks"""
    s = show(c)
    return "ierr" in s or s.replace(" ", "") in ("(0>0)", "0>0")


def _is_outside_test(c):
    """comparison Expr on col+ix / row+iy: True for an `outside the grid` test, False for an `inside` test, None otherwise"""
    s = show(c)
    if "COL" not in s and "ROW" not in s:
        return None
    op, a, b = c[1], c[2], c[3]
    left_has = "COL" in show(a) or "ROW" in show(a)
    if not left_has:
        op = {"<": ">", "<=": ">=", ">": "<", ">=": "<=", "==": "==", "!=": "!="}[op]
        a, b = b, a
    bs = show(b).replace(" ", "")
    if op == "<" and bs == "0":
        return True
    if op == ">=" and bs == "0":
        return False
    if op in (">", ">="):
        return True
    if op in ("<", "<="):
        return False
    return None


def _sides(e, outer_v, inner_v):
    """which sides of the grid a boolean Expr tests, as canonical strings"""
    out = set()
    if e[0] in ('and', 'or', 'not'):
        for c in e[1:]:
            if isinstance(c, tuple):
                out |= _sides(c, outer_v, inner_v)
        return out
    if e[0] != 'cmp':
        return out
    for name, n in (("col", "ncols"), ("row", "nrows")):
        base = "COL" if name == "col" else "ROW"
        for off in (outer_v, inner_v):
            for txt, tag in ((f"{base}+{off} < 0", f"{name}<0"), (f"{base}+{off} >= {n}", f"{name}>={n}")):
                if cq.same_cond(e, txt, True) or cq.same_cond(('not', e), txt, True):
                    out.add(tag)
    return out


def _innermost_block_with(loop, line, arr):
    """statement list of the innermost compound statement of `loop` that directly contains the store to arr at `line`"""
    best = None

    def rec(n):
        nonlocal best
        if n.get("kind") == "CompoundStmt":
            for c in n.get("inner", []):
                if c.get("kind") in ("BinaryOperator",) and c.get("opcode") == "=" and c.get("_line") == line and stores_to(c, arr):
                    best = [x for x in n["inner"] if x.get("kind")]
        for c in n.get("inner", []):
            if isinstance(c, dict) and c.get("kind"):
                rec(c)
    rec(loop)
    return best


def _not_an_inlet(wl, e, cellx):
    """the store `e` is reached only when no m in 0..ninlets-1 has idxinlets[m] == cell.  Two idioms:
    (A) a search loop that breaks on a match, then `m == ninlets`;  (B) a flag cleared before a search loop, set on a match, tested false"""
    benv = {"CELL": cellx}
    loops = [l for l in find_all(wl, lambda n: n.get("kind") == "ForStmt") if l is not wl and ceval.mentions(l, "idxinlets")]
    for l in loops:
        lr = cq.loop_range(l, ())
        if lr is None:
            continue
        m = lr["var"]
        match = f"idxinlets[{m}] == CELL"
        lce = cq.evaluate(body_stmts(lr["body"]))
        # idiom A
        brk = [r for r in lce.returns if r[0] == "BreakStmt" and cq.holds(r[1], match, True, benv)]
        if brk and cq.range_is(lr, "0", "ninlets-1") and not lr["extra"] and cq.holds(e.conds, f"{m} == ninlets", True):
            return True
        # idiom B: flag = 0 before; flag = (match) or `if(match) flag = 1`; loop may also stop on the flag; store guarded by flag == 0
        for env, conds, how in lce.finals:
            for name, v in env.items():
                if "[" in name or name == m:
                    continue
                setflag = cq.same_expr(v, ('cmp', '==', cq.parse(f"idxinlets[{m}]"), cellx)) or cq.same_cond(v, match, True, benv) or \
                    (cq.same_expr(v, "1") and cq.holds(conds, match, True, benv))
                if setflag and cq.same_expr(lr["lo"] if lr["lo"] is not None else num(-9), "0") and cq.same_expr(lr["hi"] if lr["hi"] is not None else num(-9), "ninlets-1") and \
                        all(cq.same_cond(x, f"{name} == 0", True) for x in lr["extra"]) and cq.holds(e.conds, f"{name} == 0", True) and \
                        _cleared_before(wl, l, name):
                    return True
    return False


def _cleared_before(wl, loop, name):
    """`name = 0` is the statement just before `loop` in its block (nothing in between writes it)"""
    res = False

    def rec(n):
        nonlocal res
        if n.get("kind") == "CompoundStmt":
            st = [x for x in n.get("inner", []) if x.get("kind")]
            for i, x in enumerate(st):
                if x is loop:
                    for y in reversed(st[:i]):
                        if y.get("kind") == "BinaryOperator" and y.get("opcode") == "=" and text(y["inner"][0]) == name:
                            res = cq.same_expr(y["inner"][1], "0")
                            return
                        if name in cnorm.writes(y)[0]:
                            return
        for c in n.get("inner", []):
            if isinstance(c, dict) and c.get("kind"):
                rec(c)
    rec(wl)
    return res


def _layer_counter(wl, wstm):
    """the variable that counts layers: stepped exactly once per iteration of the main loop, initialised before it"""
    parts = loop_parts(wl)
    cands = set()
    if parts[2].get("kind"):
        v = cnorm._step_of(parts[2])
        if v:
            cands.add(v)
    for s in wstm:
        v = cnorm._step_of(s) if s.get("kind") in ("UnaryOperator", "CompoundAssignOperator", "BinaryOperator") else None
        if v:
            cands.add(v)
    for v in sorted(cands):
        nsteps = len(cq.steps_of(wl, v))
        if nsteps == 1:
            return {"var": v, "first": "0"}
    return None


def _holds_count_zero(conds, ace):
    return False


def _excludes_empty(conds, ace):
    """the path passed the `next layer is empty -> return` test with a non-empty layer"""
    return cq.excluded(conds, "nbuffer2 == 0", True) or cq.holds(conds, "nbuffer2 > 0", True)


def _disj_has(conds, want):
    cn = Canon()
    w = cq.cond_atoms(want, True, None, cn)
    for c, t in conds:
        if not t:
            continue
        a = cq.cond_atoms(c, True, None, cn)
        parts = a[1] if isinstance(a, tuple) and a[0] == 'or' else [a]
        if any(w == p_ for p_ in parts):
            return True
    return False


def _assigned_call(node, name):
    return bool(find_all(node, lambda n: n.get("kind") == "CallExpr" and text(n["inner"][0]) == name))


def _filters_nonneg(f, outname):
    """the wrapper keeps the entries of the kernel output that are >= 0: on the evaluated paths some stored / returned value is
    `out[out >= 0]` (mask, np.flatnonzero / np.nonzero / np.where positions, np.compress, np.take all read as the same selection)"""
    if outname is None:
        return False
    def nonneg_mask(m, base):
        if not (isinstance(m, tuple) and m and m[0] == 'cmp'):
            return False
        op, a_, b_ = m[1], m[2], m[3]
        try:
            if a_ == base and ((op == '>=' and pq.same(b_, "0")) or (op == '>' and pq.same(b_, "-1"))):
                return True
            if b_ == base and ((op == '<=' and pq.same(a_, "0")) or (op == '<' and pq.same(a_, "-1"))):
                return True
        except Exception:
            return False
        return False
    try:
        paths = pq.PEval().run(f)
    except Exception:
        return False
    for p_ in paths:
        pool = [e.val for e in p_.effects if e.val is not None] + [v for v in p_.env.values() if isinstance(v, tuple)] + ([p_.value] if isinstance(p_.value, tuple) else [])
        for x in pq.find(('tuple', tuple(pool)), lambda y: pq.call_named(y, "getitem") and len(y[2]) == 2):
            if nonneg_mask(x[2][1], x[2][0]):
                return True
    return False
