"""C06 -- catchment delineation is upstream reachability on the flow grid (structural clauses)."""
import ast

from ..core import AnalysisError
from ..cfront import strip, text
from .. import ckern, xlayer, pyxread, ceval
from ..ceval import CEval, find_all, loop_parts, body_stmts, loop_var, stores_to
from ..formula import Canon, Ratio, Undecided, show, num
from ..pyfront import Mod, dotted, const_value

EXPLANATION = (
    "Upstream and downstream are inverse relations iff three tables agree: the ESRI code table (Python literal), the "
    "neighbour layout of c_neighbours (slot k = 1+ix+3(1+iy) holds cell (col+ix, row+iy)), and the pairing of codes "
    "with neighbours (downstream: code j with neighbour j; upstream: neighbour j against the mirrored code 8-j, with "
    "k(-ix,-iy) = 8-k(ix,iy) as a polynomial identity), all compared by equality.  The rule set checks these, the "
    "negative sentinels (-2 sink, -1 default stored on every path, -1 off-grid and unused upstream slots, -1 "
    "initialised outputs filtered with >= 0), that the area store is dominated by the not-an-inlet test, that the "
    "outlet is appended once and only after something drained to it, that every walk is capped with an error code "
    "the wrapper raises, and that the two step-length sites of the flow-path kernel agree (1 for steps of 1 or ncols "
    "cells, sqrt(2) otherwise) and the river trace decomposes cells with % ncols and / ncols.  That the breadth-first "
    "expansion visits exactly the reachable set is not computed; hole filling is scipy's.")

ESRI = {(0, 0): 32, (0, 1): 64, (0, 2): 128, (1, 0): 16, (1, 1): 0, (1, 2): 1, (2, 0): 8, (2, 1): 4, (2, 2): 2}


def downstream_sentinels(K):
    """(default -1 stored unconditionally before the look-up, sink flagged -2) for c_downstream"""
    dn = K["fns"]["c_downstream"]
    dl = find_all(dn["body"], lambda n: n.get("kind") == "ForStmt")
    dmain = dl[0]
    div = loop_var(dmain)
    dstm = body_stmts(loop_parts(dmain)[3])
    look = [l for l in dl[1:] if stores_to(l, "idxdown")]
    top_stores = [k_ for k_, s in enumerate(dstm) if s.get("kind") == "BinaryOperator" and s.get("opcode") == "=" and text(s["inner"][0]).replace(" ", "") == f"idxdown[{div}]"]
    okd = bool(top_stores) and text(dstm[top_stores[0]]["inner"][1]).replace(" ", "") in ("-1",) and (not look or top_stores[0] < dstm.index(look[0]))
    sink = [s for s in dstm if s.get("kind") == "IfStmt" and text(s["inner"][0]).replace(" ", "").strip("()") in ("fd==0", "0==fd")]
    oks = False
    if sink:
        st = stores_to(sink[0], "idxdown")
        oks = len(st) == 1 and text(st[0]["inner"][1]).replace(" ", "") == "-2" and bool(find_all(sink[0], lambda n: n.get("kind") == "ContinueStmt"))
    return okd, oks, dmain.get("_line")


def run(rep):
    rep.rule("R06.a", "direction tables: ESRI codes on the 3x3 layout, neighbour slot formula, code/neighbour pairing (j vs j downstream, j vs 8-j upstream) by equality")
    rep.rule("R06.b", "sentinels: -2 sink, -1 default stored on every path, -1 off-grid / unused slots, -1 initialised outputs filtered with >= 0")
    rep.rule("R06.c", "area store dominated by the not-an-inlet test; outlet appended once, after something drained to it")
    rep.rule("R06.d", "every walk capped (counter against the buffer size) with an error code the wrapper raises; capacity = caller's nval")
    rep.rule("R06.e", "step length 1 for steps of 1 or ncols cells else sqrt(2), same at both sites; river dx,dy from % ncols and / ncols")
    K = ckern.analyze(rep.repo)
    fns = K["fns"]
    for need in ("c_neighbours", "c_downstream", "c_upstream", "c_delineate_area", "c_delineate_river", "c_delineate_flowpathlengths_in_catchment", "getnxy"):
        if need not in fns:
            raise AnalysisError(f"gis kernels: {need} not found")
    gfile, cfile = fns["c_neighbours"]["file"], fns["c_delineate_area"]["file"]
    mod = Mod(rep.repo, "gis/grid.py")
    rep.unit(f"{gfile}: c_neighbours, c_downstream, c_upstream; {cfile}: c_delineate_area, c_delineate_river, c_delineate_flowpathlengths_in_catchment; gis/grid.py")

    # ---------------- R06.a tables ----------------------------------------------------------------------------------------
    fdc = [n for n in mod.tree.body if isinstance(n, ast.Assign) and isinstance(n.targets[0], ast.Name) and n.targets[0].id == "FLOWDIRCODE"]
    if not fdc:
        raise AnalysisError("gis/grid.py: FLOWDIRCODE not found")
    lit = [n for n in ast.walk(fdc[0].value) if isinstance(n, ast.List) and n.elts and isinstance(n.elts[0], ast.List)]
    table = {}
    if lit:
        for r, row in enumerate(lit[0].elts):
            for c, x in enumerate(row.elts):
                table[(r, c)] = const_value(x)
    rep.check(table == ESRI, "R06.a", "gis/grid.py", "FLOWDIRCODE", "ESRI direction codes on the 3x3 layout (NW=32 N=64 NE=128 / W=16 0 E=1 / SW=8 S=4 SE=2)",
              f"found {table}", line=fdc[0].lineno)
    nb = fns["c_neighbours"]
    loops = find_all(nb["body"], lambda n: n.get("kind") == "ForStmt")
    if len(loops) != 2:
        raise AnalysisError(f"{gfile}: c_neighbours loops not found")
    outer_v, inner_v = loop_var(loops[0]), loop_var(loops[1])
    rng = [(text(loop_parts(l)[0]).replace(" ", ""), text(loop_parts(l)[1]).replace(" ", "")) for l in loops]
    okr = all(i.endswith("=-1") and c.endswith("<2") for i, c in rng)
    rep.check(okr, "R06.a", gfile, "c_neighbours", "offsets ix, iy range over -1..1", str(rng), line=loops[0].get("_line"))
    istm = body_stmts(loop_parts(loops[1])[3])
    cn = Canon()
    for centre, inside in ((True, None), (False, True), (False, False)):
        def oracle(c, centre=centre, inside=inside):
            s_ = show(c)
            if c[0] in ('and', 'or'):
                from .c03 import _bool
                return _bool(c, oracle)
            if c[0] == 'cmp':
                a, b = show(c[2]), show(c[3])
                if a in (outer_v, inner_v) and b == "0" and c[1] == "==":
                    return centre
                # range tests on nx / ny
                return (not inside) if inside is not None else None
            return None
        ce = CEval(oracle, {"nxy": lambda idx: ('sym', 'NX0') if idx == num(0) else ('sym', 'NY0')})
        env = {"nx0": ('sym', 'NX0'), "ny0": ('sym', 'NY0')}
        try:
            ce._walk(istm, env, [])
        except Undecided as ex:
            rep.undecided("R06.a", gfile, "c_neighbours", "slot store", str(ex), line=loops[1].get("_line"))
            continue
        st = [e for e in ce.effects if e.arr == "neighbours"]
        wantk = cn.ratio(('add', ('add', num(1), ('sym', inner_v)), ('mul', num(3), ('add', num(1), ('sym', outer_v)))))
        okk = len(st) == 1 and cn.ratio(st[0].idx) == wantk
        if centre:
            rep.check(okk and st[0].val == ('neg', num(1)) or okk and cn.ratio(st[0].val) == Ratio.const(-1), "R06.b", gfile, "c_neighbours", "centre slot holds -1", "", line=loops[1].get("_line"))
        elif inside:
            # which loop variable is the column offset: the one added to nx0
            want = cn.ratio(('add', ('mul', ('add', ('sym', 'NY0'), ('sym', outer_v)), ('sym', 'ncols')), ('add', ('sym', 'NX0'), ('sym', inner_v))))
            rep.check(okk and cn.ratio(st[0].val) == want, "R06.a", gfile, "c_neighbours",
                      "slot k = 1+ix+3(1+iy) holds cell (row+iy)*ncols + (col+ix): rows of the layout are grid rows, columns are grid columns",
                      f"slot {show(st[0].idx) if st else None} holds {show(st[0].val) if st else None}", line=loops[1].get("_line"))
        else:
            rep.check(okk and cn.ratio(st[0].val) == Ratio.const(-1), "R06.b", gfile, "c_neighbours", "off-grid neighbours are -1", "", line=loops[1].get("_line"))
    # off-grid test covers the four sides
    rt = [s for s in find_all(loops[1], lambda n: n.get("kind") == "IfStmt") if "ncols" in text(s["inner"][0]) and "nrows" in text(s["inner"][0])]
    okrt = False
    if rt:
        t = text(rt[0]["inner"][0]).replace(" ", "")
        okrt = all(x in t for x in ("nx<0", "ny<0")) and any(x in t for x in ("nx>ncols-1", "nx>=ncols")) and any(x in t for x in ("ny>nrows-1", "ny>=nrows"))
    rep.check(okrt, "R06.b", gfile, "c_neighbours", "off-grid test: nx < 0, nx > ncols-1, ny < 0, ny > nrows-1", text(rt[0]["inner"][0]) if rt else "", line=nb["line"])
    # mirror identity
    k = lambda ix, iy: 1 + ix + 3 * (1 + iy)
    rep.check(all(k(-ix, -iy) == 8 - k(ix, iy) for ix in (-1, 0, 1) for iy in (-1, 0, 1)), "R06.a", gfile, "c_neighbours", "k(-ix,-iy) = 8 - k(ix,iy): slot 8-j is the opposite direction of slot j", "")

    # downstream pairing
    dn = fns["c_downstream"]
    dl = [l for l in find_all(dn["body"], lambda n: n.get("kind") == "ForStmt")]
    dmain = dl[0]
    div = loop_var(dmain)
    dstm = body_stmts(loop_parts(dmain)[3])
    look = [l for l in dl[1:] if stores_to(l, "idxdown")]
    okp = False
    det = "lookup loop not found"
    if look:
        jv = loop_var(look[0])
        ifs = find_all(look[0], lambda n: n.get("kind") == "IfStmt")
        if ifs:
            c = strip(ifs[0]["inner"][0])
            det = text(c)
            st = stores_to(ifs[0], "idxdown")
            okp = c.get("kind") == "BinaryOperator" and c.get("opcode") == "==" and \
                {text(c["inner"][0]).replace(" ", ""), text(c["inner"][1]).replace(" ", "")} == {"fd", f"flowdircode[{jv}]"} and \
                len(st) == 1 and text(st[0]["inner"][1]).replace(" ", "") == f"neighbours[{jv}]" and text(st[0]["inner"][0]).replace(" ", "") == f"idxdown[{div}]"
            rng = (text(loop_parts(look[0])[0]).replace(" ", ""), text(loop_parts(look[0])[1]).replace(" ", ""))
            okp = okp and rng == (f"{jv}=0", f"{jv}<9")
    rep.check(okp, "R06.a", gfile, "c_downstream", "downstream: code table entry j selects neighbour j (equality of codes, all 9 slots)", det, line=dmain.get("_line"))
    fdd = [s for s in dstm if s.get("kind") == "BinaryOperator" and text(s["inner"][0]) == "fd"]
    rep.check(bool(fdd) and text(fdd[0]["inner"][1]).replace(" ", "") == "flowdir[idxcell]", "R06.a", gfile, "c_downstream", "fd = flow code of the cell itself", "", line=dmain.get("_line"))
    # sentinels of downstream: unconditional default store before the lookup, -2 on fd == 0
    top_stores = [k_ for k_, s in enumerate(dstm) if s.get("kind") == "BinaryOperator" and s.get("opcode") == "=" and text(s["inner"][0]).replace(" ", "") == f"idxdown[{div}]"]
    okd = bool(top_stores) and text(dstm[top_stores[0]]["inner"][1]).replace(" ", "") in ("-1",) and (not look or top_stores[0] < dstm.index(look[0]))
    rep.check(okd, "R06.b", gfile, "c_downstream", "idxdown[i] = -1 stored unconditionally before the code look-up (unknown codes drain nowhere)",
              "without the default an unknown code keeps a stale cell number: walks loop or jump to an unrelated cell", line=dmain.get("_line"))
    sink = [s for s in dstm if s.get("kind") == "IfStmt" and text(s["inner"][0]).replace(" ", "").strip("()") in ("fd==0", "0==fd")]
    oks = False
    if sink:
        st = stores_to(sink[0], "idxdown")
        oks = len(st) == 1 and text(st[0]["inner"][1]).replace(" ", "") == "-2" and bool(find_all(sink[0], lambda n: n.get("kind") == "ContinueStmt"))
    rep.check(oks, "R06.b", gfile, "c_downstream", "sinks (code 0) are flagged -2", "", line=dmain.get("_line"))
    # upstream pairing
    up = fns["c_upstream"]
    ul = find_all(up["body"], lambda n: n.get("kind") == "ForStmt")
    umain = ul[0]
    uiv = loop_var(umain)
    scan = [l for l in ul[1:] if find_all(l, lambda n: n.get("kind") == "IfStmt")]
    fill = [l for l in ul[1:] if l not in scan]
    okup, det = False, "scan loop not found"
    if scan:
        jv = loop_var(scan[0])
        ifs = find_all(scan[0], lambda n: n.get("kind") == "IfStmt" and stores_to(n, "idxup"))
        if ifs:
            c = strip(ifs[0]["inner"][0])
            while c.get("kind") == "ParenExpr":
                c = strip(c["inner"][0])
            det = text(c)
            sides = {text(c["inner"][0]).replace(" ", ""), text(c["inner"][1]).replace(" ", "")} if c.get("kind") == "BinaryOperator" else set()
            st = stores_to(ifs[0], "idxup")
            okup = c.get("kind") == "BinaryOperator" and c.get("opcode") == "==" and sides == {"fd", f"flowdircode[8-{jv}]"} and \
                len(st) == 1 and text(st[0]["inner"][1]).replace(" ", "") == "idxneighb" and text(st[0]["inner"][0]).replace(" ", "") == f"idxup[9*{uiv}+k]"
        fdn = [s for s in body_stmts(loop_parts(scan[0])[3]) if s.get("kind") == "BinaryOperator" and text(s["inner"][0]) == "fd"]
        okup = okup and bool(fdn) and text(fdn[0]["inner"][1]).replace(" ", "") == "flowdir[idxneighb]"
        nbd = [s for s in body_stmts(loop_parts(scan[0])[3]) if s.get("kind") == "BinaryOperator" and text(s["inner"][0]) == "idxneighb"]
        okup = okup and bool(nbd) and text(nbd[0]["inner"][1]).replace(" ", "") == f"neighbours[{jv}]"
    rep.check(okup, "R06.a", gfile, "c_upstream", "upstream: neighbour j drains into the cell iff its code equals the mirrored table entry 8-j (equality)",
              f"test `{det}`", line=umain.get("_line"))
    okf = False
    if fill:
        jv = loop_var(fill[0])
        st = stores_to(fill[0], "idxup")
        okf = text(loop_parts(fill[0])[0]).replace(" ", "") == f"{jv}=k" and text(loop_parts(fill[0])[1]).replace(" ", "") == f"{jv}<9" and \
            len(st) == 1 and text(st[0]["inner"][1]).replace(" ", "") == "-1"
    rep.check(okf, "R06.b", gfile, "c_upstream", "unused upstream slots are -1", "", line=umain.get("_line"))
    skip_sink = any(s.get("kind") == "IfStmt" and text(s["inner"][0]).replace(" ", "").strip("()") in ("fd==0",) and find_all(s, lambda n: n.get("kind") == "ContinueStmt")
                    for s in (body_stmts(loop_parts(scan[0])[3]) if scan else []))
    skip_off = any(s.get("kind") == "IfStmt" and text(s["inner"][0]).replace(" ", "").strip("()") in ("idxneighb==-1", "idxneighb<0") and find_all(s, lambda n: n.get("kind") == "ContinueStmt")
                   for s in (body_stmts(loop_parts(scan[0])[3]) if scan else []))
    rep.check(skip_sink and skip_off, "R06.b", gfile, "c_upstream", "off-grid neighbours and sinks are skipped before the code test", "", line=umain.get("_line"))

    # ---------------- R06.c / R06.d delineate_area ----------------------------------------------------------------------------------
    da = fns["c_delineate_area"]
    wl = find_all(da["body"], lambda n: n.get("kind") == "WhileStmt")
    if len(wl) != 1:
        raise AnalysisError(f"{cfile}: c_delineate_area main loop not found")
    wl = wl[0]
    stores = stores_to(wl, "idxcells_area")
    inlet_if = [s for s in find_all(wl, lambda n: n.get("kind") == "IfStmt") if text(s["inner"][0]).replace(" ", "").strip("()") in ("m==ninlets", "ninlets==m")]
    okin = False
    if inlet_if:
        inside = stores_to(inlet_if[0], "idxcells_area") + stores_to(inlet_if[0], "buffer2")
        okin = len(stores_to(inlet_if[0], "idxcells_area")) == 1 and len(stores_to(inlet_if[0], "buffer2")) == 1
        # the inlet search loop breaks on a match, so m == ninlets means "no inlet matched"
        srch = [l for l in find_all(wl, lambda n: n.get("kind") == "ForStmt") if loop_var(l) == "m" and find_all(l, lambda n: n.get("kind") == "BreakStmt")]
        okin = okin and bool(srch) and "idxinlets[m]==idx" in text(find_all(srch[0], lambda n: n.get("kind") == "IfStmt")[0]["inner"][0]).replace(" ", "")
    rep.check(okin, "R06.c", cfile, "c_delineate_area", "upstream cells are stored (area and next layer) only when they match no inlet", "", line=wl.get("_line"))
    out_if = [s for s in body_stmts(loop_parts(wl)[3]) if s.get("kind") == "IfStmt" and text(s["inner"][0]).replace(" ", "").strip("()") in ("nlayer==0",)]
    empty_ret = [k_ for k_, s in enumerate(body_stmts(loop_parts(wl)[3])) if s.get("kind") == "IfStmt" and text(s["inner"][0]).replace(" ", "").strip("()") == "nbuffer2==0"
                 and find_all(s, lambda n: n.get("kind") == "ReturnStmt")]
    okout = False
    if out_if and empty_ret:
        st = stores_to(out_if[0], "idxcells_area")
        okout = len(st) == 1 and text(st[0]["inner"][1]).replace(" ", "") == "idxoutlet" and \
            empty_ret[0] < body_stmts(loop_parts(wl)[3]).index(out_if[0]) and len([s for s in stores if text(s["inner"][1]).replace(" ", "") == "idxoutlet"]) == 1
    rep.check(okout, "R06.c", cfile, "c_delineate_area", "outlet appended exactly once (first layer) and only after something drained to it", "", line=wl.get("_line"))
    inc = find_all(wl, lambda n: n.get("kind") == "UnaryOperator" and n.get("opcode") == "++" and text(n["inner"][0]) == "nlayer")
    rep.check(len(inc) == 1, "R06.c", cfile, "c_delineate_area", "layer counter advances once per layer (outlet not appended again)", "", line=wl.get("_line"))
    caps = [text(s["inner"][0]).replace(" ", "").strip("()") for s in find_all(wl, lambda n: n.get("kind") == "IfStmt" and find_all(n, lambda m_: m_.get("kind") == "ReturnStmt"))]
    rep.check(caps.count("i==nval-1") >= 2 and "nbuffer2==nval-1" in caps, "R06.d", cfile, "c_delineate_area",
              "buffer exhaustion returns an error before every store (i == nval-1, nbuffer2 == nval-1)", str(caps), line=wl.get("_line"))
    swap = [l for l in body_stmts(loop_parts(wl)[3]) if l.get("kind") == "ForStmt" and stores_to(l, "buffer1")]
    rep.check(bool(swap) and text(stores_to(swap[0], "buffer1")[0]["inner"][1]).replace(" ", "") == "buffer2[l]", "R06.c", cfile, "c_delineate_area",
              "next layer = cells found upstream of the current layer (buffer swap)", "", line=wl.get("_line"))
    upcall = find_all(wl, lambda n: n.get("kind") == "CallExpr" and text(n["inner"][0]) == "c_upstream")
    rep.check(len(upcall) == 1, "R06.c", cfile, "c_delineate_area", "expansion through c_upstream of each cell of the current layer", "", line=wl.get("_line"))

    # ---------------- wrappers --------------------------------------------------------------------------------------------------------------
    P = pyxread.load_all(rep.repo)
    shims = {cm: {sh.name: sh for sh in d["shims"]} for cm, d in P.items()}
    sites, _ = xlayer.find_sites(rep.repo, shims)
    by = {}
    for s in sites:
        by.setdefault(s.shim.name, []).append(s)
    for shim in ("delineate_area", "delineate_boundary", "delineate_river", "delineate_flowpathlengths_in_catchment", "upstream", "downstream"):
        for s in by.get(shim, []):
            ok, how, _ = xlayer.error_discipline(s)
            rep.check(ok, "R06.d", "gis/grid.py", s.func.name, f"{shim}: kernel error code raises", how, line=s.call.lineno)
    rep.floor("delineation call sites", sum(len(by.get(x, [])) for x in ("delineate_area", "delineate_river", "delineate_flowpathlengths_in_catchment", "upstream", "downstream")), 5)
    s = by.get("delineate_area", [None])[0]
    if s is None:
        raise AnalysisError("gis/grid.py: delineate_area call site not found")
    for pn in ("idxcells_area", "buffer1", "buffer2"):
        v = s.args.get(pn)
        rep.check(v is not None and v[1].init == ("const", -1) and v[1].fresh, "R06.b", "gis/grid.py", "delineate_area", f"`{pn}` initialised to -1", f"init {v[1].init if v else None}", line=s.call.lineno)
    f = s.func
    flt = [n for n in ast.walk(f) if isinstance(n, ast.Assign) and isinstance(n.targets[0], ast.Name) and n.targets[0].id == "idx" and isinstance(n.value, ast.Compare)]
    rep.check(bool(flt) and ast.unparse(flt[0].value).replace(" ", "") == "idxcells>=0", "R06.b", "gis/grid.py", "delineate_area", "area = cells with a non-negative number (the -1 filling is dropped)", "", line=f.lineno)
    reassigned = [n for n in ast.walk(f) if isinstance(n, (ast.Assign, ast.AugAssign)) and any(isinstance(t, ast.Name) and t.id == "nval" for t in (n.targets if isinstance(n, ast.Assign) else [n.target]))]
    rep.check(not reassigned, "R06.d", "gis/grid.py", "delineate_area", "buffer capacity is the caller's nval (the kernel needs one spare slot: it is never clipped to the grid size)",
              f"nval reassigned at line {reassigned[0].lineno}" if reassigned else "", line=f.lineno)
    rep.check(ast.unparse(s.args["flowdircode"][0]) == "FLOWDIRCODE" if "flowdircode" in s.args else False, "R06.a", "gis/grid.py", "delineate_area", "kernel receives the FLOWDIRCODE table", "", line=s.call.lineno)
    for shim in ("upstream", "downstream", "delineate_river", "delineate_flowpathlengths_in_catchment"):
        for s2 in by.get(shim, []):
            rep.check("flowdircode" in s2.args and ast.unparse(s2.args["flowdircode"][0]) == "FLOWDIRCODE", "R06.a", "gis/grid.py", s2.func.name, f"{shim}: kernel receives the FLOWDIRCODE table", "", line=s2.call.lineno)

    # ---------------- R06.e step lengths -------------------------------------------------------------------------------------------------------------
    fp = fns["c_delineate_flowpathlengths_in_catchment"]
    sq = [s for s in find_all(fp["body"], lambda n: n.get("kind") == "BinaryOperator" and n.get("opcode") == "=" and text(n["inner"][0]) == "squaredist")]
    forms = [text(s["inner"][1]).replace(" ", "") for s in sq]
    okq = len(forms) == 2 and forms[0] == forms[1] and forms[0] in ("diff==1||diff==ncols?1:2", "(diff==1||diff==ncols)?1:2", "diff==ncols||diff==1?1:2")
    rep.check(okq, "R06.e", cfile, "c_delineate_flowpathlengths_in_catchment", "both step-length sites: squared length 1 for a step of 1 or ncols cells, else 2", str(forms), line=fp["line"])
    df = [text(s["inner"][1]).replace(" ", "") for s in find_all(fp["body"], lambda n: n.get("kind") == "BinaryOperator" and n.get("opcode") == "=" and text(n["inner"][0]) == "diff")]
    rep.check(len(df) == 2 and df[0] == df[1] and df[0] in ("abs(*idxcell_down-*idxcell_up)", "llabs(*idxcell_down-*idxcell_up)", "abs(*idxcell_up-*idxcell_down)"), "R06.e", cfile,
              "c_delineate_flowpathlengths_in_catchment", "step = |downstream cell - current cell| at both sites", str(df), line=fp["line"])
    ln = [text(s["inner"][1]).replace(" ", "") for s in find_all(fp["body"], lambda n: n.get("kind") == "CompoundAssignOperator" and text(n["inner"][0]) == "length")]
    rep.check(len(ln) == 2 and all(x == "sqrt(squaredist)" for x in ln), "R06.e", cfile, "c_delineate_flowpathlengths_in_catchment", "length += sqrt(squared step) at both sites", str(ln), line=fp["line"])
    wl2 = find_all(fp["body"], lambda n: n.get("kind") == "WhileStmt")
    okw = len(wl2) == 1 and text(loop_parts(wl2[0])[1]).replace(" ", "") == "ipath<nval" and \
        bool(find_all(wl2[0], lambda n: n.get("kind") == "UnaryOperator" and n.get("opcode") == "++" and text(n["inner"][0]) == "ipath"))
    rep.check(okw, "R06.d", cfile, "c_delineate_flowpathlengths_in_catchment", "downstream walk capped by the number of area cells", "", line=fp["line"])
    stops = [text(s["inner"][0]).replace(" ", "") for s in find_all(wl2[0], lambda n: n.get("kind") == "IfStmt" and find_all(n, lambda m_: m_.get("kind") == "BreakStmt"))] if wl2 else []
    rep.check(any("*idxcell_down<0" in x for x in stops) and any("*idxcell_down==idxcell_outlet" in x for x in stops), "R06.e", cfile, "c_delineate_flowpathlengths_in_catchment",
              "walk stops when it leaves the grid / reaches a sink, or at the outlet", str(stops), line=fp["line"])
    rv = fns["c_delineate_river"]
    asg = {text(s["inner"][0]): text(s["inner"][1]).replace(" ", "") for s in find_all(rv["body"], lambda n: n.get("kind") == "BinaryOperator" and n.get("opcode") == "=")}
    okrv = asg.get("nx1") == "idxupstream%ncols" and asg.get("ny1") == "(idxupstream-nx1)/ncols" and asg.get("nx2") == "idxdown[0]%ncols" and \
        asg.get("ny2") == "(idxdown[0]-nx2)/ncols" and asg.get("dx") == "(double)(nx1-nx2)" and asg.get("dy") == "(double)(ny1-ny2)"
    rep.check(okrv, "R06.e", cfile, "c_delineate_river", "dx, dy = column / row differences from idx % ncols and (idx - col) / ncols",
              str({k_: asg.get(k_) for k_ in ("nx1", "ny1", "nx2", "ny2", "dx", "dy")}), line=rv["line"])
    ds = [text(s["inner"][1]).replace(" ", "") for s in find_all(rv["body"], lambda n: n.get("kind") == "CompoundAssignOperator" and text(n["inner"][0]) == "dist")]
    rep.check(ds == ["sqrt(dx*dx+dy*dy)"], "R06.e", cfile, "c_delineate_river", "distance accumulates sqrt(dx^2 + dy^2): 1 per orthogonal step, sqrt(2) per diagonal step", str(ds), line=rv["line"])
    nxt = asg.get("idxupstream")
    rep.check(nxt == "idxdown[0]", "R06.e", cfile, "c_delineate_river", "river trace follows the downstream chain (idxupstream = idxdown[0])", str(nxt), line=rv["line"])
    # getnxy
    g = fns["getnxy"]
    ga = {text(s["inner"][0]).replace(" ", ""): text(s["inner"][1]).replace(" ", "") for s in find_all(g["body"], lambda n: n.get("kind") == "BinaryOperator" and n.get("opcode") == "=")}
    rep.check(ga.get("nxy[0]") == "idxcell%ncols" and ga.get("nxy[1]") == "(idxcell-nxy[0])/ncols", "R06.a", gfile, "getnxy", "column = idx mod ncols, row = idx div ncols", str(ga), line=g["line"])
    return EXPLANATION
