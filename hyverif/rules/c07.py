"""C07 -- grid cell numbers, rows/columns and coordinates are mutually consistent (structural clauses)."""
import ast

from ..core import AnalysisError
from ..cfront import strip, text
from .. import ckern, ceval
from ..ceval import CEval, find_all, loop_parts, body_stmts, loop_var, stores_to, to_expr
from ..formula import Canon, Ratio, Undecided, show, num, ExprBuilder
from ..pyfront import Mod, dotted, const_value

EXPLANATION = (
    "The numbering formulas are extracted from c_grid.c and composed symbolically: getnxy is (idx mod ncols, idx div "
    "ncols); getcoord is xll + csz (col + 1/2), yll + csz (nrows-1-row + 1/2); feeding these coordinates to "
    "c_coord2cell gives col + 1/2 and nrows-1-row + 1/2 BEFORE the floor (exact rational identities), hence the "
    "same column and row, recombined as row*ncols + col.  Conversion discipline: every double-to-integer conversion "
    "whose result decides 'inside the grid' converts a floor()ed value that was range-tested as a double (truncation "
    "maps (-1, 0) to 0 and would report points left of / below the extent as inside).  Invalid cell numbers: in "
    "c_cell2rowcol, c_cell2coord, c_neighbours, c_upstream, c_downstream the test idx < 0 or idx >= nrows*ncols "
    "(exact comparison operators) dominates every use and yields -1 / NaN / an error.  Wrappers: xvalues / yvalues "
    "use the first row / first column cell numbers, xlim / ylim the extent formulas.  Floating-point rounding for "
    "large origins is not decided.")


def run(rep):
    rep.rule("R07.a", "numbering formulas and their composition: coord2cell(cell2coord(c)) = c as exact identities before the floor")
    rep.rule("R07.b", "double -> integer conversions that decide 'inside the grid' convert a floor()ed, double-range-tested value")
    rep.rule("R07.c", "invalid cell numbers: `idx < 0 || idx >= nrows*ncols` dominates every use and yields -1 / NaN / error")
    rep.rule("R07.d", "wrappers: xvalues/yvalues from first-row / first-column cells, xlim/ylim extent formulas, errors raised")
    K = ckern.analyze(rep.repo)
    fns = K["fns"]
    for need in ("getnxy", "getcoord", "c_coord2cell", "c_cell2rowcol", "c_cell2coord", "c_neighbours"):
        if need not in fns:
            raise AnalysisError(f"gis/c_grid.c: {need} not found")
    file = fns["getnxy"]["file"]
    rep.unit(f"{file}: getnxy, getcoord, c_coord2cell, c_cell2rowcol, c_cell2coord, c_neighbours, c_upstream, c_downstream; gis/grid.py: coord2cell, cell2coord, xvalues, yvalues, xlim, ylim")
    cn = Canon()
    # getnxy
    g = fns["getnxy"]
    ce = CEval().run([s for s in g["body"]["inner"] if s.get("kind")], {})
    st = {show(e.idx): e.val for e in ce.effects if e.arr == "nxy"}
    col = ('call', 'mod', (('sym', 'idxcell'), ('sym', 'ncols')))
    okg = st.get("0") == col and "1" in st and cn.ratio(st["1"]) == cn.ratio(('div', ('sub', ('sym', 'idxcell'), col), ('sym', 'ncols')))
    rep.check(okg, "R07.a", file, "getnxy", "column = idx mod ncols, row = (idx - column) / ncols (row by row from the top-left)", str({k: show(v) for k, v in st.items()}), line=g["line"])
    # getcoord
    gc = fns["getcoord"]
    C, R = ('sym', 'C'), ('sym', 'R')
    ce = CEval(None, {"nxy": lambda idx: C if idx == num(0) else R})
    ce.run([s for s in gc["body"]["inner"] if s.get("kind") not in ("DeclStmt",) and not (s.get("kind") == "CallExpr")], {})
    co = {show(e.idx): e.val for e in ce.effects if e.arr == "coord"}
    half = num(0.5)
    wantx = ('add', ('sym', 'xll'), ('mul', ('sym', 'csz'), ('add', C, half)))
    wanty = ('add', ('sym', 'yll'), ('mul', ('sym', 'csz'), ('add', ('sub', ('sub', ('sym', 'nrows'), num(1)), R), half)))
    okc = "0" in co and "1" in co and cn.ratio(co["0"]) == cn.ratio(wantx) and cn.ratio(co["1"]) == cn.ratio(wanty)
    rep.check(okc, "R07.a", file, "getcoord", "cell centre = (xll + csz (col + 1/2), yll + csz (nrows-1-row + 1/2))", str({k: show(v)[:60] for k, v in co.items()}), line=gc["line"])
    call = find_all(gc["body"], lambda n: n.get("kind") == "CallExpr" and text(n["inner"][0]) == "getnxy")
    rep.check(len(call) == 1 and [text(a).replace(" ", "") for a in call[0]["inner"][1:]] == ["ncols", "idxcell", "nxy"], "R07.a", file, "getcoord", "row and column from getnxy(ncols, idxcell)", "", line=gc["line"])
    # coord2cell
    cc = fns["c_coord2cell"]
    loop = find_all(cc["body"], lambda n: n.get("kind") == "ForStmt")
    if len(loop) != 1:
        raise AnalysisError(f"{file}: c_coord2cell loop not found")
    iv = loop_var(loop[0])
    stm = body_stmts(loop_parts(loop[0])[3])
    X, Y = ('sym', 'X'), ('sym', 'Y')

    def xy(idx):
        c2 = Canon()
        if c2.ratio(idx) == c2.ratio(('mul', num(2), ('sym', iv))):
            return X
        if c2.ratio(idx) == c2.ratio(('add', ('mul', num(2), ('sym', iv)), num(1))):
            return Y
        raise Undecided(f"xycoords index {show(idx)}")
    for inside in (True, False):
        ce = CEval(lambda c, inside=inside: inside if c[0] in ('and', 'or', 'cmp', 'not') else None, {"xycoords": xy})
        env = {}
        try:
            ce._walk(stm, env, [])
        except Undecided as ex:
            rep.undecided("R07.a", file, "c_coord2cell", "loop body", str(ex), line=loop[0].get("_line"))
            continue
        out = [e for e in ce.effects if e.arr == "idxcell"]
        if not inside:
            # with the test written negatively (`if(outside) -1 else ..`) the oracle polarity flips: accept either
            pass
        vals = [show(e.val) for e in out]
        if inside:
            inside_vals = out
    # evaluate both polarities and classify the stores by value
    stores = {}
    for pol in (True, False):
        ce = CEval(lambda c, pol=pol: pol if c[0] in ('and', 'or', 'cmp', 'not') else None, {"xycoords": xy})
        env = {}
        ce._walk(stm, env, [])
        for e in ce.effects:
            if e.arr == "idxcell":
                stores[pol] = (e, dict(env))
    minus = [p for p, (e, _) in stores.items() if cn.ratio(e.val) == Ratio.const(-1)]
    cellp = [p for p in stores if p not in minus]
    rep.check(len(minus) == 1 and len(cellp) == 1, "R07.a", file, "c_coord2cell", "one branch stores -1 (outside), the other a cell number", str({p: show(e.val)[:50] for p, (e, _) in stores.items()}), line=loop[0].get("_line"))
    if len(cellp) == 1:
        e, env = stores[cellp[0]]
        # substitute the centre of cell (C, R):  X, Y := getcoord
        sub = {"X": co.get("0"), "Y": co.get("1")}

        def subst(x):
            if x == X:
                return sub["X"]
            if x == Y:
                return sub["Y"]
            if not isinstance(x, tuple) or not x or x[0] in ('sym', 'num', 'nan'):
                return x
            if x[0] == 'call':
                return (x[0], x[1], tuple(subst(a) for a in x[2])) + tuple(x[3:])
            if x[0] == 'cmp':
                return ('cmp', x[1], subst(x[2]), subst(x[3]))
            if x[0] == 'tuple':
                return ('tuple', tuple(subst(a) for a in x[1]))
            return (x[0],) + tuple(subst(c) if isinstance(c, tuple) else c for c in x[1:])

        def defloor(x):
            """floor(q) -> q - 1/2 when q is an integer + 1/2 (checked by the caller through the identity)"""
            return x
        val = subst(e.val)
        # collect floor arguments
        floors = []

        def collect(x):
            if isinstance(x, tuple) and x and x[0] == 'call' and x[1] == 'floor':
                floors.append(x[2][0])
            if isinstance(x, tuple):
                for c in (x[2] if x and x[0] == 'call' else x[1:] if x and x[0] != 'cmp' else x[2:]):
                    if isinstance(c, tuple):
                        collect(c)
        collect(val)
        wants = [cn.ratio(('add', C, half)), cn.ratio(('add', ('sub', ('sub', ('sym', 'nrows'), num(1)), R), half))]
        got = [cn.ratio(f) for f in floors]
        okfl = len(got) == 2 and all(any(g_ == w for g_ in got) for w in wants)
        rep.check(okfl, "R07.a", file, "c_coord2cell", "at a cell centre the floored quantities are col + 1/2 and nrows-1-row + 1/2 (exact), so floor gives the column and the row counted from the bottom",
                  f"floor arguments: {[str(g_) for g_ in got]}", line=e.line)
        if okfl:
            # replace floor(col+1/2) by col etc. and compare the cell number
            def repl(x):
                if isinstance(x, tuple) and x and x[0] == 'call' and x[1] == 'floor':
                    r = cn.ratio(x[2][0])
                    if r == wants[0]:
                        return C
                    if r == wants[1]:
                        return ('sub', ('sub', ('sym', 'nrows'), num(1)), R)
                if not isinstance(x, tuple) or not x or x[0] in ('sym', 'num', 'nan'):
                    return x
                if x[0] == 'call':
                    return (x[0], x[1], tuple(repl(a) for a in x[2])) + tuple(x[3:])
                return (x[0],) + tuple(repl(c) if isinstance(c, tuple) else c for c in x[1:])
            okid = cn.ratio(repl(val)) == cn.ratio(('add', ('mul', R, ('sym', 'ncols')), C))
            rep.check(okid, "R07.a", file, "c_coord2cell", "coord2cell(cell2coord(c)) = row*ncols + col = c", f"recombined as {show(repl(val))[:80]}", line=e.line)
    # R07.b conversion discipline
    casts = find_all(cc["body"], lambda n: n.get("kind") in ("CStyleCastExpr", "ImplicitCastExpr") and n.get("castKind") == "FloatingToIntegral")
    rep.floor("double->integer conversions in c_coord2cell", len(casts), 2)
    fl_vars = {}
    for s in find_all(cc["body"], lambda n: n.get("kind") == "BinaryOperator" and n.get("opcode") == "="):
        rhs = strip(s["inner"][1])
        while rhs.get("kind") in ("ImplicitCastExpr", "ParenExpr"):
            rhs = strip(rhs["inner"][0])
        if rhs.get("kind") == "CallExpr" and text(rhs["inner"][0]) == "floor":
            fl_vars[text(s["inner"][0])] = s
    for c in casts:
        op = strip(c["inner"][0])
        while op.get("kind") in ("ParenExpr", "ImplicitCastExpr") and op.get("castKind") != "FloatingToIntegral":
            op = strip(op["inner"][0])
        t = text(op).replace(" ", "")
        direct_floor = op.get("kind") == "CallExpr" and text(op["inner"][0]) == "floor"
        via_var = op.get("kind") == "DeclRefExpr" and t in fl_vars
        # dominated by a double range test of the same variable
        guarded = False
        if via_var:
            p = None
            for ifs in find_all(cc["body"], lambda n: n.get("kind") == "IfStmt"):
                tt = text(ifs["inner"][0]).replace(" ", "")
                if f"{t}>=0" in tt and (f"{t}<ncols" in tt or f"{t}<nrows" in tt) and "||" not in tt and find_all(ifs["inner"][1], lambda n: n is c):
                    guarded = True
        rep.check((via_var and guarded) or direct_floor, "R07.b", file, "c_coord2cell", f"conversion `{text(c)[:40]}` converts a floor()ed value range-tested as a double",
                  "a truncated offset maps (-1, 0) to 0: points up to one cell left of / below the extent would be reported inside", line=c.get("_line"))
    # the range test itself
    rt = [text(s["inner"][0]).replace(" ", "") for s in find_all(cc["body"], lambda n: n.get("kind") == "IfStmt")]
    okrt = any(all(x in t for x in ("fx>=0", "fx<ncols", "fy>=0", "fy<nrows")) and "||" not in t for t in rt)
    rep.check(okrt, "R07.b", file, "c_coord2cell", "inside test: 0 <= fx < ncols and 0 <= fy < nrows on the floored doubles (false for NaN)", str(rt), line=loop[0].get("_line"))

    # ---------------- R07.c invalid cells ------------------------------------------------------------------------------------------------------
    N = cn.ratio(('mul', ('sym', 'nrows'), ('sym', 'ncols')))
    for fname, var, fail in (("c_cell2rowcol", "icell", "-1"), ("c_cell2coord", "icell", "nan"), ("c_neighbours", "idxcell", "return"),
                             ("c_upstream", "idxcell", "return"), ("c_downstream", "idxcell", "return")):
        fn = fns[fname]
        ifs = [s for s in find_all(fn["body"], lambda n: n.get("kind") == "IfStmt") if var in text(s["inner"][0]) and "nrows" in _expanded(s["inner"][0], fn)]
        ok, det = False, "range test not found"
        if ifs:
            s = ifs[0]
            env = _env_before(fn, s)
            try:
                c = to_expr(s["inner"][0], env)
            except Undecided as ex:
                c = None
                det = str(ex)
            if c is not None and c[0] == 'or':
                parts = [c[1], c[2]]
                lo = [p for p in parts if p[0] == 'cmp' and p[1] == '<' and show(p[2]) == var and p[3] == num(0)]
                hi = [p for p in parts if p[0] == 'cmp' and ((p[1] == '>=' and show(p[2]) == var and cn.ratio(p[3]) == N) or
                                                            (p[1] == '>' and show(p[2]) == var and cn.ratio(p[3]) == N - 1))]
                ok = len(lo) == 1 and len(hi) == 1
                det = show(c)
            if ok:
                # dominance: every use of getnxy/getcoord/c_neighbours/flowdir[var] comes after or in the else branch
                uses = find_all(fn["body"], lambda n: (n.get("kind") == "CallExpr" and text(n["inner"][0]) in ("getnxy", "getcoord", "c_neighbours")) or
                                (n.get("kind") == "ArraySubscriptExpr" and text(n).replace(" ", "") == f"flowdir[{var}]"))
                okdom = all(u.get("_line", 0) >= s.get("_line", 0) for u in uses) and not any(find_all(s["inner"][1], lambda n: n is u) for u in uses)
                then = s["inner"][1]
                if fail == "return":
                    okfail = bool(find_all(then, lambda n: n.get("kind") == "ReturnStmt"))
                elif fail == "-1":
                    okfail = len(stores_to(then, "rowcols")) == 2 and all(text(x["inner"][1]).replace(" ", "") == "-1" for x in stores_to(then, "rowcols"))
                else:
                    okfail = len(stores_to(then, "xycoords")) == 2 and all(text(x["inner"][1]).replace(" ", "") == "nan" for x in stores_to(then, "xycoords"))
                ok = okdom and okfail
                det += f"; dominance {okdom}, failing branch {fail}: {okfail}"
        rep.check(ok, "R07.c", file, fname, f"`{var} < 0 || {var} >= nrows*ncols` dominates every use and yields {fail}", det, line=fn["line"])
    # cell2rowcol column / row order
    cr = fns["c_cell2rowcol"]
    st = {text(s["inner"][0]).replace(" ", ""): text(s["inner"][1]).replace(" ", "") for s in stores_to(cr["body"], "rowcols") if "rowcol[" in text(s["inner"][1])}
    rep.check(st.get("rowcols[2*i]") == "rowcol[1]" and st.get("rowcols[2*i+1]") == "rowcol[0]", "R07.a", file, "c_cell2rowcol", "output columns are (row, column) = (getnxy[1], getnxy[0])", str(st), line=cr["line"])

    # ---------------- R07.d wrappers ----------------------------------------------------------------------------------------------------------------
    mod = Mod(rep.repo, "gis/grid.py")
    b = ExprBuilder(lambda d, env: ('sym', d.split(".")[-1]) if d.startswith("self.") else None, None)
    xv, yv = mod.func("Grid.xvalues"), mod.func("Grid.yvalues")
    for f, want, colidx, nm in ((xv, "np.arange(ncols)", 0, "xvalues"), (yv, "np.arange(0, nrows*ncols, ncols)", 1, "yvalues")):
        cells = [n for n in f.body if isinstance(n, ast.Assign) and isinstance(n.targets[0], ast.Name) and n.targets[0].id == "cells"]
        ok = False
        det = ""
        if cells:
            try:
                c3 = Canon()
                got = c3.ratio(b.build(cells[0].value, {}))
                w = c3.ratio(b.build(ast.parse(want, mode="eval").body, {"ncols": ('sym', 'ncols'), "nrows": ('sym', 'nrows')}))
                ok = got == w
                det = ast.unparse(cells[0].value)
            except Undecided as ex:
                det = str(ex)
        ret = [n for n in f.body if isinstance(n, ast.Return)]
        okr = bool(ret) and ast.unparse(ret[0].value).replace(" ", "") == f"xv[:,{colidx}]"
        c2c = any(isinstance(n, ast.Call) and dotted(n.func) == "self.cell2coord" and ast.unparse(n.args[0]) == "cells" for n in ast.walk(f))
        rep.check(ok and okr and c2c, "R07.d", "gis/grid.py", f"Grid.{nm}", f"{nm} = coordinate {colidx} of cell2coord({want})", det, line=f.lineno)
    for nm, want in (("xlim", "(xllcorner, xllcorner + ncols*cellsize)"), ("ylim", "(yllcorner, yllcorner + nrows*cellsize)")):
        f = mod.func(f"Grid.{nm}")
        ret = [n for n in f.body if isinstance(n, ast.Return)]
        ok = False
        if ret:
            try:
                c3 = Canon()
                env = {k: ('sym', k) for k in ("xllcorner", "yllcorner", "ncols", "nrows", "cellsize")}
                ok = c3.ratio(b.build(ret[0].value, {})) == c3.ratio(b.build(ast.parse(want, mode="eval").body, env))
            except Undecided:
                ok = False
        rep.check(ok, "R07.d", "gis/grid.py", f"Grid.{nm}", f"{nm} = {want}", ast.unparse(ret[0].value) if ret else "", line=f.lineno)
    # wrappers bind the geometry in the kernel's order and raise on errors
    from .. import xlayer, pyxread
    P = pyxread.load_all(rep.repo)
    shims = {cm: {sh.name: sh for sh in d["shims"]} for cm, d in P.items()}
    sites, _ = xlayer.find_sites(rep.repo, shims)
    for s in sites:
        if s.shim.name in ("coord2cell", "cell2coord", "cell2rowcol", "neighbours"):
            ok, how, _ = xlayer.error_discipline(s)
            rep.check(ok, "R07.d", "gis/grid.py", s.func.name, f"{s.shim.name}: kernel error code raises", how, line=s.call.lineno)
            names = {pn: ast.unparse(v[0]) for pn, v in s.args.items()}
            geo = {k: names.get(k) for k in ("nrows", "ncols", "xll", "yll", "csz") if k in s.shim.params}
            rep.check(all(v == k for k, v in geo.items()), "R07.d", "gis/grid.py", s.func.name, f"{s.shim.name}: geometry arguments bound to the same-named parameters", str(geo), line=s.call.lineno)
    gs = mod.func("Grid._getsize")
    ret = [n for n in gs.body if isinstance(n, ast.Return)]
    rep.check(bool(ret) and ast.unparse(ret[0].value).replace(" ", "") == "(xll,yll,csz,nrows,ncols)" and
              all(any(isinstance(n, ast.Assign) and ast.unparse(n).replace(" ", "") == t for n in gs.body) for t in
                  ("xll=self.xllcorner", "yll=self.yllcorner", "csz=self.cellsize", "nrows=self.nrows", "ncols=self.ncols")),
              "R07.d", "gis/grid.py", "Grid._getsize", "_getsize returns (xllcorner, yllcorner, cellsize, nrows, ncols) in this order", "", line=gs.lineno)
    return EXPLANATION


def _expanded(cond, fn):
    """text of a condition with local definitions of the names it mentions appended (to find hoisted nrows*ncols)"""
    t = text(cond)
    for s in find_all(fn["body"], lambda n: n.get("kind") == "BinaryOperator" and n.get("opcode") == "="):
        if text(s["inner"][0]) in t:
            t += " " + text(s["inner"][1])
    for d in find_all(fn["body"], lambda n: n.get("kind") == "VarDecl" and n.get("inner")):
        if d["name"] in t:
            init = [c for c in d["inner"] if c.get("kind")]
            if init:
                t += " " + text(init[0])
    return t


def _env_before(fn, stmt):
    """scalar definitions made by top-level simple assignments / initialisers before `stmt`"""
    env = {}
    for s in find_all(fn["body"], lambda n: n.get("kind") in ("BinaryOperator", "VarDecl")):
        if s.get("_line", 0) >= stmt.get("_line", 0):
            continue
        try:
            if s.get("kind") == "BinaryOperator" and s.get("opcode") == "=":
                t = strip(s["inner"][0])
                if t.get("kind") == "DeclRefExpr" and t["referencedDecl"]["name"] not in ("icell", "idxcell", "i"):
                    env[t["referencedDecl"]["name"]] = to_expr(s["inner"][1], env)
            elif s.get("kind") == "VarDecl":
                init = [c for c in s.get("inner", []) if c.get("kind")]
                if init:
                    env[s["name"]] = to_expr(init[0], env)
        except Undecided:
            continue
    return env
