"""C07 -- grid cell numbers, rows/columns and coordinates are mutually consistent (structural clauses).

Kernel clauses are decided on normalised functions (cnorm) by symbolic evaluation of one loop iteration (ceval / cq);
wrapper clauses by symbolic evaluation of the Python functions (pq).  No clause compares source text."""
import ast

from ..core import AnalysisError
from ..cfront import strip, text
from .. import ckern, ceval, cq, pq, cnorm, xlayer, pyxread
from ..ceval import CEval, find_all, loop_parts, body_stmts, loop_var
from ..formula import Canon, Ratio, Undecided, show, num
from ..pyfront import Mod

EXPLANATION = (
    "One iteration of every conversion kernel is evaluated symbolically after normalisation (getnxy / getcoord inlined, "
    "temporaries substituted).  c_cell2rowcol stores (row, column) = ((c - c mod ncols)/ncols, c mod ncols); c_cell2coord "
    "stores xll + csz (col + 1/2), yll + csz (nrows-1-row + 1/2); c_coord2cell stores (nrows-1-fy) ncols + fx with "
    "fx, fy the floors of (x-xll)/csz, (y-yll)/csz.  Feeding the centre of cell (col, row) to c_coord2cell gives "
    "col + 1/2 and nrows-1-row + 1/2 BEFORE the floor (exact rational identities), hence the same column and row, "
    "recombined as row*ncols + col.  Conversion discipline: every double-to-integer conversion in the stored cell "
    "number converts a floor()ed value and the store is reached only after that floored value was range-tested as a "
    "double (truncation maps (-1, 0) to 0 and would report points left of / below the extent as inside); every other "
    "path stores -1.  Invalid cell numbers: in c_cell2rowcol, c_cell2coord, c_neighbours, c_upstream, c_downstream "
    "the test idx < 0 or idx >= nrows*ncols separates the uses from the paths that yield -1 / NaN / an error.  "
    "Wrappers: xvalues / yvalues use the first row / first column cell numbers, xlim / ylim the extent formulas.  "
    "Floating-point rounding for large origins is not decided.")


def is_nan(v):
    if v == ('nan',):
        return True
    s = show(v).replace(" ", "")
    return "/0)" in s or "/(0)" in s or s in ("nan", "NAN") or "c:nan" in s


def one_loop(fn, file):
    top = body_stmts(fn["body"])
    ls = [s for s in top if s.get("kind") == "ForStmt" and cnorm.writes(s)[1]]
    if len(ls) != 1:
        raise AnalysisError(f"{file}: {fn['name']}: element loop not found")
    lr = cq.loop_range(ls[0], cq.preceding(top, ls[0]))
    return ls[0], lr


def run(rep):
    rep.rule("R07.a", "numbering formulas and their composition: coord2cell(cell2coord(c)) = c as exact identities before the floor")
    rep.rule("R07.b", "double -> integer conversions that decide 'inside the grid' convert a floor()ed, double-range-tested value; every other path stores -1")
    rep.rule("R07.c", "invalid cell numbers: `idx < 0 || idx >= nrows*ncols` separates every use from the paths that yield -1 / NaN / error")
    rep.rule("R07.d", "wrappers: xvalues/yvalues from first-row / first-column cells, xlim/ylim extent formulas, errors raised")
    K = ckern.analyze(rep.repo)
    fns = K["fns"]
    for need in ("c_coord2cell", "c_cell2rowcol", "c_cell2coord", "c_neighbours", "c_upstream", "c_downstream"):
        if need not in fns:
            raise AnalysisError(f"gis/c_grid.c: {need} not found")
    N = lambda q: ckern.normalised(K, q, rep.repo)
    file = fns["c_coord2cell"]["file"]
    rep.unit(f"{file}: c_coord2cell, c_cell2rowcol, c_cell2coord, c_neighbours, c_upstream, c_downstream (normalised); gis/grid.py: coord2cell, cell2coord, cell2rowcol, xvalues, yvalues, xlim, ylim")
    cn = Canon()

    # ---------------- c_cell2rowcol / c_cell2coord --------------------------------------------------------------------------
    def cell_kernel(name, outarr, want0, want1, failv):
        fn = N(name)
        loop, lr = one_loop(fn, file)
        iv = lr["var"] if lr else loop_var(loop)
        rep.check(cq.range_is(lr, "0", "nval-1"), "R07.a", file, name, "every element is converted once", "", line=loop.get("_line"))
        c = f"idxcell[{iv}]"
        bad = f"{c} < 0 || {c} >= nrows*ncols"
        ce = cq.evaluate(body_stmts(loop_parts(loop)[3]))
        env = {"COL": cq.parse(f"{c} % ncols"), "ROW": cq.parse(f"({c} - {c} % ncols)/ncols")}
        st = cq.stores(ce, outarr)
        good = [e for e in st if cq.excluded(e.conds, bad, True)]
        fail = [e for e in st if cq.holds_any(e.conds, bad, True)]
        other = [e for e in st if e not in good and e not in fail]
        by = {}
        for e in good:
            by.setdefault("0" if cq.same_expr(e.idx, f"2*{iv}") else "1" if cq.same_expr(e.idx, f"2*{iv}+1") else "?", []).append(e)
        okf = set(by) == {"0", "1"} and len(by["0"]) == 1 and len(by["1"]) == 1 and \
            cq.same_expr(by["0"][0].val, cq.parse(want0, env)) and cq.same_expr(by["1"][0].val, cq.parse(want1, env))
        return fn, loop, okf, good, fail, other, by

    fn, loop, okf, good, fail, other, by = cell_kernel("c_cell2rowcol", "rowcols", "ROW", "COL", "-1")
    rep.check(okf, "R07.a", file, "c_cell2rowcol", "valid cell c: stores (row, column) = ((c - c mod ncols)/ncols, c mod ncols)",
              "; ".join(repr(e) for e in good)[:300], line=loop.get("_line"))
    okfail = len(fail) == 2 and all(cq.same_expr(e.val, "-1") for e in fail) and not other
    rep.check(okfail, "R07.c", file, "c_cell2rowcol", "`c < 0 || c >= nrows*ncols` separates the conversion from the path that stores (-1, -1)",
              "; ".join(repr(e) for e in fail + other)[:300], line=loop.get("_line"))
    stale = [e for e in fail if not cq.same_expr(e.val, "-1")]
    rep.check(not stale, "R07.c", file, "c_cell2rowcol", "an invalid cell number stores -1 whatever the previous iterations left behind",
              "; ".join(repr(e) for e in stale)[:300], line=loop.get("_line"), firm=True)
    fn, loop, okf, good, fail, other, by = cell_kernel("c_cell2coord", "xycoords", "xll + csz*(COL + 0.5)", "yll + csz*((nrows - 1 - ROW) + 0.5)", "nan")
    rep.check(okf, "R07.a", file, "c_cell2coord", "valid cell c: stores the centre (xll + csz (col + 1/2), yll + csz (nrows-1-row + 1/2))",
              "; ".join(repr(e) for e in good)[:300], line=loop.get("_line"))
    okfail = len(fail) == 2 and all(is_nan(e.val) for e in fail) and not other
    rep.check(okfail, "R07.c", file, "c_cell2coord", "`c < 0 || c >= nrows*ncols` separates the conversion from the path that stores (NaN, NaN)",
              "; ".join(repr(e) for e in fail + other)[:300], line=loop.get("_line"))
    # one iteration evaluated from an arbitrary state: what an invalid cell stores may not be a value carried over from an earlier iteration
    stale = [e for e in fail if not is_nan(e.val)]
    rep.check(not stale, "R07.c", file, "c_cell2coord", "an invalid cell number stores NaN whatever the previous iterations left behind",
              "; ".join(repr(e) for e in stale)[:300] + ": the value depends on state carried from an earlier element (an invalid cell after a valid one inherits its coordinates)",
              line=loop.get("_line"), firm=True)

    # ---------------- c_coord2cell ------------------------------------------------------------------------------------------------------------
    cc = N("c_coord2cell")
    loop, lr = one_loop(cc, file)
    iv = lr["var"] if lr else loop_var(loop)
    rep.check(cq.range_is(lr, "0", "nval-1"), "R07.a", file, "c_coord2cell", "every point is converted once", "", line=loop.get("_line"))
    X, Y = f"xycoords[2*{iv}]", f"xycoords[2*{iv}+1]"
    FX, FY = f"floor(({X} - xll)/csz)", f"floor(({Y} - yll)/csz)"
    stm = body_stmts(loop_parts(loop)[3])
    ce = cq.evaluate(stm)
    st = [e for e in cq.stores(ce, "idxcell") if cq.same_expr(e.idx, iv)]
    cellst = [e for e in st if not cq.same_expr(e.val, "-1")]
    inside = f"{FX} >= 0 && {FX} < ncols && {FY} >= 0 && {FY} < nrows"
    okcell = len(cellst) == 1 and cq.same_expr(cellst[0].val, f"(nrows - 1 - {FY})*ncols + {FX}")
    rep.check(okcell, "R07.a", file, "c_coord2cell", "inside: cell = (nrows-1-fy)*ncols + fx with fx = floor((x-xll)/csz), fy = floor((y-yll)/csz)",
              repr(cellst[0])[:300] if cellst else "no cell store", line=loop.get("_line"))
    if okcell:
        # composition with the centre of cell (C, R): floor arguments are C + 1/2 and nrows-1-R + 1/2 exactly
        ax = cn.ratio(cq.parse("((xll + csz*(C + 0.5)) - xll)/csz"))
        ay = cn.ratio(cq.parse("((yll + csz*((nrows - 1 - R) + 0.5)) - yll)/csz"))
        okfl = ax == cn.ratio(cq.parse("C + 0.5")) and ay == cn.ratio(cq.parse("nrows - 1 - R + 0.5"))
        rep.check(okfl, "R07.a", file, "c_coord2cell", "at a cell centre the floored quantities are col + 1/2 and nrows-1-row + 1/2 (exact), so floor gives the column and the row counted from the bottom",
                  f"{ax}; {ay}", line=cellst[0].line)
        okid = cn.ratio(cq.parse("(nrows - 1 - (nrows - 1 - R))*ncols + C")) == cn.ratio(cq.parse("R*ncols + C"))
        rep.check(okid, "R07.a", file, "c_coord2cell", "coord2cell(cell2coord(c)) = row*ncols + col = c", "", line=cellst[0].line)
    # R07.b: conversions in the stored value are of floor()ed operands; the store is reached only under the double range test
    casts = find_all(loop, lambda n: n.get("kind") in ("CStyleCastExpr", "ImplicitCastExpr") and n.get("castKind") == "FloatingToIntegral")
    rep.floor("double->integer conversions in c_coord2cell", len(casts), 2)
    for c in casts:
        op = c["inner"][0]
        while op.get("kind") in ("ParenExpr", "ImplicitCastExpr", "CStyleCastExpr") and op.get("castKind") != "FloatingToIntegral":
            op = op["inner"][0]
        isfloor = op.get("kind") == "CallExpr" and text(op["inner"][0]) == "floor"
        which = None
        if isfloor:
            which = "x" if cq.same_expr(op, FX) else "y" if cq.same_expr(op, FY) else None
        rep.check(isfloor and which is not None, "R07.b", file, "c_coord2cell", f"conversion `{text(c)[:60]}` converts a floor()ed offset",
                  "a truncated offset maps (-1, 0) to 0: points up to one cell left of / below the extent would be reported inside", line=c.get("_line"))
    okrt = len(cellst) == 1 and cq.holds(cellst[0].conds, inside, False)
    rep.check(okrt, "R07.b", file, "c_coord2cell", "inside test: 0 <= fx < ncols and 0 <= fy < nrows on the floored doubles (false for NaN) dominates the store of the cell number",
              repr(cellst[0].conds)[:200] if cellst else "", line=loop.get("_line"))
    # every other path ends with -1 in the output
    okm1 = True
    for env_, conds, how in ce.finals:
        key = f"idxcell[{iv}]"
        if cq.holds(conds, inside, False):
            continue
        v = env_.get(key)
        if v is None or not cq.same_expr(v, "-1"):
            okm1 = False
    rep.check(okm1 and bool(ce.finals), "R07.b", file, "c_coord2cell", "every path on which the range test fails leaves -1 in the output", "", line=loop.get("_line"))

    # ---------------- R07.c invalid cells in the neighbour kernels ----------------------------------------------------------------------
    nb = N("c_neighbours")
    nce = cq.evaluate(body_stmts(nb["body"]), maxpaths=2000)
    badn = "idxcell < 0 || idxcell >= nrows*ncols"
    errs = [r for r in nce.returns if isinstance(r[0], tuple) and not cq.same_expr(r[0], "0") and cq.holds_any(r[1], badn, True)]
    uses = [e for e in nce.effects if e.op in ("=", "+=")]
    rep.check(bool(errs) and bool(uses) and all(cq.excluded(e.conds, badn, True) for e in uses), "R07.c", file, "c_neighbours",
              "`idxcell < 0 || idxcell >= nrows*ncols` returns an error before any use", "", line=nb["line"])
    for name, arr in (("c_upstream", "idxdown"), ("c_downstream", "idxup")):
        fn = N(name)
        top = body_stmts(fn["body"])
        ls = [s for s in top if s.get("kind") == "ForStmt" and cnorm.writes(s)[1]]
        if len(ls) != 1:
            raise AnalysisError(f"{file}: {name}: cell loop not found")
        iv2 = loop_var(ls[0])
        c = f"{arr}[{iv2}]"
        bad = f"{c} < 0 || {c} >= nrows*ncols"
        ce2 = cq.evaluate(body_stmts(loop_parts(ls[0])[3]))
        errs = [r for r in ce2.returns if isinstance(r[0], tuple) and not cq.same_expr(r[0], "0") and cq.holds_any(r[1], bad, True)]
        uses = [e for e in ce2.effects]
        rep.check(bool(errs) and bool(uses) and all(cq.excluded(e.conds, bad, True) for e in uses), "R07.c", file, name,
                  f"`{c} < 0 || {c} >= nrows*ncols` returns an error before the cell is used", "", line=fn["line"])

    # ---------------- R07.d wrappers ----------------------------------------------------------------------------------------------------------------
    mod = Mod(rep.repo, "gis/grid.py")
    senv = {}

    def ret_of(qn):
        f = mod.func(qn)
        ps = [p_ for p_ in pq.PEval().run(f) if p_.how == "return"]
        return f, ps
    geo_alias = {"self._getsize()[0]": "self.xllcorner", "self._getsize()[1]": "self.yllcorner", "self._getsize()[2]": "self.cellsize",
                 "self._getsize()[3]": "self.nrows", "self._getsize()[4]": "self.ncols"}
    gs = mod.funcs.get("Grid._getsize")
    if gs is not None:
        gp = [p_ for p_ in pq.PEval().run(gs) if p_.how == "return"]
        okgs = len(gp) == 1 and pq.same(gp[0].value, "(self.xllcorner, self.yllcorner, self.cellsize, self.nrows, self.ncols)")
        rep.check(okgs, "R07.d", "gis/grid.py", "Grid._getsize", "_getsize returns (xllcorner, yllcorner, cellsize, nrows, ncols) in this order",
                  show(gp[0].value)[:120] if gp else "", line=gs.lineno)

    def norm_geo(e):
        """calls of self._getsize() that survived (not inlined) replaced by the attributes it returns"""
        if not isinstance(e, tuple) or not e or not isinstance(e[0], str):
            return e
        if pq.call_named(e, "getitem") and pq.call_named(e[2][0], "._getsize") and e[2][0][2][0] == ('sym', 'self'):
            try:
                k = int(Canon().ratio(e[2][1]).cval())
                return pq.parse(list(geo_alias.values())[k])
            except Exception:
                return e
        if e[0] in ('sym', 'num', 'nan', 'x'):
            return e
        out = [e[0]]
        for c in e[1:]:
            if isinstance(c, tuple) and c and isinstance(c[0], str):
                out.append(norm_geo(c))
            elif isinstance(c, tuple):
                out.append(tuple(norm_geo(x) if isinstance(x, tuple) and x and isinstance(x[0], str) else
                                 (tuple(norm_geo(y) if isinstance(y, tuple) else y for y in x) if isinstance(x, tuple) else x) for x in c))
            else:
                out.append(c)
        return tuple(out)
    for nm, cells, col in (("xvalues", "np.arange(self.ncols)", 0), ("yvalues", "np.arange(0, self.nrows*self.ncols, self.ncols)", 1)):
        f, ps = ret_of(f"Grid.{nm}")
        ok = len(ps) == 1 and pq.same(norm_geo(ps[0].value), f"self.cell2coord({cells})[:, {col}]")
        rep.check(ok, "R07.d", "gis/grid.py", f"Grid.{nm}", f"{nm} = coordinate {col} of cell2coord({cells})", show(ps[0].value)[:160] if ps else "", line=f.lineno)
    for nm, want in (("xlim", "(self.xllcorner, self.xllcorner + self.ncols*self.cellsize)"), ("ylim", "(self.yllcorner, self.yllcorner + self.nrows*self.cellsize)")):
        f, ps = ret_of(f"Grid.{nm}")
        ok = len(ps) == 1 and pq.same(norm_geo(ps[0].value), want)
        rep.check(ok, "R07.d", "gis/grid.py", f"Grid.{nm}", f"{nm} = {want}", show(ps[0].value)[:160] if ps else "", line=f.lineno)
    P = pyxread.load_all(rep.repo)
    shims = {cm: {sh.name: sh for sh in d["shims"]} for cm, d in P.items()}
    sites, _ = xlayer.find_sites(rep.repo, shims)
    want_geo = {"xll": "self.xllcorner", "yll": "self.yllcorner", "csz": "self.cellsize", "nrows": "self.nrows", "ncols": "self.ncols"}
    for s in sites:
        if s.shim.name in ("coord2cell", "cell2coord", "cell2rowcol", "neighbours"):
            ok, how, _ = xlayer.error_discipline(s)
            rep.check(ok, "R07.d", "gis/grid.py", s.func.name, f"{s.shim.name}: kernel error code raises", how, line=s.call.lineno)
            pargs = pq.call_arguments(s.func, s.call, list(s.shim.params))
            # the data handed to the kernel are the caller's (conversions only): no snapping, clipping or arithmetic on the way
            INPUTS = {"coord2cell": ("xycoords",), "cell2coord": ("idxcell",), "cell2rowcol": ("idxcell",)}
            for dn_ in [x for x in INPUTS.get(s.shim.name, ()) if x in s.shim.params and x in pargs]:
                v_ = pargs[dn_]
                alts_ = [a_ for _c, a_ in pq.split_where(v_)] if not pq.find(v_, lambda y: pq.call_named(y, "isclose") or pq.call_named(y, "round") or pq.call_named(y, "clip")) else [v_]
                touched_ = []
                for a_ in alts_:
                    b_ = a_
                    while b_[0] == 'call' and b_[1] in ("astype", "atleast_1d", "atleast_2d", "ascontiguousarray", "asarray", "array", "copy", "float64", "int64") and b_[2]:
                        b_ = b_[2][0]
                    if b_[0] != 'sym':
                        touched_.append(show(a_)[:90])
                rep.check(not touched_, "R07.d", "gis/grid.py", s.func.name, f"{s.shim.name}: `{dn_}` reaches the kernel as given (type / layout conversions only)",
                          f"{touched_[:1]}", line=s.call.lineno, firm=True)
            geo = {k_: pargs.get(k_) for k_ in want_geo if k_ in s.shim.params}
            okg = all(v is not None and pq.same(norm_geo(v), want_geo[k_]) for k_, v in geo.items())
            rep.check(okg, "R07.d", "gis/grid.py", s.func.name, f"{s.shim.name}: geometry arguments are the grid's own attributes, bound to the parameters of the same meaning",
                      "; ".join(f"{k_}={show(v)[:40] if v else None}" for k_, v in geo.items()), line=s.call.lineno)
    # Grid.neighbours is part of the numbering contract: the clauses C06 decides about c_neighbours are obligations here too
    from ..core import borrow
    nb_ = borrow(rep, "C06", "R07.e", "c_neighbours: slot layout, off-grid sides and centre slot (clauses decided for C06)",
                 lambda e: (e.func or "") == "c_neighbours")
    rep.floor("c_neighbours clauses taken over from C06", nb_, 3)
    return EXPLANATION
