"""C09 -- CSV files with comment headers round-trip through write_csv / read_csv (writer/reader agreement)."""
import ast
import re

from ..core import AnalysisError
from ..pyfront import Mod, dotted, const_value, walk_no_nested

EXPLANATION = (
    "Writer/reader agreement of io/csv.py decided symbolically: file and zip-member names are evaluated as token "
    "strings over a symbolic path (parent P, stem S, suffix X) for every accepted suffix class x compress x archive "
    "mode, and the member the reader asks for must be the member the writer stored, in a file the reader's name "
    "resolution finds; the header line grammar of the writer ('# key : value' between dashed rules) is matched "
    "against the reader's regular expressions by inspecting their syntax trees (anchoring, rule detector, first "
    "colon split, key window); dictionary keys are colon-free and values are stored untouched; nrow/ncol come from "
    "data.shape; the options reach DataFrame.to_csv and the header precedes the body on both output paths.  "
    "pandas' own quoting and float formatting are trusted.")

SUFFIXES = [".csv", ".zip", "", ".dat"]


# --------------------------------------------------------------------------- symbolic paths
class SPath:
    """path = parent tokens / name tokens; tokens are literal strings or symbols 'P', 'S', 'X'"""

    def __init__(self, parent, name):
        self.parent, self.name = tuple(parent), tuple(name)

    def full(self):
        return self.parent + ("/",) + self.name

    def __eq__(self, o):
        return isinstance(o, SPath) and norm_tokens(self.full()) == norm_tokens(o.full())


def norm_tokens(t):
    out = []
    for x in t:
        if x == "":
            continue
        if out and not out[-1].startswith("$") and not x.startswith("$"):
            out[-1] += x
        else:
            out.append(x)
    return tuple(out)


def split_name(name):
    """(stem tokens, suffix string) of a name token tuple, pathlib rule: last '.ext' of the final component"""
    n = norm_tokens(name)
    if not n:
        return (), ""
    last = n[-1]
    if last == "$X":
        return n[:-1], "$X"
    if not last.startswith("$"):
        m = re.search(r"(\.[^./]+)$", last)
        if m and (len(n) > 1 or m.start() > 0):
            rest = last[:m.start()]
            return n[:-1] + ((rest,) if rest else ()), m.group(1)
    return n, ""


class PathEval:
    """evaluates the pathlib / string expressions used to build file and member names"""

    def __init__(self, env, X):
        self.env, self.X = dict(env), X

    def ev(self, e):
        if isinstance(e, ast.Constant) and isinstance(e.value, str):
            return ("str", (e.value,))
        if isinstance(e, ast.Name):
            if e.id in self.env:
                return self.env[e.id]
            raise KeyError(f"name {e.id}")
        if isinstance(e, ast.JoinedStr):
            toks = ()
            for v in e.values:
                if isinstance(v, ast.Constant):
                    toks += (v.value,)
                else:
                    r = self.ev(v.value)
                    toks += self.as_str(r)
            return ("str", toks)
        if isinstance(e, ast.Attribute):
            b = self.ev(e.value)
            if b[0] != "path":
                raise KeyError(f"attribute {e.attr} of a non-path")
            p = b[1]
            stem, suf = split_name(self.subst(p.name))
            if e.attr == "parent":
                return ("dir", p.parent)
            if e.attr == "name":
                return ("str", p.name)
            if e.attr == "stem":
                return ("str", stem)
            if e.attr == "suffix":
                return ("str", (suf,))
            raise KeyError(f"path attribute {e.attr}")
        if isinstance(e, ast.BinOp) and isinstance(e.op, ast.Div):
            a, b = self.ev(e.left), self.ev(e.right)
            if a[0] == "dir":
                return ("path", SPath(a[1], self.as_str(b)))
            if a[0] == "path":
                return ("path", SPath(a[1].full(), self.as_str(b)))
            raise KeyError("division of a non-path")
        if isinstance(e, ast.BinOp) and isinstance(e.op, ast.Add):
            a, b = self.ev(e.left), self.ev(e.right)
            return ("str", self.as_str(a) + self.as_str(b))
        if isinstance(e, ast.Call):
            d = dotted(e.func)
            if d in ("str",) and len(e.args) == 1:
                return ("str", self.as_str(self.ev(e.args[0])))
            if d in ("Path", "PurePosixPath", "pathlib.Path") and len(e.args) == 1:
                r = self.ev(e.args[0])
                if r[0] == "path":
                    return r
                raise KeyError("Path() of a string")
        raise KeyError(f"expression {ast.unparse(e)[:40]}")

    def subst(self, toks):
        return tuple(self.X if t == "$X" else t for t in toks)

    def as_str(self, r):
        if r[0] == "str":
            return tuple(r[1])
        if r[0] == "path":
            return r[1].full()
        if r[0] == "dir":
            return tuple(r[1])
        raise KeyError("string value")

    def concrete(self, toks):
        return norm_tokens(self.subst(toks))


def find_assign(fn, name, pred=None):
    out = []
    for n in ast.walk(fn):
        if isinstance(n, ast.Assign) and len(n.targets) == 1 and isinstance(n.targets[0], ast.Name) and n.targets[0].id == name:
            if pred is None or pred(n):
                out.append(n)
    return out


def under_test(node, text):
    p = getattr(node, "_parent", None)
    while p is not None:
        if isinstance(p, ast.If) and text in ast.unparse(p.test) and node_in(node, p.body):
            return True
        p = getattr(p, "_parent", None)
    return False


def node_in(node, body):
    return any(node is x for s in body for x in ast.walk(s))


def run(rep):
    rel = "io/csv.py"
    mod = Mod(rep.repo, rel)
    rep.rule("R09.a", "zip / archive member written == member read, in a file the reader's name resolution finds (all suffix classes x modes)")
    rep.rule("R09.b", "header lines written are parsed back by the reader's regular expressions; dict keys colon-free, values untouched; nrow/ncol from data.shape")
    rep.rule("R09.c", "write_index, float_format, **kwargs reach DataFrame.to_csv; header written before the body on both paths")
    rep.assume("the target directory holds no other file with the same stem (name resolution takes the first existing candidate)")
    w, r, cn, ch, h2c = (mod.func(x) for x in ("write_csv", "read_csv", "_check_name", "_csvhead", "_header2comment"))
    rep.unit(f"{rel}: write_csv, read_csv, _check_name, _csvhead, _header2comment, write2zip")

    # ---------------- R09.a -------------------------------------------------------------------------------------
    # writer expressions
    wz = find_assign(w, "filename_full", lambda n: under_test(n, "compress"))
    wm = find_assign(w, "arcname", lambda n: under_test(n, "compress") and isinstance(getattr(n, "_parent", None), ast.If)
                     and ast.unparse(n._parent.test).strip() == "compress")
    wa = find_assign(w, "arcname", lambda n: not (isinstance(getattr(n, "_parent", None), ast.If) and ast.unparse(n._parent.test).strip() == "compress"))
    wcond = [n for n in ast.walk(w) if isinstance(n, ast.If) and any(x is wz[0] for x in n.body)] if wz else []
    rz = [n for n in ast.walk(cn) if isinstance(n, ast.For) and isinstance(n.iter, (ast.List, ast.Tuple))]
    rc = find_assign(cn, "filename_full") if rz else []
    rm = find_assign(r, "fcsv")
    ra = [n for n in ast.walk(r) if isinstance(n, ast.Call) and isinstance(n.func, ast.Attribute) and n.func.attr == "read"
          and dotted(n.func.value) == "archive"]
    if not (wz and wm and wa and wcond and rz and rc and rm and ra):
        raise AnalysisError(f"{rel}: name-building statements not found (writer zip path {len(wz)}, member {len(wm)}/{len(wa)}, "
                            f"reader loop {len(rz)}, candidate {len(rc)}, member {len(rm)}, archive read {len(ra)})")
    exts = [const_value(x) for x in rz[0].iter.elts]
    loopvar = rz[0].target.id
    early = any(isinstance(n, ast.If) and "exists" in ast.unparse(n.test) and any(isinstance(x, ast.Return) for x in n.body) for n in cn.body)
    rep.check(early, "R09.a", rel, "_check_name", "an existing file name is used as given", "", line=cn.lineno)
    nsc = 0
    for X in SUFFIXES:
        env = {"filename": ("path", SPath(("$P",), ("$S", "$X")))}
        pe = PathEval(env, X)
        sc = f"suffix '{X or '<none>'}', compress=True"
        try:
            # writer
            cond_zip = eval_cond(wcond[0].test, pe, {"compress": True})
            zpath = pe.ev(wz[0].value)[1] if cond_zip else env["filename"][1]
            member_w = pe.concrete(pe.as_str(pe.ev(wm[0].value)))
            # reader resolution
            found = None
            if SPath(pe.subst(zpath.parent), pe.subst(zpath.name)) == SPath(("$P",), pe.subst(("$S", "$X"))):
                found = zpath
            else:
                for ext in exts:
                    pe2 = PathEval(dict(env, **{loopvar: ("str", (ext,))}), X)
                    cand = pe2.ev(rc[0].value)[1]
                    if norm_tokens(pe.subst(cand.full())) == norm_tokens(pe.subst(zpath.full())):
                        found = cand
                        break
            nsc += 1
            if found is None:
                rep.violation("R09.a", rel, "_check_name", f"{sc}: written file is found",
                              f"write_csv writes {show(pe.concrete(zpath.full()))} but none of the reader's candidates "
                              f"({', '.join(exts)}) names it", line=cn.lineno)
                continue
            rep.proved("R09.a", rel, "_check_name", f"{sc}: written file is found", show(pe.concrete(zpath.full())), line=cn.lineno)
            member_r = pe.concrete(pe.as_str(pe.ev(rm[0].value)))
            rep.check(member_w == member_r, "R09.a", rel, "read_csv", f"{sc}: zip member read == member written",
                      f"written `{show(member_w)}`, read `{show(member_r)}`", line=rm[0].lineno)
        except KeyError as ex:
            rep.undecided("R09.a", rel, "write_csv/read_csv", f"{sc}: name algebra", f"outside the path vocabulary: {ex}", line=w.lineno)
    # archive mode: member = str(PurePosixPath(filename)) on both sides
    for X in (".csv", ""):
        pe = PathEval({"filename": ("path", SPath(("$P",), ("$S", "$X")))}, X)
        try:
            mw = pe.concrete(pe.as_str(pe.ev(wa[0].value)))
            mr = pe.concrete(pe.as_str(pe.ev(ra[0].args[0])))
            nsc += 1
            rep.check(mw == mr, "R09.a", rel, "read_csv", f"suffix '{X or '<none>'}', archive mode: member read == member written",
                      f"written `{show(mw)}`, read `{show(mr)}`", line=ra[0].lineno)
        except KeyError as ex:
            rep.undecided("R09.a", rel, "write_csv/read_csv", f"archive mode, suffix '{X}'", str(ex), line=w.lineno)
    rep.floor("name scenarios evaluated", nsc, 6)
    # plain mode: the file written is the file name given; archive disables compress
    arc_off = any(isinstance(n, ast.If) and ast.unparse(n.test).replace(" ", "") in ("archiveisnotNone", "archive") and
                  any(isinstance(s, ast.Assign) and ast.unparse(s).replace(" ", "") == "compress=False" for s in n.body) for n in ast.walk(w))
    rep.check(arc_off, "R09.a", rel, "write_csv", "a caller-supplied archive switches compression off", "", line=w.lineno)
    # sibling agreement: the reader forms candidate names from the same base-name attribute as the writer
    def stem_exprs(node):
        out = set()
        for n in ast.walk(node):
            if isinstance(n, ast.JoinedStr):
                for v in n.values:
                    if isinstance(v, ast.FormattedValue) and not (isinstance(v.value, ast.Name) and v.value.id == loopvar):
                        out.add(ast.unparse(v.value))
        return out
    ws, rs = stem_exprs(wz[0].value), stem_exprs(rc[0].value)
    rep.check(ws == rs, "R09.a", rel, "_check_name", "reader and writer build '<base>.zip' from the same base name",
              f"writer uses {sorted(ws)}, reader uses {sorted(rs)}", line=rc[0].lineno)
    # dispatch on the suffix of the resolved file
    disp = [n for n in ast.walk(r) if isinstance(n, ast.Compare) and "suffix" in ast.unparse(n.left) and isinstance(n.comparators[0], ast.Constant)]
    sufs = sorted({n.comparators[0].value for n in disp})
    rep.check(".zip" in sufs and ".gz" in sufs, "R09.a", rel, "read_csv", "reader dispatches on '.zip' and '.gz'", f"found {sufs}", line=r.lineno)

    # ---------------- R09.b header grammar -----------------------------------------------------------------------------------
    from .. import pq
    from ..formula import show as _show, num as _num
    hpe = pq.PEval()
    hpaths = [p_ for p_ in hpe.run(ch) if p_.how == "return"]
    if not hpaths:
        raise AnalysisError(f"{rel}: _csvhead: no returning path")

    def literal_prefix(e):
        """leading literal text of a line expression (f-string / concatenation / constant)"""
        if e[0] == 'sym' and e[1][:1] in ("'", '"'):
            return e[1][1:-1]
        if pq.call_named(e, "fstr") and e[2] and e[2][0][0] == 'sym' and e[2][0][1][:1] in ("'", '"'):
            return e[2][0][1][1:-1]
        if e[0] == 'add':
            return literal_prefix(e[1])
        return None
    nlines, okrule, oknrow = 0, True, True
    others = {}
    segs = []
    pn = [a.arg for a in ch.args.args]
    for p_ in hpaths:
        v = p_.value
        if not (isinstance(v, tuple) and v[0] == 'tuple' and len(v[1]) >= 4):
            raise AnalysisError(f"{rel}: _csvhead: returned header is not a list built in the function")
        lines = v[1]
        nlines = max(nlines, len(lines))
        first, last = literal_prefix(lines[0]), literal_prefix(lines[-1])
        okrule = okrule and first is not None and last is not None and bool(re.fullmatch(r"# -{10,}", first)) and bool(re.fullmatch(r"# -{10,}", last)) and \
            lines[0][0] == 'sym' and lines[-1][0] == 'sym'
        oknrow = oknrow and any(pq.same(x, ('call', 'fstr', (('sym', "'# nrow : '"), ('sym', pn[0])))) for x in lines) and \
            any(pq.same(x, ('call', 'fstr', (('sym', "'# ncol : '"), ('sym', pn[1])))) for x in lines)
        for x in lines[1:-1]:
            if pq.call_named(x, "seg"):
                segs += [(y[2][0] if pq.call_named(y, "map") else y) for y in x[2]]
                continue
            lp = literal_prefix(x)
            if lp is None or not re.match(r"# [A-Za-z_]+ : ", lp):
                others[_show(x)[:60]] = x
    rep.floor("header lines built by _csvhead", nlines, 8)
    rep.check(okrule, "R09.b", rel, "_csvhead", "header opens and closes with a dashed rule of >= 10 dashes", "", line=ch.lineno)
    for o in sorted(others):
        if "python_environment" in o:
            rep.assumed("R09.b", rel, "_csvhead", "line `# python_environment ..`", "system-info line without colon: read back as comment_NN (not a caller-supplied comment)", line=ch.lineno)
        else:
            rep.violation("R09.b", rel, "_csvhead", f"line `{o}`", "not of the form '# key : value': the reader cannot split it", line=ch.lineno)
    rep.check(oknrow and pn[:2] == ["nrow", "ncol"], "R09.b", rel, "_csvhead", "'# nrow : {nrow}' and '# ncol : {ncol}' lines", "", line=ch.lineno)
    # comment lines: '# ' key ' : ' value with the value looked up under that key
    okseg = bool(segs)
    for x in segs:
        okseg = okseg and pq.call_named(x, "fstr") and len(x[2]) == 4 and x[2][0] == ('sym', "'# '") and x[2][2] == ('sym', "' : '") and \
            pq.call_named(x[2][3], "getitem") and pq.same(x[2][3][2][1], x[2][1])
    rep.check(okseg, "R09.b", rel, "_csvhead", "comment lines are '# <key> : <comments[key]>'", "", line=ch.lineno)
    # nrow / ncol passed by the writer
    call = [n for n in ast.walk(w) if isinstance(n, ast.Call) and dotted(n.func) == "_csvhead"]
    okn = False
    if call:
        wargs = pq.call_arguments(w, call[0], pn)
        nr_, nc_ = wargs.get("nrow"), wargs.get("ncol")
        okn = pq.call_named(nr_, "shape") and pq.call_named(nc_, "shape") and pq.same(nr_[2][1], "0") and pq.same(nc_[2][1], "1") and \
            pq.same(nr_[2][0], nc_[2][0]) and pq.mentions(nr_[2][0], lambda e: e == ('sym', 'data'))
    rep.check(okn, "R09.b", rel, "write_csv", "nrow, ncol = data.shape[0], data.shape[1]", "", line=w.lineno)
    # dict comments: key = the caller's key with colons removed and lower-cased, value untouched
    okd, det = False, "dict branch not found"
    dstores = []
    for tag, p_ in getattr(hpe, "loop_paths", []):
        if pq.cond_truth(p_.conds, "isinstance(comment, dict)") is True:
            dstores += [e for e in p_.effects if e.kind == 'store']
    dmaps = []
    for p_ in hpaths:
        if pq.cond_truth(p_.conds, "isinstance(comment, dict)") is True:
            for nm, val in p_.env.items():
                if isinstance(val, tuple) and pq.call_named(val, "dictmap"):
                    dmaps.append(val)
    cands = [(e.key, e.val) for e in dstores] + [(m[2][0], m[2][1]) for m in dmaps]
    for k_, v_ in cands:
        subs = pq.find(k_, lambda x: pq.call_named(x, ".sub") and x[2][0] == ('sym', 're') and x[2][1] == ('sym', "':'") and x[2][2] == ('sym', "''"))
        K0 = subs[0][2][3] if subs else None
        key_ok = K0 is not None and (pq.call_named(K0, "elem") or pq.call_named(K0, "getitem"))
        val_ok = K0 is not None and (pq.same(v_, ('call', 'getitem', (('sym', 'comment'), K0))) or
                                     (pq.call_named(K0, "getitem") and pq.call_named(v_, "getitem") and pq.same(K0[2][0], v_[2][0]) and pq.same(v_[2][1], "1")))
        okd = key_ok and val_ok
        det = f"key `{_show(k_)[:80]}` (colons removed: {key_ok}); value `{_show(v_)[:60]}` (untouched: {val_ok})"
    rep.check(okd, "R09.b", rel, "_csvhead", "dict comments: colon-free lower-case key, value stored unchanged", det, line=ch.lineno)
    # reader regular expressions (syntax trees)
    import re._parser as sp
    strip = [n for n in ast.walk(r) if isinstance(n, ast.Call) and dotted(n.func) == "re.sub" and len(n.args) == 3 and ast.unparse(n.args[2]) == "line"]
    if not strip:
        raise AnalysisError(f"{rel}: read_csv: header strip expression not found")
    pat = const_value(strip[0].args[0])
    tree = sp.parse(pat)
    alts = [list(tree)]
    if len(tree) == 1 and str(tree[0][0]) == "BRANCH":
        alts = [list(a) for a in tree[0][1][1]]
    bad = []
    for a in alts:
        has_hash = any(str(op) == "LITERAL" and av == ord("#") for op, av in a)
        anchored = bool(a) and str(a[0][0]) == "AT" and str(a[0][1]) == "AT_BEGINNING"
        if has_hash and not anchored:
            bad.append("alternative matching '#' is not anchored at the beginning of the line")
        has_nl = any(str(op) == "LITERAL" and av == 10 for op, av in a)
        if has_nl and not (str(a[-1][0]) == "AT" and str(a[-1][1]) == "AT_END"):
            bad.append("alternative matching the newline is not anchored at the end")
        if not has_hash and not has_nl:
            bad.append("alternative strips something else than the leading '# ' or the final newline")
    rep.check(not bad and const_value(strip[0].args[1]) == "", "R09.b", rel, "read_csv", f"header strip pattern {pat!r} removes only the leading '# ' and the final newline",
              "; ".join(bad), line=strip[0].lineno)
    loopcond = [n for n in ast.walk(r) if isinstance(n, ast.While) and 'startswith' in ast.unparse(n.test)]
    rep.check(bool(loopcond) and "'#'" in ast.unparse(loopcond[0].test), "R09.b", rel, "read_csv", "header = leading lines starting with '#'", "", line=r.lineno)
    # _header2comment: one symbolic line E through the loop body
    rpe = pq.PEval()
    rpe.run(h2c)
    lps = [p_ for tag, p_ in getattr(rpe, "loop_paths", [])]
    E = None
    for p_ in lps:
        for c, t in p_.conds:
            f_ = pq.find(c, lambda x: pq.call_named(x, "elem"))
            if f_:
                E = f_[0]
    if E is None:
        raise AnalysisError(f"{rel}: _header2comment: loop over the header lines not found")
    rules = set()
    for p_ in lps:
        for c, t in pq.flat_conds(p_.conds):
            if pq.pq_is_match(c) and pq.same(c[2][2], E) and c[2][1][0] == 'sym':
                rules.add(c[2][1][1].strip("'\""))
    okrd = False
    for r_ in rules:
        m = re.fullmatch(r"-\{(\d+)\}", r_)
        if m and int(m.group(1)) <= 50:
            okrd = True
            RULE = ('call', '.search', (('sym', 're'), ('sym', repr(r_)), E))
    rep.check(okrd, "R09.b", rel, "_header2comment", "dashed rules (>= N dashes, N <= 50 written) are skipped", str(sorted(rules)), line=h2c.lineno)
    stores = [(p_, e) for p_ in lps for e in p_.effects if e.kind == 'store']
    WIN = ('call', '.search', (('sym', 're'), ('sym', "':'"), ('call', 'getitem', (E, ('call', 'slice', (('sym', 'None'), ('sym', 'KEY_LENGTH_MAX'), ('sym', 'None')))))))
    RAW = ('call', '.sub', (('sym', 're'), ('sym', "':.*$'"), ('sym', "''"), E))
    KEYED_KEY = ('call', '.sub', (('sym', 're'), ('sym', "' +'"), ('sym', "'_'"), ('call', '.lower', (('call', '.strip', (RAW,)),))))
    KEYED_VAL = ('call', '.strip', (('call', 'getitem', (E, ('call', 'slice', (('add', ('call', 'shape', (RAW, _num(0))), _num(1)), ('sym', 'None'), ('sym', 'None'))))),))
    okks = okvs = okkn = okfree = okskip = bool(stores) and okrd
    nkeyed = nfree = 0
    for p_, e in stores:
        fc = pq.flat_conds(p_.conds)
        if okrd and pq.cond_truth(fc, RULE) is not False:
            okskip = False
        win = pq.cond_truth(fc, WIN)
        if win is True:
            nkeyed += 1
            okkn = okkn and pq.same(e.key, KEYED_KEY)
            okvs = okvs and pq.same(e.val, KEYED_VAL)
            okks = okks and bool(pq.find(e.key, lambda x: pq.same(x, RAW)))
        elif win is False:
            nfree += 1
            okfree = okfree and pq.same(e.val, E) and pq.call_named(e.key, ".format") and e.key[2][0] == ('sym', "'comment_{0:02d}'")
        else:
            okks = okvs = okkn = okfree = False
        if pq.cond_truth(fc, ('cmp', '!=', e.val, ('sym', "''"))) is not True:
            okvs = False
    rep.check(okskip, "R09.b", rel, "_header2comment", "nothing is stored for a dashed rule line", "", line=h2c.lineno)
    rep.check(okks and nkeyed >= 1, "R09.b", rel, "_header2comment", "key = text before the first colon (when a colon lies in the key window)", "", line=h2c.lineno)
    rep.check(okvs and nkeyed >= 1, "R09.b", rel, "_header2comment", "value = text after the first colon, stripped; empty values are not stored", "", line=h2c.lineno)
    rep.check(okkn and nkeyed >= 1, "R09.b", rel, "_header2comment", "key normalised: strip, lower, blanks -> '_' (identity on the writer's keys)", "", line=h2c.lineno)
    rep.check(okfree and nfree >= 1, "R09.b", rel, "_header2comment", "lines without a colon in the key window are kept whole under a numbered comment key", "", line=h2c.lineno)
    kl = [n for n in mod.tree.body if isinstance(n, ast.Assign) and isinstance(n.targets[0], ast.Name) and n.targets[0].id == "KEY_LENGTH_MAX"]
    okkl = bool(kl) and isinstance(const_value(kl[0].value), int) and const_value(kl[0].value) >= 17
    rep.check(okkl, "R09.b", rel, "csv", "key window KEY_LENGTH_MAX covers the writer's own keys (longest: time_generated + ' :')", "", line=kl[0].lineno if kl else 1)

    # ---------------- R09.c -------------------------------------------------------------------------------------------------------
    tc = [n for n in ast.walk(w) if isinstance(n, ast.Call) and isinstance(n.func, ast.Attribute) and n.func.attr == "to_csv"]
    okc, det = False, "no to_csv call"
    if tc:
        kws = {k.arg: ast.unparse(k.value) for k in tc[0].keywords}
        okc = kws.get("index") == "write_index" and kws.get("float_format") == "float_format" and None in kws and kws[None] == "kwargs" \
            and dotted(tc[0].func.value) == "data"
        det = str(kws)
    rep.check(okc, "R09.c", rel, "write_csv", "data.to_csv(.., index=write_index, float_format=float_format, **kwargs)", det, line=w.lineno)
    # header before body: stream path
    pos_head = pos_body = None
    for i, n in enumerate(ast.walk(w)):
        if isinstance(n, ast.For) and ast.unparse(n.iter) == "head" and any("write" in ast.unparse(s) for s in n.body):
            pos_head = n.lineno
        if isinstance(n, ast.Call) and isinstance(n.func, ast.Attribute) and n.func.attr == "to_csv":
            pos_body = n.lineno
    rep.check(pos_head is not None and pos_body is not None and pos_head < pos_body, "R09.c", rel, "write_csv", "plain file: header lines written before the table", "", line=w.lineno)
    jn = [n for n in ast.walk(w) if isinstance(n, ast.Assign) and isinstance(n.targets[0], ast.Name) and n.targets[0].id == "txt" and "join" in ast.unparse(n.value)]
    okj = bool(jn) and ast.unparse(jn[0].value).replace(" ", "").replace('"', "'") == "'\\n'.join(head)+'\\n'+txt"
    rep.check(okj, "R09.c", rel, "write_csv", "zip / archive: header text precedes the table text", ast.unparse(jn[0].value) if jn else "", line=w.lineno)
    return EXPLANATION


def eval_cond(test, pe, flags):
    """concrete evaluation of the writer's zip-name guard under a scenario"""
    if isinstance(test, ast.BoolOp):
        vals = [eval_cond(v, pe, flags) for v in test.values]
        return all(vals) if isinstance(test.op, ast.And) else any(vals)
    if isinstance(test, ast.UnaryOp) and isinstance(test.op, ast.Not):
        return not eval_cond(test.operand, pe, flags)
    if isinstance(test, ast.Name):
        if test.id in flags:
            return flags[test.id]
        raise KeyError(f"flag {test.id}")
    if isinstance(test, ast.Compare) and len(test.ops) == 1:
        a = pe.concrete(pe.as_str(pe.ev(test.left)))
        b = pe.concrete(pe.as_str(pe.ev(test.comparators[0])))
        if isinstance(test.ops[0], ast.Eq):
            return a == b
        if isinstance(test.ops[0], ast.NotEq):
            return a != b
    raise KeyError(f"condition {ast.unparse(test)}")


def show(toks):
    return "".join(t.replace("$", "<") + (">" if t.startswith("$") else "") for t in toks)


def flatten_str(e):
    """template text of a header line expression (f-string fields kept as {name}); None when not a pure template"""
    if isinstance(e, ast.Constant) and isinstance(e.value, str):
        return e.value
    if isinstance(e, ast.JoinedStr):
        out = ""
        for v in e.values:
            if isinstance(v, ast.Constant):
                out += v.value
            else:
                out += "{" + re.sub(r"\W+", "_", ast.unparse(v.value))[:20] + "}"
        return out
    if isinstance(e, ast.BinOp) and isinstance(e.op, ast.Add):
        a, b = flatten_str(e.left), flatten_str(e.right)
        if a is None:
            return None
        return a + (b if b is not None else "{expr}")
    return None
