"""C09 -- CSV files with comment headers round-trip through write_csv / read_csv (writer/reader agreement)."""
import ast
import copy
import re

from ..core import AnalysisError
from ..pyfront import Mod, dotted, const_value, walk_no_nested

EXPLANATION = (
    "Writer/reader agreement of io/csv.py decided symbolically: file and zip-member names are evaluated as token "
    "strings over a symbolic path (parent P, stem S, suffix X) for every accepted suffix class x compress x archive "
    "mode, and the member the reader asks for must be the member the writer stored, in a file the reader's name "
    "resolution finds; the header line grammar of the writer ('# key : value' between dashed rules) is matched "
    "against the reader's regular expressions by inspecting their syntax trees (anchoring, rule detector, first "
    "colon split, key window); dictionary keys are colon-free and values are stored untouched; nrow/ncol come from "
    "data.shape; the options reach DataFrame.to_csv and the header precedes the body on both output paths.  "
    "pandas' own quoting and float formatting are trusted.")

SUFFIXES = [".csv", ".zip", "", ".dat"]


# --------------------------------------------------------------------------- symbolic paths
class SPath:
    """path = parent tokens / name tokens; tokens are literal strings or symbols 'P', 'S', 'X'"""

    def __init__(self, parent, name):
        self.parent, self.name = tuple(parent), tuple(name)

    def full(self):
        return self.parent + ("/",) + self.name

    def __eq__(self, o):
        return isinstance(o, SPath) and norm_tokens(self.full()) == norm_tokens(o.full())


def norm_tokens(t):
    out = []
    for x in t:
        if x == "":
            continue
        if out and not out[-1].startswith("$") and not x.startswith("$"):
            out[-1] += x
        else:
            out.append(x)
    return tuple(out)


def items_of(toks):
    """token tuple -> item list: one item per literal character, one per symbol (symbols hold neither '.' nor '/')"""
    out = []
    for t in toks:
        if t.startswith("$"):
            out.append(t)
        else:
            out.extend(t)
    return out


def tokens_of(items):
    return norm_tokens(tuple(items))


def split_name(name):
    """(stem tokens, suffix string) of a name token tuple, pathlib rule: from the last '.' of the final component,
    unless that dot leads or ends the name"""
    it = items_of(norm_tokens(name))
    if "/" in it:
        raise KeyError("name with a directory separator")
    idx = [k for k, x in enumerate(it) if x == "."]
    if idx and 0 < idx[-1] < len(it) - 1:
        suf = tokens_of(it[idx[-1]:])
        return tokens_of(it[:idx[-1]]), ("".join(suf) if len(suf) == 1 and not suf[0].startswith("$") else suf)
    return tokens_of(it), ""


def suffix_tokens(suf):
    return (suf,) if isinstance(suf, str) else tuple(suf)


def all_suffixes(name):
    """pathlib's .suffixes over items"""
    it = items_of(norm_tokens(name))
    if it and it[-1] == ".":
        return []
    k = 0
    while k < len(it) and it[k] == ".":
        k += 1
    body = it[k:]
    parts, cur = [], []
    for x in body:
        if x == ".":
            parts.append(cur)
            cur = []
        else:
            cur.append(x)
    parts.append(cur)
    return [tokens_of(["."] + p_) for p_ in parts[1:]]


class PathEval:
    """evaluates the pathlib / string expressions used to build file and member names"""

    def __init__(self, env, X):
        self.env, self.X = dict(env), X

    def ev(self, e):
        if isinstance(e, ast.Constant) and isinstance(e.value, str):
            return ("str", (e.value,))
        if isinstance(e, ast.Name):
            if e.id in self.env:
                return self.env[e.id]
            raise KeyError(f"name {e.id}")
        if isinstance(e, ast.JoinedStr):
            toks = ()
            for v in e.values:
                if isinstance(v, ast.Constant):
                    toks += (v.value,)
                else:
                    r = self.ev(v.value)
                    toks += self.as_str(r)
            return ("str", toks)
        if isinstance(e, ast.Attribute):
            b = self.ev(e.value)
            if b[0] != "path":
                raise KeyError(f"attribute {e.attr} of a non-path")
            p = b[1]
            stem, suf = split_name(self.subst(p.name))
            if e.attr == "parent":
                return ("dir", p.parent)
            if e.attr == "name":
                return ("str", p.name)
            if e.attr == "stem":
                return ("str", stem)
            if e.attr == "suffix":
                return ("str", suffix_tokens(suf))
            raise KeyError(f"path attribute {e.attr}")
        if isinstance(e, ast.BinOp) and isinstance(e.op, ast.Div):
            a, b = self.ev(e.left), self.ev(e.right)
            if a[0] == "dir":
                return ("path", SPath(a[1], self.as_str(b)))
            if a[0] == "path":
                return ("path", SPath(a[1].full(), self.as_str(b)))
            raise KeyError("division of a non-path")
        if isinstance(e, ast.BinOp) and isinstance(e.op, ast.Add):
            a, b = self.ev(e.left), self.ev(e.right)
            return ("str", self.as_str(a) + self.as_str(b))
        if isinstance(e, ast.Call):
            d = dotted(e.func)
            if d in ("str",) and len(e.args) == 1:
                return ("str", self.as_str(self.ev(e.args[0])))
            if d in ("Path", "PurePosixPath", "pathlib.Path") and len(e.args) == 1:
                r = self.ev(e.args[0])
                if r[0] == "path":
                    return r
                raise KeyError("Path() of a string")
        raise KeyError(f"expression {ast.unparse(e)[:40]}")

    def subst(self, toks):
        return tuple(self.X if t == "$X" else t for t in toks)

    def as_str(self, r):
        if r[0] == "str":
            return tuple(r[1])
        if r[0] == "path":
            return r[1].full()
        if r[0] == "dir":
            return tuple(r[1])
        raise KeyError("string value")

    def concrete(self, toks):
        return norm_tokens(self.subst(toks))


def len_of(v, pe):
    """length of a string value as a multiset: literal characters under '' and one entry per symbol"""
    if v[0] != "str":
        raise KeyError("len of a non-string")
    out = {}
    for x in items_of(pe.concrete(v[1])):
        k = x if x.startswith("$") else ""
        out[k] = out.get(k, 0) + 1
    return out


def slice_len(it, k):
    """number of leading items of `it` selected by s[:k]; k is a length multiset (negative total = counted from the end).
    Decided only when k, or len(it)+k, is the length of a prefix of `it`"""
    def count(xs):
        out = {}
        for x in xs:
            kk = x if x.startswith("$") else ""
            out[kk] = out.get(kk, 0) + 1
        return out
    k = {a: b for a, b in k.items() if b}
    if not k:
        return 0
    if all(v > 0 for v in k.values()):
        for n in range(len(it) + 1):
            if count(it[:n]) == k:
                return n
        return None
    if all(v < 0 for v in k.values()):
        neg = {a: -b for a, b in k.items()}
        for n in range(len(it) + 1):
            if count(it[n:]) == neg:
                return n
        return None
    return None


def find_assign(fn, name, pred=None):
    out = []
    for n in ast.walk(fn):
        if isinstance(n, ast.Assign) and len(n.targets) == 1 and isinstance(n.targets[0], ast.Name) and n.targets[0].id == name:
            if pred is None or pred(n):
                out.append(n)
    return out


def under_test(node, text):
    p = getattr(node, "_parent", None)
    while p is not None:
        if isinstance(p, ast.If) and text in ast.unparse(p.test) and node_in(node, p.body):
            return True
        p = getattr(p, "_parent", None)
    return False


def node_in(node, body):
    return any(node is x for s in body for x in ast.walk(s))


class _Consts(ast.NodeTransformer):
    """module-level constants (strings, compiled regular expressions) replaced by their value; a method of a compiled pattern
    written as the module function on the pattern"""

    def __init__(self, consts):
        self.consts = consts

    def visit_Name(self, n):
        if isinstance(n.ctx, ast.Load) and n.id in self.consts:
            return copy.deepcopy(self.consts[n.id])
        return n

    def visit_Call(self, n):
        self.generic_visit(n)
        f = n.func
        if isinstance(f, ast.Attribute) and isinstance(f.value, ast.Call) and dotted(f.value.func) == "re.compile" and len(f.value.args) == 1 and \
                not f.value.keywords and f.attr in ("sub", "search", "match", "split", "fullmatch", "findall"):
            return ast.Call(func=ast.Attribute(value=ast.Name(id="re", ctx=ast.Load()), attr=f.attr, ctx=ast.Load()),
                            args=[f.value.args[0]] + list(n.args), keywords=list(n.keywords))
        return n


def _with_consts(node, consts):
    out = _Consts(consts).visit(copy.deepcopy(node))
    ast.fix_missing_locations(out)
    return out


def _numbered_key(k):
    """'comment_' followed by the formatted line counter: "comment_{0:02d}".format(i) or f"comment_{i:02d}" """
    from .. import pq
    if pq.call_named(k, ".format") and len(k[2]) == 2 and k[2][0][0] == 'sym' and re.fullmatch(r"'comment_\{0?(:0?\d*d)?\}'", k[2][0][1]):
        return True
    if pq.call_named(k, "fstr") and len(k[2]) == 2 and k[2][0] == ('sym', "'comment_'"):
        v = k[2][1]
        return not pq.call_named(v, "fmt") or (v[2][1][0] == 'sym' and re.fullmatch(r"'0?\d*d'", v[2][1][1]) is not None)
    return False


def run(rep):
    rel = "io/csv.py"
    mod = Mod(rep.repo, rel)
    rep.rule("R09.a", "zip / archive member written == member read, in a file the reader's name resolution finds (all suffix classes x modes)")
    rep.rule("R09.b", "header lines written are parsed back by the reader's regular expressions; dict keys colon-free, values untouched; nrow/ncol from data.shape")
    rep.rule("R09.c", "write_index, float_format, **kwargs reach DataFrame.to_csv; header written before the body on both paths")
    rep.assume("the target directory holds no other file with the same stem (name resolution takes the first existing candidate)")
    w, r, cn, ch, h2c = (mod.func(x) for x in ("write_csv", "read_csv", "_check_name", "_csvhead", "_header2comment"))
    rep.unit(f"{rel}: write_csv, read_csv, _check_name, _csvhead, _header2comment, write2zip")

    # ---------------- R09.a -------------------------------------------------------------------------------------
    # Both functions are evaluated symbolically (loops over literal lists unrolled); file and member names are then computed in
    # the token algebra above for every suffix class of the file name, and the reader's existence tests are answered by
    # "the file exists iff it is the one the writer created".
    from .. import pq
    from ..formula import show as _show

    class Scen:
        def __init__(self, X, compress, archive, written=None, stem=("$S",), also=()):
            self.X, self.compress, self.archive, self.written, self.stem, self.also = X, compress, archive, written, stem, tuple(also)
            self.pe = PathEval({"filename": ("path", SPath(("$P",), tuple(stem) + ("$X",)))}, X)

    def xev(e, sc):
        pe = sc.pe
        if e[0] == 'sym':
            if e[1] == 'filename':
                return pe.env["filename"]
            if e[1][:1] in ("'", '"'):
                return ("str", (e[1][1:-1],))
            raise KeyError(f"name {e[1]}")
        if e[0] == 'where':
            c = xcond(e[1], sc)
            if c is None:
                raise KeyError("undecided conditional")
            return xev(e[2] if c else e[3], sc)
        if e[0] == 'call' and e[1] in ("f:Path", "f:PurePosixPath", "f:PurePath", "f:pathlib.Path") and len(e[2]) == 1:
            r = xev(e[2][0], sc)
            if r[0] == "path":
                return r
            raise KeyError("Path() of a string")
        if e[0] == 'call' and e[1].startswith("attr:") and len(e[2]) == 1:
            b_ = xev(e[2][0], sc)
            if b_[0] != "path":
                raise KeyError("attribute of a non-path")
            p_ = b_[1]
            stem, suf = split_name(pe.subst(p_.name))
            at = e[1][5:]
            if at == "parent":
                return ("dir", p_.parent)
            if at == "name":
                return ("str", p_.name)
            if at == "stem":
                return ("str", stem)
            if at == "suffix":
                return ("str", suffix_tokens(suf))
            if at == "suffixes":
                return ("strs", all_suffixes(pe.subst(p_.name)))
            raise KeyError(f"path attribute {at}")
        if e[0] == 'div':
            a_, b_ = xev(e[1], sc), xev(e[2], sc)
            if a_[0] == "dir":
                return ("path", SPath(a_[1], pe.as_str(b_)))
            if a_[0] == "path":
                return ("path", SPath(a_[1].full(), pe.as_str(b_)))
            raise KeyError("division of a non-path")
        if e[0] == 'add':
            return ("str", pe.as_str(xev(e[1], sc)) + pe.as_str(xev(e[2], sc)))
        if e[0] == 'call' and e[1] == 'fstr':
            toks = ()
            for part in e[2]:
                toks += pe.as_str(xev(part, sc))
            return ("str", toks)
        if e[0] == 'call' and e[1] == 'py.str' and len(e[2]) >= 1:
            return ("str", pe.as_str(xev(e[2][0], sc)))
        if e[0] == 'call' and e[1] == '.with_suffix' and len(e[2]) == 2:
            b_ = xev(e[2][0], sc)
            suf = pe.as_str(xev(e[2][1], sc))
            stem, _old = split_name(pe.subst(b_[1].name))
            return ("path", SPath(b_[1].parent, tuple(stem) + tuple(suf)))
        if e[0] == 'call' and e[1] == '.join' and len(e[2]) == 2:
            sep, lst = xev(e[2][0], sc), xev(e[2][1], sc)
            if lst[0] != "strs":
                raise KeyError("join of a non-list")
            toks = ()
            for k, x in enumerate(lst[1]):
                toks += (pe.as_str(sep) if k else ()) + tuple(x)
            return ("str", toks)
        if e[0] == 'call' and e[1] in ('.split', '.rsplit') and len(e[2]) in (2, 3):
            it = items_of(pe.concrete(pe.as_str(xev(e[2][0], sc))))
            sep = pe.concrete(pe.as_str(xev(e[2][1], sc)))
            if len(sep) != 1 or len(sep[0]) != 1 or sep[0].startswith("$"):
                raise KeyError("split on a non-character")
            parts, cur = [], []
            for x in it:
                if x == sep[0]:
                    parts.append(cur)
                    cur = []
                else:
                    cur.append(x)
            parts.append(cur)
            if len(e[2]) == 3:
                if e[2][2][0] != 'num':
                    raise KeyError("split count")
                n_ = int(e[2][2][1])
                if e[1] == '.rsplit' and len(parts) > n_ + 1:
                    head = parts[:len(parts) - n_]
                    j = []
                    for k, h in enumerate(head):
                        j += ([sep[0]] if k else []) + h
                    parts = [j] + parts[len(parts) - n_:]
                elif e[1] == '.split' and len(parts) > n_ + 1:
                    tail = parts[n_:]
                    j = []
                    for k, h in enumerate(tail):
                        j += ([sep[0]] if k else []) + h
                    parts = parts[:n_] + [j]
            return ("strs", [tokens_of(p_) for p_ in parts])
        if e[0] == 'call' and e[1] == '.splitext' and len(e[2]) == 2:
            toks = pe.concrete(pe.as_str(xev(e[2][1], sc)))
            it = items_of(toks)
            base = it[len(it) - it[::-1].index("/"):] if "/" in it else it
            stem, suf = split_name(tokens_of(base))
            head = it[:len(it) - len(base)]
            return ("strs", [tokens_of(head + items_of(stem)), suffix_tokens(suf) if suf != "" else ()])
        if e[0] == 'call' and e[1] == 'shape' and len(e[2]) == 2 and e[2][1] == ('num', 0):
            return ("len", len_of(xev(e[2][0], sc), pe))
        if e[0] == 'neg':
            a_ = xev(e[1], sc)
            if a_[0] == "len":
                return ("len", {k: -v for k, v in a_[1].items()})
        if e[0] in ('sub', 'add') and True:
            a_, b_ = xev(e[1], sc), xev(e[2], sc)
            if a_[0] == "len" and b_[0] == "len":
                out = dict(a_[1])
                for k, v in b_[1].items():
                    out[k] = out.get(k, 0) + (v if e[0] == 'add' else -v)
                return ("len", {k: v for k, v in out.items() if v})
            if e[0] == 'add':
                return ("str", pe.as_str(a_) + pe.as_str(b_))
        if e[0] == 'num':
            return ("len", {"": int(e[1])} if e[1] else {})
        if e[0] == 'call' and e[1] == 'getitem' and len(e[2]) == 2:
            base, ix = xev(e[2][0], sc), e[2][1]
            if base[0] == "strs":
                if ix[0] == 'num' and -len(base[1]) <= int(ix[1]) < len(base[1]):
                    return ("str", tuple(base[1][int(ix[1])]))
                raise KeyError("list index")
            if base[0] == "str" and pq.call_named(ix, "slice") and ix[2][0] == ('sym', 'None') and ix[2][2] == ('sym', 'None'):
                it = items_of(pe.concrete(base[1]))
                k = xev(ix[2][1], sc)
                if k[0] != "len":
                    raise KeyError("slice bound")
                n_ = slice_len(it, k[1])
                if n_ is None:
                    raise KeyError("slice bound not a prefix length of the string")
                return ("str", tokens_of(it[:n_]))
            raise KeyError("subscript")
        raise KeyError(f"expression {_show(e)[:50]}")

    def xcond(c, sc):
        if c[0] == 'not':
            r = xcond(c[1], sc)
            return None if r is None else not r
        if c[0] in ('and', 'or'):
            a_, b_ = xcond(c[1], sc), xcond(c[2], sc)
            if c[0] == 'and':
                if a_ is False or b_ is False:
                    return False
                return True if (a_ is True and b_ is True) else None
            if a_ is True or b_ is True:
                return True
            return False if (a_ is False and b_ is False) else None
        if c[0] == 'where':
            t_ = xcond(c[1], sc)
            if t_ is None:
                a_, b_ = xcond(c[2], sc), xcond(c[3], sc)
                return a_ if a_ == b_ else None
            return xcond(c[2] if t_ else c[3], sc)
        if c in (('sym', 'True'), ('sym', 'False')):
            return c[1] == 'True'
        if c[0] == 'num':
            return bool(c[1])
        if c == ('sym', 'compress'):
            return sc.compress
        if c == ('sym', 'archive'):
            return sc.archive
        if c[0] == 'call' and c[1] == 'is' and c[2][0] == ('sym', 'archive') and c[2][1] == ('sym', 'None'):
            return not sc.archive
        if c[0] == 'cmp' and c[1] in ('==', '!='):
            try:
                a_ = sc.pe.concrete(sc.pe.as_str(xev(c[2], sc)))
                b_ = sc.pe.concrete(sc.pe.as_str(xev(c[3], sc)))
            except KeyError:
                return None
            return (a_ == b_) if c[1] == '==' else (a_ != b_)
        if c[0] == 'call' and c[1] == '.exists' and sc.written is not None:
            try:
                p_ = xev(c[2][0], sc)
            except KeyError:
                return None
            if p_[0] != "path":
                return None
            here = norm_tokens(sc.pe.subst(p_[1].full()))
            return here == sc.written or here in sc.also
        return None

    def consistent(path, sc):
        for c, t in path.conds:
            r = xcond(c, sc)
            if r is not None and r != t:
                return False
        return True

    def zip_calls(e):
        return pq.find(e, lambda x: pq.call_named(x, ".ZipFile") and len(x[2]) >= 2)

    wpe = pq.PEval()
    wpe.unroll_const = True
    rpe = pq.PEval()
    rpe.unroll_const = True
    rpe.maxpaths = 4000
    # helpers the normaliser could not inline (several returns) are expanded path-wise at their call sites
    called = {n.func.id for f in (w, r) for n in ast.walk(f) if isinstance(n, ast.Call) and isinstance(n.func, ast.Name)}
    helpers = {}
    for f in mod.tree.body:
        if isinstance(f, ast.FunctionDef) and f.name in called and f.name.startswith("_"):
            loops = [n for n in ast.walk(f) if isinstance(n, (ast.While, ast.For)) and not (isinstance(n, ast.For) and isinstance(n.iter, (ast.List, ast.Tuple)))]
            probe = pq.PEval()
            probe.unroll_const = True
            try:
                small = len(probe.run(f)) <= 12
            except Exception:
                small = False
            if small and not loops:
                helpers[f.name] = f
    wpe.inline = rpe.inline = helpers
    wpaths = wpe.run(w)
    rpaths = rpe.run(r)
    cnp = pq.PEval()
    cnp.unroll_const = True
    early = any(p_.how == "return" and pq.cond_truth(p_.conds, ('call', '.exists', (p_.value,))) is True for p_ in cnp.run(cn))
    rep.check(early, "R09.a", rel, "_check_name", "an existing file name is used as given", "", line=cn.lineno)

    def written_by(sc):
        """(zip path tokens | None, member tokens) of every archive write on the paths of write_csv consistent with the scenario"""
        out = set()
        for p_ in wpaths:
            if p_.how not in ("end", "return") or not consistent(p_, sc):
                continue
            for e in p_.effects:
                if e.kind != 'call' or e.val is None:
                    continue
                v = e.val
                if pq.call_named(v, "f:write2zip") and len(v[2]) == 3:
                    arch, name = v[2][0], v[2][1]
                elif pq.call_named(v, ".writestr") and len(v[2]) >= 3:
                    arch, name = v[2][0], v[2][1]
                else:
                    continue
                zc = zip_calls(arch)
                zp = norm_tokens(sc.pe.subst(xev(zc[0][2][1], sc)[1].full())) if zc else None
                out.add((zp, sc.pe.concrete(sc.pe.as_str(xev(name, sc)))))
        return out

    def read_by(sc):
        """(zip path tokens | None, member tokens) of every archive read on the returning paths of read_csv consistent with the scenario"""
        out = set()
        raised = 0
        for p_ in rpaths:
            if not consistent(p_, sc):
                continue
            if p_.how == "raise":
                raised += 1
                continue
            if p_.how != "return":
                continue
            pool = [v for v in p_.env.values() if isinstance(v, tuple)] + [e.val for e in p_.effects if e.val is not None]
            reads = pq.find(('tuple', tuple(pool)), lambda x: pq.call_named(x, ".read") and len(x[2]) == 2)
            for rd in reads:
                zc = zip_calls(rd[2][0])
                zp = norm_tokens(sc.pe.subst(xev(zc[0][2][1], sc)[1].full())) if zc else None
                if zc or rd[2][0] == ('sym', 'archive'):
                    out.add((zp, sc.pe.concrete(sc.pe.as_str(xev(rd[2][1], sc)))))
        return out, raised
    nsc = 0
    STEMS = [("$S",), ("$A", ".", "$B")]
    for X, stem in [(x_, s_) for x_ in SUFFIXES for s_ in STEMS]:
        sc = Scen(X, True, False, stem=stem)
        label = f"stem {show(stem)}, suffix '{X or '<none>'}', compress=True"
        try:
            wr = written_by(sc)
            if len(wr) != 1 or next(iter(wr))[0] is None:
                rep.undecided("R09.a", rel, "write_csv", f"{label}: archive write", f"{len(wr)} distinct (file, member) pairs on the consistent paths", line=w.lineno)
                continue
            zp, member_w = next(iter(wr))
            sc2 = Scen(X, True, False, written=zp, stem=stem)
            rd, raised = read_by(sc2)
            nsc += 1
            found = {x for x in rd if x[0] == zp}
            if not found:
                rep.violation("R09.a", rel, "_check_name", f"{label}: written file is found",
                              f"write_csv writes {show(zp)} but read_csv opens {[show(x[0]) if x[0] else None for x in rd] or 'nothing'} "
                              f"({raised} consistent path(s) raise)", line=cn.lineno)
                continue
            rep.proved("R09.a", rel, "_check_name", f"{label}: written file is found", show(zp), line=cn.lineno)
            if X == "":
                # a plain file left by an earlier, uncompressed write of the same name must not shadow the archive just written
                stale = norm_tokens(sc.pe.subst(("$P", "/") + tuple(stem) + (".csv",)))
                sc3 = Scen(X, True, False, written=zp, stem=stem, also=(stale,))
                rd3, _r3 = read_by(sc3)
                rep.check(any(x[0] == zp for x in rd3), "R09.a", rel, "_check_name", f"{label}: the archive is found before a stale plain file of the same stem",
                          f"with {show(stale)} present the reader opens {[show(x[0]) if x[0] else 'a plain file' for x in rd3] or 'a plain file'} instead of {show(zp)}", line=cn.lineno)
            members_r = {x[1] for x in found}
            rep.check(members_r == {member_w}, "R09.a", rel, "read_csv", f"{label}: zip member read == member written",
                      f"written `{show(member_w)}`, read {[show(m_) for m_ in members_r]}", line=r.lineno)
        except KeyError as ex:
            rep.undecided("R09.a", rel, "write_csv/read_csv", f"{label}: name algebra", f"outside the path vocabulary: {ex}", line=w.lineno)
    for X, stem in [(x_, s_) for x_ in (".csv", "") for s_ in STEMS]:
        for comp in (False, True):
            sc = Scen(X, comp, True, stem=stem)
            label = f"stem {show(stem)}, suffix '{X or '<none>'}', archive mode" + (" (compress requested too)" if comp else "")
            try:
                wr = written_by(sc)
                rd, _raised = read_by(sc)
                nsc += 1
                okw = len(wr) == 1 and next(iter(wr))[0] is None
                rep.check(okw and {x[1] for x in rd} == {next(iter(wr))[1]} and all(x[0] is None for x in rd), "R09.a", rel, "read_csv",
                          f"{label}: member read from the caller's archive == member written to it (no zip file of its own)",
                          f"written {[(show(a_) if a_ else None, show(b_)) for a_, b_ in wr]}, read {[(show(a_) if a_ else None, show(b_)) for a_, b_ in rd]}", line=r.lineno)
            except KeyError as ex:
                rep.undecided("R09.a", rel, "write_csv/read_csv", label, str(ex), line=w.lineno)
    rep.floor("name scenarios evaluated", nsc, 12)

    # ---------------- R09.b header grammar -----------------------------------------------------------------------------------
    from .. import pq
    from ..formula import show as _show, num as _num
    hpe = pq.PEval()
    hpaths = [p_ for p_ in hpe.run(ch) if p_.how == "return"]
    if not hpaths:
        raise AnalysisError(f"{rel}: _csvhead: no returning path")

    def literal_prefix(e):
        """leading literal text of a line expression (f-string / concatenation / constant)"""
        if e[0] == 'sym' and e[1][:1] in ("'", '"'):
            return e[1][1:-1]
        if pq.call_named(e, "fstr") and e[2] and e[2][0][0] == 'sym' and e[2][0][1][:1] in ("'", '"'):
            return e[2][0][1][1:-1]
        if e[0] == 'add':
            return literal_prefix(e[1])
        return None
    nlines, okrule, oknrow = 0, True, True
    others = {}
    segs = []
    pn = [a.arg for a in ch.args.args]
    for p_ in hpaths:
        v = p_.value
        if not (isinstance(v, tuple) and v[0] == 'tuple' and len(v[1]) >= 4):
            raise AnalysisError(f"{rel}: _csvhead: returned header is not a list built in the function")
        lines = v[1]
        nlines = max(nlines, len(lines))
        first, last = literal_prefix(lines[0]), literal_prefix(lines[-1])
        okrule = okrule and first is not None and last is not None and bool(re.fullmatch(r"# -{10,}", first)) and bool(re.fullmatch(r"# -{10,}", last)) and \
            lines[0][0] == 'sym' and lines[-1][0] == 'sym'
        oknrow = oknrow and any(pq.same(x, ('call', 'fstr', (('sym', "'# nrow : '"), ('sym', pn[0])))) for x in lines) and \
            any(pq.same(x, ('call', 'fstr', (('sym', "'# ncol : '"), ('sym', pn[1])))) for x in lines)
        for x in lines[1:-1]:
            if pq.call_named(x, "seg"):
                segs += [(y[2][0] if pq.call_named(y, "map") else y) for y in x[2]]
                continue
            lp = literal_prefix(x)
            if lp is None or not re.match(r"# [A-Za-z_]+ : ", lp):
                others[_show(x)[:60]] = x
    rep.floor("header lines built by _csvhead", nlines, 8)
    rep.check(okrule, "R09.b", rel, "_csvhead", "header opens and closes with a dashed rule of >= 10 dashes", "", line=ch.lineno)
    for o in sorted(others):
        if "python_environment" in o:
            rep.assumed("R09.b", rel, "_csvhead", "line `# python_environment ..`", "system-info line without colon: read back as comment_NN (not a caller-supplied comment)", line=ch.lineno)
        else:
            rep.violation("R09.b", rel, "_csvhead", f"line `{o}`", "not of the form '# key : value': the reader cannot split it", line=ch.lineno)
    rep.check(oknrow and pn[:2] == ["nrow", "ncol"], "R09.b", rel, "_csvhead", "'# nrow : {nrow}' and '# ncol : {ncol}' lines", "", line=ch.lineno)
    # comment lines: '# ' key ' : ' value with the value looked up under that key
    okseg = bool(segs)
    def _pair_of_items(k_, v_):
        """key and value are the two halves of one item of `<dict>.items()` (sorted or not)"""
        if not (pq.call_named(k_, "getitem") and pq.call_named(v_, "getitem") and pq.same(k_[2][1], "0") and pq.same(v_[2][1], "1") and pq.same(k_[2][0], v_[2][0])):
            return False
        src = k_[2][0]
        if not pq.call_named(src, "elem"):
            return False
        src = src[2][0]
        while pq.call_named(src, "py.sorted") or pq.call_named(src, "py.list"):
            if len(src) > 3:
                return False
            src = src[2][0]
        return pq.call_named(src, ".items") and len(src[2]) == 1
    for x in segs:
        okseg = okseg and pq.call_named(x, "fstr") and len(x[2]) == 4 and x[2][0] == ('sym', "'# '") and x[2][2] == ('sym', "' : '") and \
            ((pq.call_named(x[2][3], "getitem") and pq.same(x[2][3][2][1], x[2][1])) or _pair_of_items(x[2][1], x[2][3]))
    rep.check(okseg, "R09.b", rel, "_csvhead", "comment lines are '# <key> : <comments[key]>'", "", line=ch.lineno)
    # nrow / ncol passed by the writer
    call = [n for n in ast.walk(w) if isinstance(n, ast.Call) and dotted(n.func) == "_csvhead"]
    okn = False
    if call:
        wargs = pq.call_arguments(w, call[0], pn)
        nr_, nc_ = wargs.get("nrow"), wargs.get("ncol")
        okn = pq.call_named(nr_, "shape") and pq.call_named(nc_, "shape") and pq.same(nr_[2][1], "0") and pq.same(nc_[2][1], "1") and \
            pq.same(nr_[2][0], nc_[2][0]) and pq.mentions(nr_[2][0], lambda e: e == ('sym', 'data'))
    rep.check(okn, "R09.b", rel, "write_csv", "nrow, ncol = data.shape[0], data.shape[1]", "", line=w.lineno)
    # dict comments: key = the caller's key with colons removed and lower-cased, value untouched
    okd, det = False, "dict branch not found"
    dstores = []
    for tag, p_ in getattr(hpe, "loop_paths", []):
        if pq.cond_truth(p_.conds, "isinstance(comment, dict)") is True:
            dstores += [e for e in p_.effects if e.kind == 'store']
    dmaps = []
    for p_ in hpaths:
        if pq.cond_truth(p_.conds, "isinstance(comment, dict)") is True:
            for nm, val in p_.env.items():
                if isinstance(val, tuple) and pq.call_named(val, "dictmap"):
                    dmaps.append(val)
    cands = [(e.key, e.val) for e in dstores] + [(m[2][0], m[2][1]) for m in dmaps]
    for k_, v_ in cands:
        subs = pq.find(k_, lambda x: pq.call_named(x, ".sub") and x[2][0] == ('sym', 're') and x[2][1] == ('sym', "':'") and x[2][2] == ('sym', "''"))
        K0 = subs[0][2][3] if subs else None
        key_ok = K0 is not None and (pq.call_named(K0, "elem") or pq.call_named(K0, "getitem"))
        val_ok = K0 is not None and (pq.same(v_, ('call', 'getitem', (('sym', 'comment'), K0))) or
                                     (pq.call_named(K0, "getitem") and pq.call_named(v_, "getitem") and pq.same(K0[2][0], v_[2][0]) and pq.same(v_[2][1], "1")))
        okd = key_ok and val_ok
        det = f"key `{_show(k_)[:80]}` (colons removed: {key_ok}); value `{_show(v_)[:60]}` (untouched: {val_ok})"
    rep.check(okd, "R09.b", rel, "_csvhead", "dict comments: colon-free lower-case key, value stored unchanged", det, line=ch.lineno)
    # reader regular expressions (syntax trees)
    import re._parser as sp

    def regex_strip_issues(pat):
        tree = sp.parse(pat)
        alts = [list(tree)]
        if len(tree) == 1 and str(tree[0][0]) == "BRANCH":
            alts = [list(a) for a in tree[0][1][1]]
        bad = []
        for a in alts:
            has_hash = any(str(op) == "LITERAL" and av == ord("#") for op, av in a)
            anchored = bool(a) and str(a[0][0]) == "AT" and str(a[0][1]) == "AT_BEGINNING"
            if has_hash and not anchored:
                bad.append("alternative matching '#' is not anchored at the beginning of the line")
            has_nl = any(str(op) == "LITERAL" and av == 10 for op, av in a)
            if has_nl and not (str(a[-1][0]) == "AT" and str(a[-1][1]) == "AT_END"):
                bad.append("alternative matching the newline is not anchored at the end")
            if not has_hash and not has_nl:
                bad.append("alternative strips something else than the leading '# ' or the final newline")
        return bad
    # what is appended to the header list for a line: a chain of clean-up operations applied to the line read
    apps = [n for n in ast.walk(r) if isinstance(n, ast.Call) and isinstance(n.func, ast.Attribute) and n.func.attr == "append" and len(n.args) == 1 and
            any(isinstance(x, ast.Name) and x.id == "line" for x in ast.walk(n.args[0]))]
    # positive refutation: header / data separated by FILTERING every line of the file on its first character (a comprehension or filter()
    # with a startswith('#') test over readlines() / the file object): a data row whose first field starts with '#' joins the header
    def _whole_file(e):
        if isinstance(e, ast.Name):
            b_ = [n.value for n in ast.walk(r) if isinstance(n, ast.Assign) and any(isinstance(t, ast.Name) and t.id == e.id for t in n.targets)]
            return len(b_) == 1 and _whole_file(b_[0]) if b_ else any(a.arg == e.id for a in r.args.args) and False
        if isinstance(e, ast.Call):
            d_ = ast.unparse(e.func)
            if d_.endswith(".readlines") or d_.endswith(".splitlines") or (d_.endswith(".split") and ".read()" in d_):
                return True
            if d_ in ("list", "tuple", "iter") and len(e.args) == 1:
                return _whole_file(e.args[0]) or (isinstance(e.args[0], ast.Name) and e.args[0].id in ("fobj", "fo", "f"))
        return False
    filt = []
    for n in ast.walk(r):
        if isinstance(n, (ast.ListComp, ast.GeneratorExp, ast.SetComp)):
            for g in n.generators:
                if _whole_file(g.iter) and any("startswith" in ast.unparse(c_) and "'#'" in ast.unparse(c_) for c_ in g.ifs):
                    filt.append(n)
        elif isinstance(n, ast.Call) and ast.unparse(n.func) == "filter" and len(n.args) == 2 and _whole_file(n.args[1]) and "startswith" in ast.unparse(n.args[0]) and "'#'" in ast.unparse(n.args[0]):
            filt.append(n)
    rep.check(not filt, "R09.b", rel, "read_csv", "the header is the LEADING run of '#' lines: no selection of '#' lines over the whole file",
              f"`{ast.unparse(filt[0])[:90]}` filters every line of the file: a data row starting with '#' (an unquoted text field) is taken out of the table" if filt else "",
              line=filt[0].lineno if filt else r.lineno, firm=True)
    if not apps:
        if filt:
            return EXPLANATION
        raise AnalysisError(f"{rel}: read_csv: header strip expression not found")
    WS = set(" \t\r\n\f\v")
    for ap in apps:
        e = _with_consts(ap.args[0], mod.consts)
        bad, und, ops = [], [], []
        removes_hash = False
        while not (isinstance(e, ast.Name) and e.id == "line"):
            if isinstance(e, ast.Call) and dotted(e.func) == "re.sub" and len(e.args) == 3 and isinstance(const_value(e.args[0]), str):
                if const_value(e.args[1]) != "":
                    bad.append("re.sub replaces with a non-empty string")
                iss = regex_strip_issues(const_value(e.args[0]))
                bad += iss
                removes_hash = removes_hash or "#" in const_value(e.args[0])
                ops.append(f"re.sub({const_value(e.args[0])!r})")
                e = e.args[2]
            elif isinstance(e, ast.Call) and isinstance(e.func, ast.Attribute) and e.func.attr in ("strip", "lstrip", "rstrip") and len(e.args) <= 1:
                chars = const_value(e.args[0]) if e.args else None
                if e.args and not isinstance(chars, str):
                    und.append("strip characters are not a literal")
                    break
                cs = WS if chars is None else set(chars)
                side = e.func.attr
                if side in ("strip", "rstrip") and not cs <= WS:
                    bad.append(f".{side}({chars!r}) also removes {sorted(cs - WS)} from the END of the line (a value ending with them is altered)")
                if side in ("strip", "lstrip") and not cs <= (WS | {"#"}):
                    bad.append(f".{side}({chars!r}) removes {sorted(cs - WS - {'#'})} from the beginning of the line")
                removes_hash = removes_hash or (side in ("strip", "lstrip") and "#" in cs)
                ops.append(f".{side}({chars!r})" if chars is not None else f".{side}()")
                e = e.func.value
            elif isinstance(e, ast.Call) and isinstance(e.func, ast.Attribute) and e.func.attr in ("removeprefix",) and len(e.args) == 1 and const_value(e.args[0]) in ("#", "# "):
                removes_hash = True
                ops.append(".removeprefix")
                e = e.func.value
            else:
                und.append(f"clean-up step outside the vocabulary: {ast.unparse(e)[:60]}")
                break
        cons = "header line clean-up removes only the leading '#' / blanks and trailing white space"
        if und:
            rep.undecided("R09.b", rel, "read_csv", cons, und[0], line=ap.lineno)
        else:
            rep.check(not bad and removes_hash, "R09.b", rel, "read_csv", cons, "; ".join(bad) or ("the leading '#' is not removed" if not removes_hash else " ".join(ops)), line=ap.lineno)
    loopcond = [n for n in ast.walk(r) if isinstance(n, ast.While) and 'startswith' in ast.unparse(n.test)]
    rep.check(bool(loopcond) and "'#'" in ast.unparse(loopcond[0].test), "R09.b", rel, "read_csv", "header = leading lines starting with '#'", "", line=r.lineno)
    # _header2comment: one symbolic line E through the loop body
    rpe = pq.PEval()
    rpe.run(h2c)
    lps = [p_ for tag, p_ in getattr(rpe, "loop_paths", [])]
    E = None
    for p_ in lps:
        for c, t in p_.conds:
            f_ = pq.find(c, lambda x: pq.call_named(x, "elem"))
            if f_:
                E = f_[0]
    if E is None:
        raise AnalysisError(f"{rel}: _header2comment: loop over the header lines not found")
    rules = set()
    for p_ in lps:
        for c, t in pq.flat_conds(p_.conds):
            if pq.pq_is_match(c) and pq.same(c[2][2], E) and c[2][1][0] == 'sym':
                rules.add(c[2][1][1].strip("'\""))
    okrd = False
    for r_ in rules:
        m = re.fullmatch(r"-\{(\d+)\}", r_)
        if m and int(m.group(1)) <= 50:
            okrd = True
            RULE = ('call', '.search', (('sym', 're'), ('sym', repr(r_)), E))
    rep.check(okrd, "R09.b", rel, "_header2comment", "dashed rules (>= N dashes, N <= 50 written) are skipped", str(sorted(rules)), line=h2c.lineno)
    stores = [(p_, e) for p_ in lps for e in p_.effects if e.kind == 'store']
    WIN = ('call', '.search', (('sym', 're'), ('sym', "':'"), ('call', 'getitem', (E, ('call', 'slice', (('sym', 'None'), ('sym', 'KEY_LENGTH_MAX'), ('sym', 'None')))))))
    RAW = ('call', '.sub', (('sym', 're'), ('sym', "':.*$'"), ('sym', "''"), E))
    KEYED_KEY = ('call', '.sub', (('sym', 're'), ('sym', "' +'"), ('sym', "'_'"), ('call', '.lower', (('call', '.strip', (RAW,)),))))
    KEYED_VAL = ('call', '.strip', (('call', 'getitem', (E, ('call', 'slice', (('add', ('call', 'shape', (RAW, _num(0))), _num(1)), ('sym', 'None'), ('sym', 'None'))))),))
    okks = okvs = okkn = okfree = okskip = bool(stores) and okrd
    nkeyed = nfree = 0
    for p_, e in stores:
        fc = pq.flat_conds(p_.conds)
        if okrd and pq.cond_truth(fc, RULE) is not False:
            okskip = False
        win = pq.cond_truth(fc, WIN)
        if win is True:
            nkeyed += 1
            okkn = okkn and pq.same(e.key, KEYED_KEY)
            okvs = okvs and pq.same(e.val, KEYED_VAL)
            okks = okks and bool(pq.find(e.key, lambda x: pq.same(x, RAW)))
        elif win is False:
            nfree += 1
            okfree = okfree and pq.same(e.val, E) and _numbered_key(e.key)
        else:
            okks = okvs = okkn = okfree = False
        if pq.cond_truth(fc, ('cmp', '!=', e.val, ('sym', "''"))) is not True:
            okvs = False
    rep.check(okskip, "R09.b", rel, "_header2comment", "nothing is stored for a dashed rule line", "", line=h2c.lineno)
    rep.check(okks and nkeyed >= 1, "R09.b", rel, "_header2comment", "key = text before the first colon (when a colon lies in the key window)", "", line=h2c.lineno)
    rep.check(okvs and nkeyed >= 1, "R09.b", rel, "_header2comment", "value = text after the first colon, stripped; empty values are not stored", "", line=h2c.lineno)
    rep.check(okkn and nkeyed >= 1, "R09.b", rel, "_header2comment", "key normalised: strip, lower, blanks -> '_' (identity on the writer's keys)", "", line=h2c.lineno)
    rep.check(okfree and nfree >= 1, "R09.b", rel, "_header2comment", "lines without a colon in the key window are kept whole under a numbered comment key", "", line=h2c.lineno)
    kl = [n for n in mod.tree.body if isinstance(n, ast.Assign) and isinstance(n.targets[0], ast.Name) and n.targets[0].id == "KEY_LENGTH_MAX"]
    okkl = bool(kl) and isinstance(const_value(kl[0].value), int) and const_value(kl[0].value) >= 27
    rep.check(okkl, "R09.b", rel, "csv", "key window KEY_LENGTH_MAX reaches the colon written after a key of 25 characters (`key :` -> colon at index len(key) + 1 < window)",
              f"KEY_LENGTH_MAX = {const_value(kl[0].value) if kl else None}", line=kl[0].lineno if kl else 1)

    # ---------------- R09.c -------------------------------------------------------------------------------------------------------
    # decided on the evaluated paths of write_csv: the effects of a path are in execution order
    def is_head(x):
        return pq.call_named(x, "f:_csvhead") or x == ('sym', 'head')

    NL = ('sym', "'\\n'")

    def line_of_head(x):
        return x[0] == 'add' and pq.call_named(x[1], "elem") and is_head(x[1][2][0]) and x[2] == NL

    def joined_head(x):
        return pq.call_named(x, ".join") and x[2][0] == NL and is_head(x[2][1])

    def header_write(e, F):
        """True: the call effect writes every header line, newline-terminated, to F; None: writes to F something else; False: unrelated"""
        v = e.val
        if e.kind != 'call' or v is None or v[0] != 'call' or len(v[2]) < 1:
            return False
        if v[1] in ('.write', '.writelines') and len(v[2]) == 2 and v[2][0] == F:
            a_ = v[2][1]
            if v[1] == '.write' and e.loops and line_of_head(a_):
                return True
            if v[1] == '.writelines' and pq.call_named(a_, "map") and line_of_head(a_[2][0]) and is_head(a_[2][1]):
                return True
            if v[1] == '.write' and not e.loops and a_[0] == 'add' and joined_head(a_[1]) and a_[2] == NL:
                return True
            return None
        if v[1] == 'f:print' and pq.kw_of(v, 'file') == F:
            return None
        return False

    def concat_parts(x):
        return concat_parts(x[1]) + concat_parts(x[2]) if x[0] == 'add' else [x]

    def to_csv_ok(v):
        D = ('sym', 'data')
        recv = v[2][0] if pq.call_named(v, ".to_csv") else None
        return recv is not None and (recv == D or (pq.call_named(recv, ".DataFrame") and recv[2][1:] == (D,)) or (pq.call_named(recv, ".to_frame") and recv[2] == (D,))) and pq.kw_of(v, 'index') == ('sym', 'write_index') and \
            pq.kw_of(v, 'float_format') == ('sym', 'float_format') and pq.kw_of(v, '**') == ('sym', 'kwargs')

    cpe = pq.PEval(ignore_calls=("warnings.warn",))
    cpe.unroll_const = True
    cpe.record = {".to_csv"}
    cpe.inline = helpers
    cpaths = cpe.run(w)
    nplain = nmem = 0
    okopt = okorder = okmem = True
    det_o = det_m = ""
    und = []
    for p_ in cpaths:
        if p_.how not in ("end", "return"):
            continue
        tcs = [(k, e) for k, e in enumerate(p_.effects) if e.kind == 'call' and pq.call_named(e.val, ".to_csv")]
        plain = consistent(p_, Scen(".csv", False, False))
        mem = consistent(p_, Scen(".csv", True, False)) or consistent(p_, Scen(".csv", False, True))
        if not (plain or mem):
            continue
        if len(tcs) != 1:
            okopt = False
            continue
        k0, tc = tcs[0]
        okopt = okopt and to_csv_ok(tc.val)
        F = tc.val[2][1] if len(tc.val[2]) > 1 else ('sym', 'None')
        if plain:
            nplain += 1
            hw = [(k, header_write(e, F)) for k, e in enumerate(p_.effects)]
            if any(h is None for _k, h in hw):
                und.append(f"line {[p_.effects[k].line for k, h in hw if h is None][0]}: a write to the output stream that is not one of the header idioms")
                continue
            good = [k for k, h in hw if h is True]
            if not (len(good) == 1 and good[0] < k0 and pq.call_named(F, "f:open")):
                okorder = False
                det_o = f"header writes at effect positions {good}, table at {k0}, stream {_show(F)[:60]}"
        if mem and not plain:
            nmem += 1
            z = [e.val for e in p_.effects if e.kind == 'call' and (pq.call_named(e.val, "f:write2zip") or pq.call_named(e.val, ".writestr"))]
            if len(z) != 1 or F != ('sym', 'None'):
                okmem = False
                det_m = f"{len(z)} archive write(s); to_csv target {_show(F)[:40]}"
                continue
            parts = concat_parts(z[0][2][2])
            if not (len(parts) == 3 and joined_head(parts[0]) and parts[1] == NL and parts[2] == tc.val):
                okmem = False
                det_m = _show(z[0][2][2])[:200]
    for u in sorted(set(und)):
        rep.undecided("R09.c", rel, "write_csv", "plain file: header lines written before the table", u, line=w.lineno)
    rep.check(okopt and nplain + nmem >= 2, "R09.c", rel, "write_csv", "data.to_csv(.., index=write_index, float_format=float_format, **kwargs) exactly once on every path",
              "", line=w.lineno)
    if not und:
        rep.check(okorder and nplain >= 1, "R09.c", rel, "write_csv", "plain file: every header line, newline-terminated, is written to the opened file before the table",
                  det_o, line=w.lineno)
    rep.check(okmem and nmem >= 1, "R09.c", rel, "write_csv", "zip / archive: stored text = header lines joined by newlines + newline + table text",
              det_m, line=w.lineno)
    # reader: the table is parsed with the caller's options only (a `comment="#"` or similar added on the way truncates text cells)
    rdp = pq.PEval(ignore_calls=("warnings.warn",))
    rdp.unroll_const = True
    rdp.maxpaths = 4000
    rdp.inline = helpers
    added = []
    for p_ in rdp.run(r):
        for e in p_.effects:
            if e.kind == 'store' and e.target == 'kwargs':
                added.append(f"kwargs[{_show(e.key)[:30]}] = {_show(e.val)[:30]} (line {e.line})")
            if e.kind == 'call' and e.val is not None and e.val[0] == 'call' and e.val[1] in ('.setdefault', '.update', '.__setitem__') and e.val[2] and e.val[2][0] == ('sym', 'kwargs'):
                added.append(f"kwargs{e.val[1]}({', '.join(_show(a)[:20] for a in e.val[2][1:])}) (line {e.line})")
        pool = [v for v in p_.env.values() if isinstance(v, tuple)] + ([p_.value] if isinstance(p_.value, tuple) else [])
        for x in pq.find(('tuple', tuple(pool)), lambda y: pq.call_named(y, ".read_csv") and len(y[2]) >= 1 and y[2][0] == ('sym', 'pd')):
            for kw_ in ("comment", "skiprows", "nrows", "usecols", "skipfooter"):
                if pq.kw_of(x, kw_) is not None:
                    added.append(f"pd.read_csv(.., {kw_}={_show(pq.kw_of(x, kw_))[:20]})")
    rep.check(not added, "R09.c", rel, "read_csv", "the table is parsed with the caller's options only (nothing is added to kwargs, no row / comment filtering keyword)",
              "; ".join(sorted(set(added))[:3]), line=r.lineno, firm=True)
    return EXPLANATION


def eval_cond(test, pe, flags):
    """concrete evaluation of the writer's zip-name guard under a scenario"""
    if isinstance(test, ast.BoolOp):
        vals = [eval_cond(v, pe, flags) for v in test.values]
        return all(vals) if isinstance(test.op, ast.And) else any(vals)
    if isinstance(test, ast.UnaryOp) and isinstance(test.op, ast.Not):
        return not eval_cond(test.operand, pe, flags)
    if isinstance(test, ast.Name):
        if test.id in flags:
            return flags[test.id]
        raise KeyError(f"flag {test.id}")
    if isinstance(test, ast.Compare) and len(test.ops) == 1:
        a = pe.concrete(pe.as_str(pe.ev(test.left)))
        b = pe.concrete(pe.as_str(pe.ev(test.comparators[0])))
        if isinstance(test.ops[0], ast.Eq):
            return a == b
        if isinstance(test.ops[0], ast.NotEq):
            return a != b
    raise KeyError(f"condition {ast.unparse(test)}")


def show(toks):
    return "".join(t.replace("$", "<") + (">" if t.startswith("$") else "") for t in toks)


def flatten_str(e):
    """template text of a header line expression (f-string fields kept as {name}); None when not a pure template"""
    if isinstance(e, ast.Constant) and isinstance(e.value, str):
        return e.value
    if isinstance(e, ast.JoinedStr):
        out = ""
        for v in e.values:
            if isinstance(v, ast.Constant):
                out += v.value
            else:
                out += "{" + re.sub(r"\W+", "_", ast.unparse(v.value))[:20] + "}"
        return out
    if isinstance(e, ast.BinOp) and isinstance(e.op, ast.Add):
        a, b = flatten_str(e.left), flatten_str(e.right)
        if a is None:
            return None
        return a + (b if b is not None else "{expr}")
    return None
