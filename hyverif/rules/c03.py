"""C03 -- CRPS equals its definition and its decomposition is exact (structural clauses of c_crps.c + wrapper)."""
import ast
import itertools

from ..core import AnalysisError
from ..cfront import strip, text
from .. import ckern, ceval, xlayer, pyxread, pq
from ..ceval import CEval, find_all, loop_parts, body_stmts, loop_var, stores_to, mentions
from ..formula import Canon, Ratio, Undecided, show, num
from ..pyfront import Mod, dotted, const_value

EXPLANATION = (
    "c_crps.c is evaluated symbolically, loop body by loop body.  (1) Bin accounting: for every ordering of the "
    "observation against the two ends of a sorted-ensemble bin (the values are only touched through comparisons, so "
    "the orderings are a finite, exhaustive case split) the increments of alpha and beta add up to exactly bin "
    "width x weight, and the outlier bins and outlier frequencies receive exactly Hersbach's (2000) increments.  "
    "(2) Decomposition: in the final loop, for the first, interior and last bin, the term added to the CRPS equals "
    "the terms added to reliability and potential as an exact rational identity, under the guard that dominates the "
    "accumulation.  (3) Output tables: resolution = uncertainty - potential, and the kernel's store order is the "
    "order of the labels in metrics.crps.  (4) The ensemble is copied and sorted before binning, outputs that are "
    "accumulated arrive zeroed, observation and ensemble are filtered by one mask that implies a valid observation, "
    "uncertainty is the weighted sum of pairwise absolute differences.  Tie handling inside one forecast and "
    "floating-point accumulation are not decided.")


def rank_orders(n):
    """all weak orderings of n items as rank tuples (canonical: ranks are 0..k-1 without gaps)"""
    out = set()
    for t in itertools.product(range(n), repeat=n):
        vals = sorted(set(t))
        canon = tuple(vals.index(x) for x in t)
        out.add(canon)
    return sorted(out)


def cmp_oracle(rank_of):
    """oracle deciding comparisons between expressions that are plain symbols with a rank"""
    def oracle(c):
        if c[0] == 'and':
            a, b = oracle(c[1]), oracle(c[2])
            if a is False or b is False:
                return False
            if a is True and b is True:
                return True
            return None
        if c[0] == 'or':
            a, b = oracle(c[1]), oracle(c[2])
            if a is True or b is True:
                return True
            if a is False and b is False:
                return False
            return None
        if c[0] == 'not':
            a = oracle(c[1])
            return None if a is None else not a
        if c[0] == 'cmp':
            op, a, b = c[1], c[2], c[3]
            if a[0] == 'sym' and b[0] == 'sym' and a[1] in rank_of and b[1] in rank_of:
                ra, rb = rank_of[a[1]], rank_of[b[1]]
                return {"<": ra < rb, "<=": ra <= rb, ">": ra > rb, ">=": ra >= rb, "==": ra == rb, "!=": ra != rb}[op]
        return None
    return oracle


def run(rep):
    rep.rule("R03.a", "final loop: crps term == reliability term + potential term (exact identity, first / interior / last bin, under the accumulation guard)")
    rep.rule("R03.b", "crps_decompos = [crps, reliability, uncertainty - potential, uncertainty, potential]; table columns in the order of the Python labels")
    rep.rule("R03.c", "ensemble row copied to scratch and sorted before binning; wrapper asks for sorting")
    rep.rule("R03.d", "accumulated outputs arrive zeroed; scratch bins zero-initialised")
    rep.rule("R03.e", "observations and ensembles filtered by one mask that implies a valid observation")
    rep.rule("R03.f", "bin accounting: for every ordering of obs vs the bin ends alpha+beta grows by width x weight; outlier bins / frequencies get Hersbach's increments; uncertainty = sum of weighted pairwise |differences|")
    rep.assume("qsort sorts ascending with the comparator of c_crps.c; ensemble members within a forecast are finite")
    K = ckern.analyze(rep.repo)
    if K["fns"].get("c_crps") is None:
        raise AnalysisError("stat/c_crps.c: c_crps not found")
    fn = ckern.normalised(K, "c_crps", rep.repo)
    file = fn["file"]
    top = [s for s in fn["body"].get("inner", []) if s.get("kind")]
    tloops = [s for s in top if s.get("kind") == "ForStmt"]
    main = [l for l in tloops if find_all(l, lambda n: n.get("kind") == "CallExpr" and text(n["inner"][0]) == "qsort")]
    final = [l for l in tloops if stores_to(l, "reliability_table")]
    zero = [l for l in tloops if l not in main and l not in final and stores_to(l, "a") and stores_to(l, "b")]
    if len(main) != 1 or len(final) != 1 or not zero:
        raise AnalysisError(f"{file}: c_crps loop structure not recognised (main {len(main)}, final {len(final)}, zeroing {len(zero)})")
    main, final, zero = main[0], final[0], zero[0]
    rep.unit(f"{file}: c_crps: zeroing loop, main loop (copy, sort, bin loop, outliers, uncertainty loop), final loop")
    ivar = loop_var(main)
    mstm = body_stmts(loop_parts(main)[3])
    inner = [s for s in mstm if s.get("kind") == "ForStmt"]
    copy = [l for l in inner if stores_to(l, "ensemb")]
    binl = [l for l in inner if stores_to(l, "a") and stores_to(l, "b")]
    uncl = [l for l in inner if find_all(l, lambda n: n.get("kind") == "CompoundAssignOperator" and text(n["inner"][0]) == "uncertainty")]
    if len(copy) != 1 or len(binl) != 1 or len(uncl) != 1:
        raise AnalysisError(f"{file}: c_crps main loop structure not recognised (copy {len(copy)}, bin {len(binl)}, uncertainty {len(uncl)})")
    copy, binl, uncl = copy[0], binl[0], uncl[0]

    # ---------------- R03.d zero initialisation of scratch bins -----------------------------------------------------
    zv = loop_var(zero)
    ce = CEval().run(body_stmts(loop_parts(zero)[3]), {})
    zeroed = {e.arr for e in ce.effects if e.op == "=" and e.val == num(0) and e.idx == ('sym', zv)}
    zc = text(loop_parts(zero)[1]).replace(" ", "")
    full = zc in (f"{zv}<ncol+1", f"{zv}<=ncol", f"{zv}<1+ncol")
    for arr in ("a", "b", "g", "o"):
        rep.check(arr in zeroed and full, "R03.d", file, "c_crps", f"scratch `{arr}[0..ncol]` zero-initialised before accumulation",
                  f"zeroed arrays {sorted(zeroed)}, loop condition `{zc}`", line=zero.get("_line"))

    # ---------------- R03.c copy and sort -------------------------------------------------------------------------------
    cv = loop_var(copy)
    cce = CEval().run(body_stmts(loop_parts(copy)[3]), {})
    okcp = len(cce.effects) == 1 and cce.effects[0].arr == "ensemb" and cce.effects[0].idx == ('sym', cv)
    if okcp:
        cn = Canon()
        v = cce.effects[0].val
        okcp = v[0] == 'call' and v[1] == 'A:sim' and cn.ratio(v[2][0]) == cn.ratio(('add', ('mul', ('sym', 'ncol'), ('sym', ivar)), ('sym', cv)))
    rep.check(okcp, "R03.c", file, "c_crps", "ensemb[j] = sim[ncol*i + j]: the row is copied before being sorted",
              "the caller's matrix must not be sorted in place and row i must be the one binned", line=copy.get("_line"))
    order = [("copy", copy), ("bin", binl)]
    sort_stmt = [s for s in mstm if find_all(s, lambda n: n.get("kind") == "CallExpr" and text(n["inner"][0]) == "qsort")]
    oks = False
    det = "no qsort statement"
    if sort_stmt:
        s = sort_stmt[0]
        q = find_all(s, lambda n: n.get("kind") == "CallExpr" and text(n["inner"][0]) == "qsort")[0]
        args = [text(a).replace(" ", "") for a in q["inner"][1:]]
        pos = mstm.index(s)
        guarded = s.get("kind") == "IfStmt" and text(s["inner"][0]).replace(" ", "").replace("(", "").replace(")", "") in ("is_sorted==0", "!is_sorted", "0==is_sorted")
        oks = args[0] == "ensemb" and args[1] == "ncol" and mstm.index(copy) < pos < mstm.index(binl) and (guarded or s.get("kind") == "CallExpr")
        det = f"qsort({', '.join(args[:2])}, ..) at position {pos}, guarded by is_sorted==0: {guarded}"
    rep.check(oks, "R03.c", file, "c_crps", "qsort(ensemb, ncol) after the copy and before the bin loop", det, line=sort_stmt[0].get("_line") if sort_stmt else main.get("_line"))

    # ---------------- R03.f bin accounting by ordering enumeration ---------------------------------------------------------------
    jv = loop_var(binl)
    bstm = body_stmts(loop_parts(binl)[3])
    nord = 0
    bad = []
    for ranks in rank_orders(3):
        ry, rlo, rhi = ranks
        if rlo > rhi:
            continue
        nord += 1
        names = {"y": f"v{ry}", "lo": f"v{rlo}", "hi": f"v{rhi}"}
        rank_of = {f"v{ry}": ry, f"v{rlo}": rlo, f"v{rhi}": rhi}

        def ens(idx, jv=jv, names=names):
            cn = Canon()
            if idx == ('sym', jv):
                return ('sym', names["lo"])
            if cn.ratio(idx) == cn.ratio(('add', ('sym', jv), num(1))):
                return ('sym', names["hi"])
            raise Undecided(f"ensemb index {show(idx)}")
        arrays = {"ensemb": ens, "obs": lambda idx, names=names: ('sym', names["y"])}
        ce = CEval(cmp_oracle(rank_of), arrays)
        try:
            ce.run(bstm, {"weight": ('sym', 'w')})
        except Undecided as ex:
            rep.undecided("R03.f", file, "c_crps", f"bin loop, ordering {ranks}", str(ex), line=binl.get("_line"))
            continue
        cn = Canon()
        tot = Ratio.const(0)
        okidx = True
        for e in ce.effects:
            if e.arr in ("a", "b") and e.op == "+=":
                if not cn.ratio(e.idx) == cn.ratio(('add', ('sym', jv), num(1))):
                    okidx = False
                tot = tot + cn.ratio(e.val)
            elif e.arr in ("a", "b"):
                okidx = False
        want = cn.ratio(('mul', ('sub', ('sym', names["hi"]), ('sym', names["lo"])), ('sym', 'w')))
        if not (tot == want and okidx and not any(isinstance(r[0], str) and r[0] != "end" for r in ce.returns)):
            rel = f"obs {'<=>'[(ry > rlo) + (ry >= rlo)]} e[j], obs {'<=>'[(ry > rhi) + (ry >= rhi)]} e[j+1], e[j] {'<=' if rlo < rhi else '=='} e[j+1]"
            bad.append(f"{rel}: alpha+beta += {tot} instead of {want}")
    rep.check(not bad, "R03.f", file, "c_crps", f"bin loop: alpha[j+1]+beta[j+1] grows by (e[j+1]-e[j])*weight for all {nord} orderings of obs vs the bin ends",
              "; ".join(bad), line=binl.get("_line"))
    # outliers: statements of the main body that are plain `if` with stores to a/b/o at constant bins
    outs = [s for s in mstm if s.get("kind") == "IfStmt" and (stores_to(s, "a") or stores_to(s, "b") or stores_to(s, "o"))]
    expect = {  # (array, bin) -> ordering of y vs e : increment
        ("b", "first"): {"<": "(e-y)*w", "==": "0", ">": "0"},
        ("o", "first"): {"<": "w", "==": "0", ">": "0"},
        ("a", "last"): {"<": "0", "==": "0", ">": "(y-e)*w"},
        ("o", "last"): {"<": "w", "==": "0", ">": "0"},
    }
    got = {k: {} for k in expect}
    for rel_, ranks in (("<", (0, 1)), ("==", (0, 0)), (">", (1, 0))):
        ry, re_ = ranks
        names = {"y": "y" if ry != re_ else "e", "e": "e"}
        rank_of = {names["y"]: ry, "e": re_}
        for which, idxwant in (("first", num(0)), ("last", ('sub', ('sym', 'ncol'), num(1)))):
            def ens(idx, idxwant=idxwant):
                cn = Canon()
                if cn.ratio(idx) == cn.ratio(idxwant):
                    return ('sym', 'e')
                return ('sym', 'other')
            ce = CEval(cmp_oracle(rank_of), {"ensemb": ens, "obs": lambda idx, names=names: ('sym', names["y"])})
            try:
                for st_ in outs:          # one statement at a time: an undecided test of the other end must not taint the rest
                    sub = CEval(cmp_oracle(rank_of), {"ensemb": ens, "obs": lambda idx, names=names: ('sym', names["y"])})
                    sub.run([st_], {"weight": ('sym', 'w')})
                    ce.effects += sub.effects
            except Undecided as ex:
                rep.undecided("R03.f", file, "c_crps", f"outlier statements ({which}, obs {rel_} e)", str(ex), line=main.get("_line"))
                continue
            cn = Canon()
            binidx = cn.ratio(num(0)) if which == "first" else cn.ratio(('sym', 'ncol'))
            for arr in ("a", "b", "o"):
                if (arr, which) not in expect:
                    continue
                tot = Ratio.const(0)
                for e in ce.effects:
                    # effects decided with `other` symbols belong to the other end: skip those whose condition was undecided
                    if e.arr == arr and e.op == "+=" and cn.ratio(e.idx) == binidx and not e.conds:
                        tot = tot + cn.ratio(e.val)
                got[(arr, which)][rel_] = tot
    import ast as _ast
    from ..formula import ExprBuilder
    for key, tab in sorted(expect.items()):
        bad = []
        for rel_, src in tab.items():
            cn = Canon()
            w = cn.ratio(ExprBuilder().build(_ast.parse(src, mode="eval").body, {"e": ('sym', 'e'), "y": ('sym', 'y' if rel_ != "==" else 'e'), "w": ('sym', 'w')}))
            g = got[key].get(rel_)
            if g is None or not g == w:
                bad.append(f"obs {rel_} e: += {g}, Hersbach: {src}")
        nm = {"b": "beta[0]", "a": "alpha[N]", "o": "o[0]" if key[1] == "first" else "o[N]"}[key[0]]
        rep.check(not bad, "R03.f", file, "c_crps", f"outlier accounting of {nm} ({'first' if key[1]=='first' else 'last'} member e)", "; ".join(bad), line=main.get("_line"))
    # uncertainty loop
    kv = loop_var(uncl)
    uce = CEval().run(body_stmts(loop_parts(uncl)[3]), {"weight": ('sym', 'w_i')})
    cnu = Canon()
    ucond = text(loop_parts(uncl)[1]).replace(" ", "")
    okU = ucond == f"{kv}<{ivar}"
    val = uce.returns and None
    # final value of `uncertainty` in the evaluated body: look at paths without weights
    ok_formula = False
    try:
        ce2 = CEval(lambda c: False if c[0] == 'cmp' and 'use_weights' in show(c) else None)
        env = {"weight": ('sym', 'w_i'), "uncertainty": ('sym', 'U0')}
        ce2._walk(body_stmts(loop_parts(uncl)[3]), env, [])
        inc = cnu.ratio(('sub', env["uncertainty"], ('sym', 'U0')))
        want = cnu.ratio(('mul', ('mul', ('sym', 'w_i'), ('div', num(1), ('sym', 'nval'))),
                          ('call', 'abs', (('sub', ('call', 'A:obs', (('sym', kv),)), ('call', 'A:obs', (('sym', ivar),))),))))
        want2 = cnu.ratio(('mul', ('mul', ('sym', 'w_i'), ('div', num(1), ('sym', 'nval'))),
                           ('call', 'abs', (('sub', ('call', 'A:obs', (('sym', ivar),)), ('call', 'A:obs', (('sym', kv),))),))))
        ok_formula = inc == want or inc == want2
    except Undecided:
        pass
    rep.check(okU and ok_formula, "R03.f", file, "c_crps", "uncertainty += w_i * w_k * |obs[k] - obs[i]| over k < i (Eq 19)",
              f"loop `{ucond}`", line=uncl.get("_line"))

    # ---------------- R03.a decomposition identity ------------------------------------------------------------------------------
    fv = loop_var(final)
    fstm = body_stmts(loop_parts(final)[3])
    ncases = 0
    for case, jexpr in (("first bin (j = 0)", num(0)), ("interior bin (0 < j < ncol)", ('sym', fv)), ("last bin (j = ncol)", ('sym', 'ncol'))):
        which = case.split()[0]

        def oracle(c, which=which):
            if c[0] in ('and', 'or', 'not'):
                return cmp_oracle({})(c) if False else _bool(c, lambda x: oracle(x))
            if c[0] == 'cmp':
                a, b, op = show(c[2]), show(c[3]), c[1]
                jn = show(jexpr)
                if a == jn or b == jn:
                    other = b if a == jn else a
                    if a != jn:
                        op = {"<": ">", ">": "<", "<=": ">=", ">=": "<=", "==": "==", "!=": "!="}[op]
                    # j compared with 0 or ncol
                    pos = {"first": 0, "interior": 1, "last": 2}[which]
                    ref = {"0": 0, "ncol": 2}.get(other)
                    if ref is None:
                        return None
                    return {"<": pos < ref, "<=": pos <= ref, ">": pos > ref, ">=": pos >= ref, "==": pos == ref, "!=": pos != ref}[op]
            return None
        idxj = jexpr

        def rd(name, init):
            def f(idx, name=name, init=init):
                cn = Canon()
                if cn.ratio(idx) == cn.ratio(idxj):
                    return init
                raise Undecided(f"{name} read at {show(idx)}")
            return f
        arrays = {"a": rd("a", ('sym', 'a')), "b": rd("b", ('sym', 'b')),
                  "o": rd("o", num(0) if which == "interior" else ('sym', 'o')), "g": rd("g", num(0)),
                  "r": rd("r", ('sym', 'r?')), "c": rd("c", ('sym', 'c?'))}
        ce = CEval(oracle, arrays)
        env0 = {fv: jexpr, "crps_potential": ('sym', 'CP0')}
        try:
            paths = []
            ce.run(fstm, env0)
        except Undecided as ex:
            rep.undecided("R03.a", file, "c_crps", case, str(ex), line=final.get("_line"))
            continue
        # group effects per path: identify by conds tuple
        bypath = {}
        for e in ce.effects:
            bypath.setdefault(tuple((show(c), t) for c, t in e.conds), []).append(e)
        # evaluate per complete path: re-run per leaf by enumerating the recorded returns
        leafs = [tuple((show(c), t) for c, t in r[1]) for r in ce.returns]
        checked = 0
        for leaf in leafs:
            cn = Canon()
            t0 = tr = Ratio.const(0)
            tc = None
            sat = True
            for key, effs in bypath.items():
                if key != leaf[:len(key)]:
                    continue
                for e in effs:
                    if e.arr == "crps_decompos" and e.op == "+=":
                        if cn.ratio(e.idx) == Ratio.const(0):
                            t0 = t0 + cn.ratio(e.val)
                        elif cn.ratio(e.idx) == Ratio.const(1):
                            tr = tr + cn.ratio(e.val)
            # potential: scalar variable; recover its increment from a dedicated evaluation of this leaf
            decide = dict(leaf)

            def leaf_oracle(c, decide=decide, oracle=oracle):
                r = oracle(c)
                if r is not None:
                    return r
                return decide.get(show(c))
            ce3 = CEval(leaf_oracle, arrays)
            env3 = dict(env0)
            ce3._walk(fstm, env3, [])
            # CEval copies env on forks only; with every condition decided the walk is linear and env3 is final
            tc = cn.ratio(('sub', env3.get("crps_potential", ('sym', 'CP0')), ('sym', 'CP0')))
            g_guard = [t for (txt, t) in leaf if txt.replace(" ", "").startswith("(g") or "g[" in txt]
            accum = not tr.is_zero() or not tc.is_zero()
            if not accum:
                continue           # g == 0: nothing accumulated; the crps term vanishes by a data argument (not decided)
            checked += 1
            ok = t0 == tr + tc
            rep.check(ok, "R03.a", file, "c_crps", f"{case}: crps term == reliability + potential terms [{', '.join(f'{a}={b}' for a, b in leaf) or 'always'}]",
                      f"crps += {t0}; reliability += {tr}; potential += {tc}", line=final.get("_line"))
            # the accumulation must be guarded by g > 0
            gg = [(txt, t) for txt, t in leaf if txt.replace(" ", "") in ("(g>0)",) or "> 0" in txt or ">0" in txt]
            rep.check(any(t for _, t in gg), "R03.a", file, "c_crps", f"{case}: reliability/potential accumulated only under g > 0",
                      "an empty bin has o = 0/0: without the guard the decomposition becomes NaN", line=final.get("_line"))
        ncases += checked
    rep.floor("decomposition cases checked", ncases, 3)

    # ---------------- R03.b outputs ----------------------------------------------------------------------------------------------------------
    tail = top[top.index(final) + 1:]
    tce = CEval()
    try:
        tce.run([s for s in tail if s.get("kind") in ("BinaryOperator",)], {})
    except Undecided as ex:
        rep.undecided("R03.b", file, "c_crps", "final stores", str(ex), line=final.get("_line"))
    cn = Canon()
    wantd = {2: ('sub', ('sym', 'uncertainty'), ('sym', 'crps_potential')), 3: ('sym', 'uncertainty'), 4: ('sym', 'crps_potential')}
    for k, w in wantd.items():
        es = [e for e in tce.effects if e.arr == "crps_decompos" and e.op == "=" and cn.ratio(e.idx) == Ratio.const(k)]
        rep.check(len(es) == 1 and cn.ratio(es[0].val) == cn.ratio(w), "R03.b", file, "c_crps", f"crps_decompos[{k}] = {show(w)}",
                  f"stored: {show(es[0].val) if es else 'nothing'}", line=es[0].line if es else final.get("_line"))
    # table column order
    cols = {}
    ce4 = CEval(lambda c: None, None)
    stores = stores_to(final, "reliability_table")
    for st in stores:
        idx = ceval.to_expr(strip(st["inner"][0])["inner"][1], {"ncol_rt": num(7)})
        off = cn.ratio(idx) - cn.ratio(('mul', ('sym', fv), num(7)))
        if off.is_const():
            try:
                cols[int(off.cval())] = ceval.to_expr(st["inner"][1], {})
            except Undecided:
                cols[int(off.cval())] = None
    mod = Mod(rep.repo, "stat/metrics.py")
    pf = mod.func("crps")
    # labels: the column names given to the table and the index given to the decomposition, on the evaluated paths of crps()
    # (module-level literal tables and private helpers take part in the evaluation)
    from .. import pfold
    BASE = {}
    for n in mod.tree.body:
        if isinstance(n, ast.Assign) and len(n.targets) == 1 and isinstance(n.targets[0], ast.Name):
            try:
                BASE[('sym', n.targets[0].id)] = pfold.lit(ast.literal_eval(n.value))
            except (ValueError, SyntaxError, TypeError):
                pass
    lpe = pq.PEval()
    lpe.inline = {n.name: n for n in mod.tree.body if isinstance(n, ast.FunctionDef) and n.name.startswith("_") and not n.name.startswith("__")}
    labels_tab = labels_dec = None
    altered_data = []
    for p_ in lpe.run(pf):
        if p_.how != "return":
            continue
        pool = [p_.value] + [e.val for e in p_.effects if e.val is not None] + [v for v in p_.env.values() if isinstance(v, tuple)]
        cand_t, cand_d = [], []
        for e in p_.effects:
            if e.kind == 'attr' and e.target.endswith(".columns"):
                cand_t.append(e.val)
        for x in pq.find(('tuple', tuple(pool)), lambda y: pq.call_named(y, ".DataFrame") or pq.call_named(y, ".Series")):
            kw = pq.kw_of(x, 'columns') if pq.call_named(x, ".DataFrame") else pq.kw_of(x, 'index')
            if kw is None and pq.call_named(x, ".Series") and len(x[2]) >= 3:
                kw = x[2][2]
            if kw is not None:
                (cand_t if pq.call_named(x, ".DataFrame") else cand_d).append(kw)
            if len(x[2]) >= 2:
                altered_data.append((x[1], x[2][1]))
        # ... and nothing is applied to the Series / DataFrame after it is built (clip, abs, round, fillna, arithmetic ...)
        POST = (".clip", ".abs", ".round", ".fillna", ".mask", ".where", ".replace", ".apply", ".map", ".transform", ".cumsum", ".sort_values",
                ".mul", ".div", ".add", ".sub", ".drop", ".iloc", ".loc", ".head", ".tail")
        if isinstance(p_.value, tuple):
            for y in pq.find(p_.value, lambda z: (z[0] == 'call' and z[1] in POST and len(z[2]) >= 1 and
                                                   pq.mentions(z[2][0], lambda w: pq.call_named(w, ".Series") or pq.call_named(w, ".DataFrame"))) or
                             (z[0] in ('add', 'sub', 'mul', 'div', 'neg') and pq.mentions(z, lambda w: pq.call_named(w, ".Series") or pq.call_named(w, ".DataFrame")))):
                altered_data.append(("returned value", ('call', 'clip', (y,)) if y[0] == 'call' else y))
        for cands, n_ in ((cand_t, 7), (cand_d, 5)):
            for c_ in cands:
                f_ = pfold.fold(c_, BASE)
                if pfold.is_lit(f_) and isinstance(f_[1], tuple) and len(f_[1]) == n_ and all(isinstance(z, str) for z in f_[1]):
                    if n_ == 7:
                        labels_tab = list(f_[1])
                    else:
                        labels_dec = list(f_[1])

    def rd_(a):
        return ('call', 'A:' + a, (('sym', fv),))
    want_cols = {"freq": ('div', ('sym', fv), ('sym', 'ncol')), "a": rd_("a"), "b": rd_("b"), "g": rd_("g"), "rank": rd_("o"),
                 "reliability": rd_("r"), "crps_potential": rd_("c")}

    def same(l, got):
        w = want_cols.get(l)
        if w is None or got is None:
            return False
        try:
            return cn.ratio(w) == cn.ratio(got)
        except Undecided:
            return False
    # what the kernel computed is returned as computed: the arrays handed to Series / DataFrame carry no later store or arithmetic
    touched = [(nm, d_) for nm, d_ in altered_data if pq.call_named(d_, "setitem") or d_[0] in ('add', 'sub', 'mul', 'div', 'where', 'neg') or
               (d_[0] == 'call' and d_[1] in ('clip', 'maximum', 'minimum', 'abs', 'round', 'around', 'nan_to_num', 'where'))]
    rep.check(not touched, "R03.b", "stat/metrics.py", "crps", "table and decomposition are returned as the kernel computed them (no later store or arithmetic)",
              f"{touched[0][0]} receives {show(touched[0][1])[:120]}" if touched else "", line=pf.lineno, firm=True)
    if labels_tab is None or labels_dec is None:
        rep.undecided("R03.b", "stat/metrics.py", "crps", "labels of the table / decomposition", "label lists not recognised on the evaluated paths", line=pf.lineno)
        return EXPLANATION
    okc = labels_tab is not None and len(cols) == 7 and all(same(l, cols.get(i)) for i, l in enumerate(labels_tab))
    rep.check(okc, "R03.b", "stat/metrics.py", "crps", "table columns labelled in the kernel's store order",
              f"kernel stores {[show(cols[i]) if cols.get(i) is not None else None for i in range(7)]}, labels {labels_tab}", line=pf.lineno)
    rep.check(labels_dec == ["crps", "reliability", "resolution", "uncertainty", "potential"], "R03.b", "stat/metrics.py", "crps",
              "decomposition labelled [crps, reliability, resolution, uncertainty, potential] (kernel order 0..4)", f"labels {labels_dec}", line=pf.lineno)

    # ---------------- wrapper: R03.c / R03.d / R03.e ------------------------------------------------------------------------------------------
    P = pyxread.load_all(rep.repo)
    shims = {cm: {sh.name: sh for sh in d["shims"]} for cm, d in P.items()}
    sites, _ = xlayer.find_sites(rep.repo, shims)
    site = [s for s in sites if s.shim.name == "crps" and s.func.name == "crps"]
    if len(site) != 1:
        raise AnalysisError("stat/metrics.py: call site of c_hydrodiy_stat.crps not found")
    site = site[0]
    a = site.args
    rep.check(a.get("is_sorted") and a["is_sorted"][1].cval == 0, "R03.c", "stat/metrics.py", "crps", "wrapper passes is_sorted = 0 (the kernel sorts every ensemble)",
              f"is_sorted argument `{ast.unparse(a['is_sorted'][0]) if a.get('is_sorted') else '?'}`", line=site.call.lineno)
    rep.check(a.get("use_weights") and a["use_weights"][1].cval == 0, "R03.d", "stat/metrics.py", "crps", "wrapper passes use_weights = 0 (uniform weights 1/n)",
              "", line=site.call.lineno)
    for pn in ("crps_decompos", "reliability_table"):
        v = a.get(pn)
        xlayer.check_init(rep, v, ("zeros",), "R03.d", "stat/metrics.py", "crps", f"`{pn}` (accumulated by the kernel) is a fresh zero array", site.call.lineno)
    ck = mod.funcs.get("__check_ensemble_data")
    if ck is None:
        raise AnalysisError("stat/metrics.py: __check_ensemble_data not found")
    # decided on the evaluated returning paths: both series are filtered by row selectors whose masks have the same truth table, and
    # that table keeps a row only when its observation is valid
    cpaths = [p_ for p_ in pq.PEval().run(ck) if p_.how == "return"]
    if not cpaths:
        raise AnalysisError("stat/metrics.py: __check_ensemble_data: no returning path")

    def series_of(x):
        mo = pq.mentions(x, lambda e: e == ('sym', 'obs'))
        me = pq.mentions(x, lambda e: e == ('sym', 'ens'))
        if mo and not me:
            return "obs"
        if me and not mo:
            return "ens"
        return None
    oksame = okimp = True
    dsame = dimp = ""
    und = None
    layout_bad = []
    transposed = []
    for p_ in cpaths:
        v = p_.value
        if not (v[0] == 'tuple' and len(v[1]) >= 2 and all(pq.call_named(x, "getitem") for x in v[1][:2])):
            # a path that hands the converted input on unfiltered: the 2-D ensemble keeps the caller's memory layout (astype / atleast_2d /
            # asarray preserve it) and the typed memoryview of the shim rejects a transposed or Fortran-ordered array
            if v[0] == 'tuple' and len(v[1]) >= 2:
                e_ = v[1][1]
                while pq.call_named(e_, "astype") or pq.call_named(e_, "atleast_2d") or pq.call_named(e_, "asarray") or pq.call_named(e_, "array") \
                        or pq.call_named(e_, "atleast_1d") or pq.call_named(e_, "float64"):
                    e_ = e_[2][0]
                if e_ == ('sym', 'ens'):
                    layout_bad.append(p_)
                    continue
            und = "returned series are not row selections of the inputs"
            continue
        tr_ = pq.find(v[1][1][2][0], lambda x: x[0] == 'call' and x[1] in ("attr:T", "transpose", ".transpose", "swapaxes", ".swapaxes"))
        if tr_:
            transposed.append(p_)
        mo, me = pq.selector_mask(v[1][0][2][1]), pq.selector_mask(v[1][1][2][1])
        to = pq.mask_table(mo, series_of, {"obs": 1, "ens": 2})
        te = pq.mask_table(me, series_of, {"obs": 1, "ens": 2})
        if any(x is None for x in to.values()) or any(x is None for x in te.values()):
            und = f"mask outside the valid / missing vocabulary: {show(mo)[:80]}"
            continue
        if to != te:
            oksame, dsame = False, f"obs filtered by {show(mo)[:70]}, ens by {show(me)[:70]}"
        bad = [k_ for k_, val in to.items() if val and not dict(k_)[('valid', 'obs')]]
        if bad:
            okimp, dimp = False, f"a row with a missing observation is kept when {dict(bad[0])}"
    rep.check(not transposed, "R03.e", "stat/metrics.py", "__check_ensemble_data", "forecasts stay along axis 0 of the ensemble (no transposition on any path)",
              f"{len(transposed)} returning path(s) transpose the ensemble: a square ensemble (as many members as forecasts) satisfies any shape test used to decide it", line=ck.lineno, firm=True)
    rep.check(not layout_bad, "R03.e", "stat/metrics.py", "__check_ensemble_data", "the ensemble reaches the kernel as a fresh C-ordered array on every path (row selection copies)",
              f"{len(layout_bad)} returning path(s) hand the converted input on with the caller's memory layout: a transposed / Fortran-ordered ensemble is rejected by the shim", line=ck.lineno, firm=True)
    if und:
        rep.undecided("R03.e", "stat/metrics.py", "__check_ensemble_data", "obs and ens are filtered by the same mask", und, line=ck.lineno)
    else:
        rep.check(oksame, "R03.e", "stat/metrics.py", "__check_ensemble_data", "obs and ens are filtered by the same mask (equal truth tables over valid / missing)", dsame, line=ck.lineno)
        rep.check(okimp, "R03.e", "stat/metrics.py", "__check_ensemble_data", "the mask keeps a forecast only when its observation is valid", dimp, line=ck.lineno)
    return EXPLANATION


def ensemble_filter_tables(mod):
    """truth tables (over: observation valid, any / all members valid) of the masks that filter obs and ens on every returning path of
    __check_ensemble_data that returns row selections -> [(obs table, ens table)]; None in a table = mask outside the vocabulary"""
    ck = mod.funcs.get("__check_ensemble_data")
    if ck is None:
        raise AnalysisError("stat/metrics.py: __check_ensemble_data not found")

    def series_of(x):
        mo = pq.mentions(x, lambda e: e == ('sym', 'obs'))
        me = pq.mentions(x, lambda e: e == ('sym', 'ens'))
        return "obs" if mo and not me else ("ens" if me and not mo else None)
    out = []
    for p_ in pq.PEval().run(ck):
        v = p_.value
        if p_.how != "return" or not (isinstance(v, tuple) and v[0] == 'tuple' and len(v[1]) >= 2 and all(pq.call_named(x, "getitem") for x in v[1][:2])):
            continue
        mo, me = pq.selector_mask(v[1][0][2][1]), pq.selector_mask(v[1][1][2][1])
        out.append((pq.mask_table(mo, series_of, {"obs": 1, "ens": 2}), pq.mask_table(me, series_of, {"obs": 1, "ens": 2})))
    return ck, out


def _bool(c, rec):
    if c[0] == 'and':
        a, b = rec(c[1]), rec(c[2])
        if a is False or b is False:
            return False
        return True if (a is True and b is True) else None
    if c[0] == 'or':
        a, b = rec(c[1]), rec(c[2])
        if a is True or b is True:
            return True
        return False if (a is False and b is False) else None
    if c[0] == 'not':
        a = rec(c[1])
        return None if a is None else not a
    return None
