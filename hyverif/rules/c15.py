"""C15 -- point-in-polygon answers agree with the even-odd rule (structural clauses)."""
import ast
import itertools

from ..core import AnalysisError
from ..cfront import strip, text
from .. import ckern, xlayer, pyxread
from ..ceval import CEval, find_all, loop_parts, body_stmts, loop_var, stores_to
from ..formula import Canon, Ratio, Undecided, show, num, ExprBuilder
from ..pyfront import Mod, dotted, const_value
from .c03 import rank_orders, _bool

EXPLANATION = (
    "The edge step of c_inside is evaluated for every weak ordering of the point's ordinate against the two edge "
    "ordinates (13 orderings, the values are only compared) combined with the three remaining predicates (point left "
    "of the edge's right end, edge not horizontal beyond the tolerance, point left of the intersection / edge "
    "vertical): the parity flag must toggle exactly when min(y1,y2) < y <= max(y1,y2) -- the half-open rule that "
    "counts a ray through a vertex once -- and the abscissa test holds; the intersection abscissa equals "
    "x1 + (y-y1)(x2-x1)/(y2-y1).  Edges are visited as consecutive vertex pairs closed through ivert % nvertices; "
    "points outside the bounding box are skipped, so the answer vector must arrive zeroed on both wrapper paths; the "
    "box is computed from the polygon buffer that is passed; cells_inside_polygon tests the centre of every cell "
    "(arange(nrows*ncols)) and returns the flagged cells.  Agreement with the even-odd rule for arbitrary polygons "
    "(the crossing count itself) is not computed.")


def run(rep):
    rep.rule("R15.a", "edge step toggles the flag exactly when ymin < y <= ymax (half-open) and the abscissa test holds, for every ordering; intersection abscissa formula")
    rep.rule("R15.b", "edges = consecutive vertices closed by ivert % nvertices; bounding-box skip => answer vector zeroed on both wrapper paths; box from the passed polygon")
    rep.rule("R15.c", "cells_inside_polygon tests the centres of all nrows*ncols cells and returns the flagged ones")
    K = ckern.analyze(rep.repo)
    fn = K["fns"].get("c_inside")
    if fn is None:
        raise AnalysisError("gis/c_points_inside_polygon.c: c_inside not found")
    file = fn["file"]
    outer = [s for s in fn["body"]["inner"] if s.get("kind") == "ForStmt"]
    if len(outer) != 1:
        raise AnalysisError(f"{file}: point loop not found")
    outer = outer[0]
    pv = loop_var(outer)
    ostm = body_stmts(loop_parts(outer)[3])
    el = [s for s in ostm if s.get("kind") == "ForStmt"]
    if len(el) != 1:
        raise AnalysisError(f"{file}: edge loop not found")
    el = el[0]
    ev = loop_var(el)
    estm = body_stmts(loop_parts(el)[3])
    rep.unit(f"{file}: c_inside (point loop, edge loop); gis/gutils.py: points_inside_polygon; gis/grid.py: cells_inside_polygon; c_hydrodiy_gis.pyx: points_inside_polygon")
    # ---- edge step
    bad, n = [], 0
    xint_ok = None
    for ranks in rank_orders(3):
        ry, r1, r2 = ranks
        for XL, NH, AB in itertools.product([True, False], repeat=3):
            n += 1
            rank_of = {"Y": ry, "P1Y": r1, "P2Y": r2}

            def val(e):
                s_ = show(e)
                if s_ in rank_of:
                    return rank_of[s_]
                if e[0] == 'call' and e[1] in ('min', 'max') and all(show(a) in rank_of for a in e[2]):
                    f = min if e[1] == 'min' else max
                    return f(rank_of[show(a)] for a in e[2])
                return None

            def oracle(c, XL=XL, NH=NH, AB=AB):
                if c[0] in ('and', 'or', 'not'):
                    return _bool(c, oracle)
                if c[0] != 'cmp':
                    return None
                a, b, o = c[2], c[3], c[1]
                va, vb = val(a), val(b)
                if va is not None and vb is not None:
                    return {"<": va < vb, "<=": va <= vb, ">": va > vb, ">=": va >= vb, "==": va == vb, "!=": va != vb}[o]
                sa, sb = show(a), show(b)
                if sa == "X" and sb.startswith("max(") and o == "<=":
                    return XL
                if sa == "DISTY" and sb == "atol" and o == ">":
                    return NH
                if (sa == "DISTX" and sb == "atol" and o == "<"):
                    return AB          # combined abscissa predicate: decided as a whole below
                if sa == "X" and o == "<=" and "XINT" in sb:
                    return AB
                return None
            ce = CEval(oracle, {"polygon": lambda idx: ('sym', 'P2X') if "+" not in show(idx) else ('sym', 'P2Y'), "inside": lambda idx: ('sym', 'IN0')})
            env = {"x": ('sym', 'X'), "y": ('sym', 'Y'), "p1x": ('sym', 'P1X'), "p1y": ('sym', 'P1Y'), "p2x": ('sym', 'P2X'), "p2y": ('sym', 'P2Y')}
            # abstract dist / xinters at their definitions
            stm2 = []
            for s in estm:
                if s.get("kind") == "BinaryOperator" and s.get("opcode") == "=" and text(s["inner"][0]) in ("p2x", "p2y", "k"):
                    continue
                stm2.append(s)
            # walk manually so that `dist` gets its role symbol (first definition: |p1y-p2y|, second: |p1x-p2x|)
            roles = iter(["DISTY", "DISTX"])
            cev = CEval(oracle, ce.arrays)

            def prep(stmts):
                out = []
                for s in stmts:
                    if s.get("kind") == "BinaryOperator" and s.get("opcode") == "=" and text(s["inner"][0]) == "dist":
                        role = next(roles)
                        out.append(("setdist", role))
                    elif s.get("kind") == "IfStmt":
                        out.append(("if", s))
                    elif s.get("kind") == "CompoundStmt":
                        out += prep(s.get("inner", []))
                    else:
                        out.append(("stmt", s))
                return out
            try:
                toggled = _edge_walk(cev, stm2, env, roles)
            except Undecided as ex:
                rep.undecided("R15.a", file, "c_inside", f"edge step ordering {ranks}", str(ex), line=el.get("_line"))
                continue
            ymin, ymax = min(r1, r2), max(r1, r2)
            want = (ymin < ry <= ymax) and XL and AB
            if toggled != want:
                rel = f"y {'<=>'[(ry > r1) + (ry >= r1)]} y1, y {'<=>'[(ry > r2) + (ry >= r2)]} y2, y1 {'<=>'[(r1 > r2) + (r1 >= r2)]} y2"
                bad.append(f"[{rel}; x<=xmax={XL}; not-horizontal={NH}; abscissa-test={AB}] toggles={toggled}, half-open rule says {want}")
    rep.check(not bad, "R15.a", file, "c_inside", f"edge step toggles the flag iff ymin < y <= ymax and the abscissa tests hold ({n} cases: 13 orderings x 8 predicate assignments)",
              " | ".join(bad[:3]) + (f" | ... {len(bad)} cases" if len(bad) > 3 else ""), line=el.get("_line"))
    rep.floor("edge step cases", n, 100)
    # intersection abscissa
    xi = [s for s in find_all(el, lambda n: n.get("kind") in ("BinaryOperator", "CompoundAssignOperator") and text(n["inner"][0]) == "xinters")]
    cn = Canon()
    okx = False
    det = ""
    if len(xi) == 2:
        base = [s for s in xi if s.get("opcode") == "="]
        inc = [s for s in xi if s.get("opcode") == "+="]
        if base and inc:
            from ..ceval import to_expr
            e0 = to_expr(base[0]["inner"][1], {})
            e1 = to_expr(inc[0]["inner"][1], {})
            want = ('div', ('mul', ('sub', ('sym', 'y'), ('sym', 'p1y')), ('sub', ('sym', 'p2x'), ('sym', 'p1x'))), ('sub', ('sym', 'p2y'), ('sym', 'p1y')))
            okx = e0 == ('sym', 'p1x') and cn.ratio(e1) == cn.ratio(want)
            det = f"xinters = {show(e0)} + {show(e1)}"
            guard = [s for s in find_all(el, lambda n: n.get("kind") == "IfStmt") if find_all(s, lambda m: m is inc[0])]
            okx = okx and bool(guard) and text(guard[-1]["inner"][0]).replace(" ", "") in ("dist>atol",)
    rep.check(okx, "R15.a", file, "c_inside", "intersection abscissa = x1 + (y - y1)(x2 - x1)/(y2 - y1), division guarded by |y1 - y2| > atol", det, line=el.get("_line"))
    dd = [text(s["inner"][1]).replace(" ", "") for s in find_all(el, lambda n: n.get("kind") == "BinaryOperator" and n.get("opcode") == "=" and text(n["inner"][0]) == "dist")]
    rep.check(dd == ["fabs(p1y-p2y)", "fabs(p1x-p2x)"] or dd == ["fabs(p2y-p1y)", "fabs(p2x-p1x)"], "R15.a", file, "c_inside", "tolerance tests use |y1-y2| (horizontal edge) then |x1-x2| (vertical edge)", str(dd), line=el.get("_line"))
    # ---- R15.b edges and closure
    einit, econd = text(loop_parts(el)[0]).replace(" ", ""), text(loop_parts(el)[1]).replace(" ", "")
    kdef = [text(s["inner"][1]).replace(" ", "") for s in estm if s.get("kind") == "BinaryOperator" and text(s["inner"][0]) == "k"]
    adv = {text(s["inner"][0]): text(s["inner"][1]).replace(" ", "") for s in estm if s.get("kind") == "BinaryOperator" and s.get("opcode") == "="}
    okE = einit == f"{ev}=1" and econd in (f"{ev}<nvertices+1", f"{ev}<=nvertices") and kdef == [f"2*({ev}%nvertices)"] and \
        adv.get("p2x") == "polygon[k]" and adv.get("p2y") == "polygon[k+1]" and adv.get("p1x") == "p2x" and adv.get("p1y") == "p2y"
    pre = {text(s["inner"][0]): text(s["inner"][1]).replace(" ", "") for s in ostm if s.get("kind") == "BinaryOperator" and s.get("opcode") == "="}
    okE = okE and pre.get("p1x") == "polygon[0]" and pre.get("p1y") == "polygon[1]"
    rep.check(okE, "R15.b", file, "c_inside", "edges are consecutive vertex pairs starting at vertex 0 and closed through ivert % nvertices (open or closed vertex lists)",
              f"loop {einit};{econd}; k={kdef}", line=el.get("_line"))
    rep.check(pre.get("x") == f"points[2*{pv}]" and pre.get("y") == f"points[2*{pv}+1]" and pre.get(f"inside[{pv}]") == "0", "R15.b", file, "c_inside",
              "point i = (points[2i], points[2i+1]); flag reset before the edge loop", str({k: pre.get(k) for k in ('x', 'y')}), line=outer.get("_line"))
    bb = [s for s in ostm if s.get("kind") == "IfStmt" and find_all(s, lambda n: n.get("kind") == "ContinueStmt") and "polygon_xlim" in text(s["inner"][0])]
    okbb = False
    if bb:
        t = text(bb[0]["inner"][0]).replace(" ", "")
        okbb = all(x in t for x in ("x<polygon_xlim[0]", "x>polygon_xlim[1]", "y<polygon_ylim[0]", "y>polygon_ylim[1]")) and "&&" not in t
    rep.check(okbb, "R15.b", file, "c_inside", "points strictly outside the bounding box are skipped (their flag is left as it arrived)", "", line=outer.get("_line"))
    # shim: bounding box from the polygon passed
    P = pyxread.load_all(rep.repo)
    sh = [s for s in P["c_hydrodiy_gis"]["shims"] if s.name == "points_inside_polygon"]
    if not sh:
        raise AnalysisError("c_hydrodiy_gis.pyx: points_inside_polygon shim not found")
    sh = sh[0]
    lims = {}
    for st in sh.body:
        if isinstance(st, ast.Assign) and isinstance(st.targets[0], ast.Subscript):
            lims[ast.unparse(st.targets[0]).replace(" ", "")] = ast.unparse(st.value).replace(" ", "")
    want = {"polygon_xlim[0]": "polygon[:,0].min()", "polygon_xlim[1]": "polygon[:,0].max()", "polygon_ylim[0]": "polygon[:,1].min()", "polygon_ylim[1]": "polygon[:,1].max()"}
    rep.check(lims == want, "R15.b", "gis/c_hydrodiy_gis.pyx", "points_inside_polygon", "bounding box = min/max of the columns of the polygon that is passed to the kernel", str(lims), line=sh.line)
    shims = {cm: {s_.name: s_ for s_ in d["shims"]} for cm, d in P.items()}
    sites, _ = xlayer.find_sites(rep.repo, shims)
    st = [s for s in sites if s.shim.name == "points_inside_polygon"]
    if len(st) != 1:
        raise AnalysisError("gis/gutils.py: call site of points_inside_polygon not found")
    st = st[0]
    v = st.args.get("inside")
    rep.check(v is not None and v[1].init == ("zeros",), "R15.b", "gis/gutils.py", "points_inside_polygon",
              "`inside` is zero on every path to the kernel (np.zeros when allocated here, fill(0) when supplied by the caller)",
              f"init at the call: {v[1].init if v else None}: a re-used buffer keeps stale answers for points outside the bounding box", line=st.call.lineno)
    ok, how, _ = xlayer.error_discipline(st)
    rep.check(ok, "R15.b", "gis/gutils.py", "points_inside_polygon", "kernel error code raises", how, line=st.call.lineno)
    names = {pn: ast.unparse(x[0]) for pn, x in st.args.items()}
    rep.check(names.get("points") == "points" and names.get("polygon") == "polygon" and names.get("atol") == "atol", "R15.b", "gis/gutils.py", "points_inside_polygon",
              "points, polygon and tolerance bound to the same-named shim parameters", str(names), line=st.call.lineno)
    # ---- R15.c
    mod = Mod(rep.repo, "gis/grid.py")
    f = mod.func("Grid.cells_inside_polygon")
    asg = {n.targets[0].id: n for n in ast.walk(f) if isinstance(n, ast.Assign) and isinstance(n.targets[0], ast.Name)}
    b = ExprBuilder(lambda d, env: ('sym', d.split(".")[-1]) if d.startswith("self.") else None, None)
    okn = False
    if "ncells" in asg:
        try:
            c2 = Canon()
            okn = c2.ratio(b.build(asg["ncells"].value, {})) == c2.ratio(b.build(ast.parse("np.arange(nrows*ncols)", mode="eval").body, {"nrows": ('sym', 'nrows'), "ncols": ('sym', 'ncols')}))
        except Undecided:
            okn = False
    rep.check(okn, "R15.c", "gis/grid.py", "Grid.cells_inside_polygon", "every cell of the grid is tested: arange(nrows*ncols)", ast.unparse(asg["ncells"].value) if "ncells" in asg else "", line=f.lineno)
    okp = "points" in asg and ast.unparse(asg["points"].value).replace(" ", "") == "self.cell2coord(ncells)"
    ins = [n for n in ast.walk(f) if isinstance(n, ast.Call) and dotted(n.func) == "gutils.points_inside_polygon"]
    okp = okp and len(ins) == 1 and [ast.unparse(a) for a in ins[0].args[:2]] == ["points", "polygon"]
    rep.check(okp, "R15.c", "gis/grid.py", "Grid.cells_inside_polygon", "the points tested are the cell centres (cell2coord), against the given polygon", "", line=f.lineno)
    dd = [n for n in ast.walk(f) if isinstance(n, ast.Dict)]
    okd = bool(dd) and {const_value(k): ast.unparse(v).replace(" ", "") for k, v in zip(dd[0].keys, dd[0].values)} == \
        {"x": "points[inside,0]", "y": "points[inside,1]", "cell": "ncells[inside]"}
    cast = any(isinstance(n, ast.Assign) and ast.unparse(n).replace(" ", "") == "inside=inside.astype(bool)" for n in ast.walk(f))
    rep.check(okd and cast, "R15.c", "gis/grid.py", "Grid.cells_inside_polygon", "returns x, y and cell number of exactly the flagged cells", "", line=f.lineno)
    return EXPLANATION


def _edge_walk(cev, stmts, env, roles):
    """evaluate the edge step; returns True when the flag is toggled.  `dist` gets a role symbol at each definition."""
    toggled = [False]

    def walk(stmts):
        for s in stmts:
            k = s.get("kind")
            if k == "CompoundStmt":
                walk(s.get("inner", []))
            elif k == "IfStmt":
                c = cev.ex(s["inner"][0], env)
                d = cev.oracle(c)
                if d is None:
                    raise Undecided(f"condition {show(c)}")
                br = s["inner"][1] if d else (s["inner"][2] if len(s["inner"]) > 2 else None)
                if br is not None:
                    walk([br])
            elif k == "BinaryOperator" and s.get("opcode") == "=":
                tgt = text(s["inner"][0])
                if tgt == "dist":
                    env["dist"] = ('sym', next(roles))
                elif tgt == "xinters":
                    env["xinters"] = ('sym', 'XINT')
                elif tgt.startswith("inside["):
                    v = cev.ex(s["inner"][1], env)
                    if show(v).replace(" ", "") in ("(1-IN0)",):
                        toggled[0] = not toggled[0]
                    else:
                        raise Undecided(f"flag update {show(v)}")
                else:
                    env[tgt] = cev.ex(s["inner"][1], env)
            elif k == "CompoundAssignOperator":
                tgt = text(s["inner"][0])
                if tgt == "xinters":
                    env["xinters"] = ('sym', 'XINT')
            else:
                pass
    walk(stmts)
    return toggled[0]
